#!/usr/bin/env python3
"""Validate MANIFEST.json and every evidence file against the given schemas (uses the tooling venv's jsonschema)."""
import json, glob, sys
import jsonschema
ok = True
m = json.load(open('/verif/MANIFEST.json'))
jsonschema.validate(m, json.load(open('/root/.vp/MANIFEST.schema.json')))
es = json.load(open('/root/.vp/EVIDENCE.schema.json'))
for c in m['checks']:
    p = '/verif/' + c['evidence_file']
    try:
        jsonschema.validate(json.load(open(p)), es)
    except Exception as e:
        ok = False
        print('BAD', p, str(e)[:300])
ids = {c['property_id'] for c in m['checks']} | {n['property_id'] for n in m.get('not_applicable', [])}
allp = {json.loads(l)['id'] for l in open('/verif/properties.jsonl')}
print('unlisted properties:', sorted(allp - ids))
print('OK' if ok else 'FAIL')
