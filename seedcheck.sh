#!/bin/bash
# ./seedcheck.sh <Cnn> [srcdir] [name] [check ...]  — validates an independently written breaking change
# (patch.diff + demo) in a scratch worktree of /repo and runs the given checks (default: Cnn) against it.
# srcdir defaults to /tmp/seedout_<Cnn>; results are stored under /verif/seeded/<Cnn>/.
prop=$1; src=${2:-/tmp/seedout_$1}; name=${3:-$1}; shift; shift; shift
checks=${@:-$prop}
export GOFLAGS=-mod=mod GOPROXY=off GOSUMDB=off GOTOOLCHAIN=local
WT=/tmp/sc_$prop.$$
dst=/verif/seeded/$name
mkdir -p $dst
cp $src/patch.diff $dst/patch.diff || exit 2
demo=$(ls $src/*.go | head -1)
cp $demo $dst/ ; cp $src/meta.json $dst/meta.json 2>/dev/null
git -C /repo worktree add -q --detach $WT HEAD || exit 2
trap 'git -C /repo worktree remove --force $WT 2>/dev/null' EXIT
cd $WT
if ! git apply $dst/patch.diff; then echo "PATCH DOES NOT APPLY to current HEAD"; exit 3; fi
if ! go build ./... ; then echo "DOES NOT BUILD"; exit 3; fi
mkdir -p demo && cp $demo demo/
case "$demo" in *_test.go) runcmd="go test -vet=off -count=1 ./demo" ;; *) runcmd="go run ./demo" ;; esac
$runcmd > /tmp/sc_demo_with.$$ 2>&1; with=$?
git apply -R $dst/patch.diff
$runcmd > /tmp/sc_demo_without.$$ 2>&1; without=$?
git apply $dst/patch.diff
echo "demo with change: exit $with ; without: exit $without"
tail -3 /tmp/sc_demo_with.$$ | cut -c1-300
rm -rf demo
# existing tests of touched packages
pk=$(git diff --name-only | xargs -n1 dirname | sort -u | sed 's#^#./#')
go test -vet=off -count=1 $pk 2>&1 | grep -v "BroadcastIP\|must.go:38" | tail -4
cd /verif
for c in $checks; do
  VERIF_REPO=$WT VERIF_REPLAYS=/tmp/sc_replays.$$ ./check $c | grep -v "^KNOWN" | cut -c1-500 | head -8
  echo "check $c exit=${PIPESTATUS[0]}"
done
git -C /verif checkout -- evidence 2>/dev/null
rm -rf /tmp/sc_replays.$$ /tmp/sc_demo_with.$$ /tmp/sc_demo_without.$$
