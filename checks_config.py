# Per-property run configuration for ./check.  `checks` is the total -rapid.checks budget of a tier,
# divided over `shards` processes (for tests that call rapid.Check once per sub-configuration the
# per-shard value applies to each sub-configuration).
PROPS = {
    "C01": dict(pkg="./props/c01", level="exploration",
                quick=dict(shards=12, checks=1200, timeout=300),
                thorough=dict(shards=16, checks=960, timeout=1500)),
    "C03": dict(pkg="./props/c03", level="exploration",
                quick=dict(shards=12, checks=9600, timeout=300),
                thorough=dict(shards=16, checks=40000, timeout=1500)),
    "C04": dict(pkg="./props/c04", level="fault_enumeration",
                quick=dict(shards=16, checks=640, timeout=300),
                thorough=dict(shards=16, checks=16000, timeout=1800)),
    "C05": dict(pkg="./props/c05", level="exploration",
                quick=dict(shards=12, checks=3600, timeout=300),
                thorough=dict(shards=16, checks=64000, timeout=1800)),
    "C09": dict(pkg="./props/c09", level="exploration",
                quick=dict(shards=12, checks=1200, timeout=150),
                thorough=dict(shards=16, checks=16000, timeout=1800)),
    "C07": dict(pkg="./props/c07", level="exploration",
                quick=dict(shards=12, checks=2400, timeout=200),
                thorough=dict(shards=16, checks=64000, timeout=1800)),
}
