#!/bin/bash
# Sensitivity helper: ./mut.sh <Cnn> <file-in-repo> <python-old> <python-new>
# Applies a one-off textual mutation to /repo/<file>, runs the quick check, reverts.
prop=$1; file=$2; old=$3; new=$4
cd /repo || exit 2
if [ -n "$(git status --porcelain)" ]; then echo "repo dirty"; exit 2; fi
python3 - "$file" "$old" "$new" <<'EOF'
import sys
p,old,new=sys.argv[1:4]
s=open(p).read()
if old not in s:
    print("PATTERN NOT FOUND"); sys.exit(3)
open(p,'w').write(s.replace(old,new,1))
EOF
rc=$?
if [ $rc -ne 0 ]; then git checkout -- .; exit $rc; fi
git diff --stat | tail -1
export GOFLAGS=-mod=mod GOPROXY=off GOSUMDB=off GOTOOLCHAIN=local
if ! go build ./... ; then echo "MUTANT DOES NOT BUILD"; git checkout -- .; exit 3; fi
cd /verif
VERIF_REPLAYS=/tmp/mut_replays ./check "$prop" --tier ${TIER:-quick} | cut -c1-700
echo "check exit=${PIPESTATUS[0]}"
git -C /repo checkout -- .
git -C /verif checkout -- evidence 2>/dev/null
find /verif/replays -type f ! -name .gitkeep -delete
