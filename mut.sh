#!/bin/bash
# Sensitivity helper: ./mut.sh <Cnn> <file-in-repo> <old-text> <new-text>
# Applies a one-off textual mutation to a scratch worktree of /repo (never /repo itself),
# runs the check against it (VERIF_REPO), removes the worktree.
prop=$1; file=$2; old=$3; new=$4
WT=/tmp/mutwt.$$
git -C /repo worktree add -q --detach $WT HEAD || exit 2
cleanup() { git -C /repo worktree remove --force $WT 2>/dev/null; rm -rf /tmp/mut_replays.$$; }
trap cleanup EXIT
cd $WT || exit 2
python3 - "$file" "$old" "$new" <<'PY'
import sys
p,old,new=sys.argv[1:4]
s=open(p).read()
if old not in s:
    print("PATTERN NOT FOUND"); sys.exit(3)
open(p,'w').write(s.replace(old,new,1))
PY
rc=$?
[ $rc -ne 0 ] && exit $rc
git diff --stat | tail -1
export GOFLAGS=-mod=mod GOPROXY=off GOSUMDB=off GOTOOLCHAIN=local
if ! go build ./... ; then echo "MUTANT DOES NOT BUILD"; exit 3; fi
cd /verif
cp evidence/$prop.json /tmp/ev.$$.json 2>/dev/null
VERIF_REPO=$WT VERIF_REPLAYS=/tmp/mut_replays.$$ ./check "$prop" --tier ${TIER:-quick} | cut -c1-${CUT:-700}
echo "check exit=${PIPESTATUS[0]}"
[ -f /tmp/ev.$$.json ] && mv /tmp/ev.$$.json evidence/$prop.json
