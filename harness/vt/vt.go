// Package vt is a virtual mangos transport (scheme "vt://") that is completely
// scripted by the harness.  It uses only the public transport API
// (transport.RegisterTransport).  The harness plays the remote peer at the level
// of transport messages: it sees header||body of everything the socket under
// test transmits, per pipe and time-stamped, and injects arbitrary byte strings
// as received messages, with a barrier that tells it when the protocol's
// receiver goroutine has completely processed the injected message.
package vt

import (
	"fmt"
	"sync"
	"sync/atomic"
	"time"

	"go.nanomsg.org/mangos/v3"
	"go.nanomsg.org/mangos/v3/transport"
)

// Sent is one message the socket under test handed to a pipe's Send.
type Sent struct {
	Data   []byte // header || body, copied
	HdrLen int
	At     time.Time
	Seq    int64 // global order over all pipes
	Pipe   *Pipe
}

var globalSeq int64

// Send modes.
const (
	ModeAccept = iota
	ModeBlock
	ModeFail
)

// Pipe is the harness-side handle and at the same time the mangos.TranPipe.
type Pipe struct {
	Name string

	mu        sync.Mutex
	cv        *sync.Cond
	inj       chan []byte
	closedCh  chan struct{}
	closeOnce sync.Once
	closedAt  time.Time
	sent      []Sent
	mode      int
	failErr   error
	release   chan struct{}
	recvCalls int64
	blocked   int // number of Sends currently blocked
	opts      map[string]interface{}
}

// NewPipe makes an unattached pipe.
func NewPipe(name string) *Pipe {
	p := &Pipe{Name: name, inj: make(chan []byte), closedCh: make(chan struct{}), release: make(chan struct{}), opts: map[string]interface{}{}}
	p.cv = sync.NewCond(&p.mu)
	return p
}

// Send implements mangos.TranPipe.
func (p *Pipe) Send(m *mangos.Message) error {
	select {
	case <-p.closedCh:
		return mangos.ErrClosed
	default:
	}
	p.mu.Lock()
	mode := p.mode
	rel := p.release
	ferr := p.failErr
	if mode == ModeBlock {
		p.blocked++
		p.cv.Broadcast()
	}
	p.mu.Unlock()
	switch mode {
	case ModeFail:
		return ferr
	case ModeBlock:
		select {
		case <-rel:
		case <-p.closedCh:
			p.mu.Lock()
			p.blocked--
			p.mu.Unlock()
			return mangos.ErrClosed
		}
		p.mu.Lock()
		p.blocked--
		p.mu.Unlock()
	}
	d := make([]byte, 0, len(m.Header)+len(m.Body))
	d = append(d, m.Header...)
	d = append(d, m.Body...)
	s := Sent{Data: d, HdrLen: len(m.Header), At: time.Now(), Seq: atomic.AddInt64(&globalSeq, 1), Pipe: p}
	p.mu.Lock()
	p.sent = append(p.sent, s)
	p.cv.Broadcast()
	p.mu.Unlock()
	m.Free()
	return nil
}

// Recv implements mangos.TranPipe.
func (p *Pipe) Recv() (*mangos.Message, error) {
	p.mu.Lock()
	p.recvCalls++
	p.cv.Broadcast()
	p.mu.Unlock()
	select {
	case b := <-p.inj:
		m := mangos.NewMessage(len(b))
		m.Body = append(m.Body, b...)
		return m, nil
	case <-p.closedCh:
		return nil, mangos.ErrClosed
	}
}

// Close implements mangos.TranPipe (also used by the harness as "peer went away").
func (p *Pipe) Close() error {
	p.closeOnce.Do(func() {
		p.mu.Lock()
		p.closedAt = time.Now()
		p.mu.Unlock()
		close(p.closedCh)
		p.mu.Lock()
		p.cv.Broadcast()
		p.mu.Unlock()
	})
	return nil
}

// GetOption implements mangos.TranPipe.
func (p *Pipe) GetOption(n string) (interface{}, error) {
	p.mu.Lock()
	defer p.mu.Unlock()
	if v, ok := p.opts[n]; ok {
		return v, nil
	}
	return nil, mangos.ErrBadProperty
}

// SetOpt scripts a read-only pipe option.
func (p *Pipe) SetOpt(n string, v interface{}) { p.mu.Lock(); p.opts[n] = v; p.mu.Unlock() }

// IsClosed reports whether the pipe was closed (by either side).
func (p *Pipe) IsClosed() bool {
	select {
	case <-p.closedCh:
		return true
	default:
		return false
	}
}

// ClosedAt returns when the pipe was closed (zero if open).
func (p *Pipe) ClosedAt() time.Time { p.mu.Lock(); defer p.mu.Unlock(); return p.closedAt }

// WaitClosed waits for the pipe to be closed.
func (p *Pipe) WaitClosed(d time.Duration) bool {
	select {
	case <-p.closedCh:
		return true
	case <-time.After(d):
		return false
	}
}

// SetMode changes how Send behaves; leaving ModeBlock releases blocked senders.
func (p *Pipe) SetMode(mode int, err error) {
	p.mu.Lock()
	old := p.mode
	p.mode = mode
	p.failErr = err
	if old == ModeBlock && mode != ModeBlock {
		close(p.release)
		p.release = make(chan struct{})
	}
	p.mu.Unlock()
}

// Mode returns the current send mode.
func (p *Pipe) Mode() int { p.mu.Lock(); defer p.mu.Unlock(); return p.mode }

// Blocked returns the number of Send calls currently blocked in ModeBlock.
func (p *Pipe) Blocked() int { p.mu.Lock(); defer p.mu.Unlock(); return p.blocked }

// WaitBlocked waits until at least n Sends are blocked.
func (p *Pipe) WaitBlocked(n int, d time.Duration) bool {
	return p.waitCond(d, func() bool { return p.blocked >= n })
}

func (p *Pipe) waitCond(d time.Duration, f func() bool) bool {
	deadline := time.Now().Add(d)
	t := time.AfterFunc(d, func() { p.mu.Lock(); p.cv.Broadcast(); p.mu.Unlock() })
	defer t.Stop()
	p.mu.Lock()
	defer p.mu.Unlock()
	for !f() {
		if !time.Now().Before(deadline) {
			return false
		}
		p.cv.Wait()
	}
	return true
}

// SentCount returns the number of messages transmitted on this pipe.
func (p *Pipe) SentCount() int { p.mu.Lock(); defer p.mu.Unlock(); return len(p.sent) }

// SentLog returns a copy of the transmission log.
func (p *Pipe) SentLog() []Sent {
	p.mu.Lock()
	defer p.mu.Unlock()
	return append([]Sent(nil), p.sent...)
}

// WaitSent waits until at least n messages have been transmitted on this pipe.
func (p *Pipe) WaitSent(n int, d time.Duration) bool {
	return p.waitCond(d, func() bool { return len(p.sent) >= n })
}

// WaitReceiving waits until the protocol's receiver has called Recv at least once
// (i.e. the pipe is attached and being read).
func (p *Pipe) WaitReceiving(d time.Duration) bool {
	return p.waitCond(d, func() bool { return p.recvCalls > 0 })
}

// RecvCalls returns how often Recv was called.
func (p *Pipe) RecvCalls() int64 { p.mu.Lock(); defer p.mu.Unlock(); return p.recvCalls }

// Inject result.
const (
	InjProcessed = iota // receiver took the message and came back for the next one
	InjTaken            // receiver took it but has not come back (blocked downstream, e.g. full queue)
	InjNotTaken         // nobody is reading (timeout) or pipe closed
)

// Inject hands b to the protocol's receiver as one received message and waits
// (up to d) until the receiver calls Recv again, i.e. has fully processed it.
func (p *Pipe) Inject(b []byte, d time.Duration) int {
	cp := append([]byte(nil), b...)
	timer := time.NewTimer(d)
	defer timer.Stop()
	p.mu.Lock()
	before := p.recvCalls
	p.mu.Unlock()
	select {
	case p.inj <- cp:
	case <-p.closedCh:
		return InjNotTaken
	case <-timer.C:
		return InjNotTaken
	}
	// The receiver was inside Recv call number `before` (or a later one) when it took the message.
	if p.waitCond(d, func() bool { return p.recvCalls > before || p.isClosedLocked() }) {
		if p.IsClosed() && p.RecvCalls() <= before {
			return InjTaken
		}
		return InjProcessed
	}
	return InjTaken
}

// Handoff hands b to the receiver and returns as soon as it was taken (no barrier).
func (p *Pipe) Handoff(b []byte, d time.Duration) int {
	cp := append([]byte(nil), b...)
	timer := time.NewTimer(d)
	defer timer.Stop()
	select {
	case p.inj <- cp:
		return InjTaken
	case <-p.closedCh:
		return InjNotTaken
	case <-timer.C:
		return InjNotTaken
	}
}

func (p *Pipe) isClosedLocked() bool {
	select {
	case <-p.closedCh:
		return true
	default:
		return false
	}
}

// ---------------------------------------------------------------------------

// Attempt is one Dial invocation seen by the virtual transport.
type Attempt struct {
	N     int
	Start time.Time
	End   time.Time
	Err   error
	Pipe  *Pipe
}

// DialFunc decides the outcome of dial attempt n (0-based).  It may block.
type DialFunc func(n int) (*Pipe, error)

// Endpoint is the control block for one vt address.
type Endpoint struct {
	Addr string

	mu        sync.Mutex
	cv        *sync.Cond
	dialFn    DialFunc
	attempts  []Attempt
	acceptQ   chan acceptItem
	lclosed   chan struct{}
	lonce     sync.Once
	listened  bool
	listenErr error
	opts      map[string]interface{}
	pipeN     int
}

type acceptItem struct {
	p   *Pipe
	err error
}

var (
	regMu     sync.Mutex
	endpoints = map[string]*Endpoint{}
	addrSeq   int64
)

// New creates a control block with a fresh unique address.
func New() *Endpoint {
	n := atomic.AddInt64(&addrSeq, 1)
	e := &Endpoint{Addr: fmt.Sprintf("vt://e%d", n), acceptQ: make(chan acceptItem, 64), lclosed: make(chan struct{}), opts: map[string]interface{}{}}
	e.cv = sync.NewCond(&e.mu)
	regMu.Lock()
	endpoints[e.Addr] = e
	regMu.Unlock()
	return e
}

// Forget removes the endpoint from the registry.
func (e *Endpoint) Forget() {
	regMu.Lock()
	delete(endpoints, e.Addr)
	regMu.Unlock()
}

// SetDial installs the dial script.
func (e *Endpoint) SetDial(f DialFunc) { e.mu.Lock(); e.dialFn = f; e.mu.Unlock() }

// SetListenErr makes Listen fail with err (nil = succeed).
func (e *Endpoint) SetListenErr(err error) { e.mu.Lock(); e.listenErr = err; e.mu.Unlock() }

// NewPipe creates a pipe named after the endpoint.
func (e *Endpoint) NewPipe() *Pipe {
	e.mu.Lock()
	e.pipeN++
	n := e.pipeN
	e.mu.Unlock()
	return NewPipe(fmt.Sprintf("%s#%d", e.Addr[5:], n))
}

// Connect (listener side) pushes a new inbound pipe into Accept and returns it.
func (e *Endpoint) Connect() *Pipe {
	p := e.NewPipe()
	e.acceptQ <- acceptItem{p: p}
	return p
}

// ConnectPipe pushes an existing pipe into Accept.
func (e *Endpoint) ConnectPipe(p *Pipe) { e.acceptQ <- acceptItem{p: p} }

// AcceptErr makes the next Accept return err.
func (e *Endpoint) AcceptErr(err error) { e.acceptQ <- acceptItem{err: err} }

// Attempts returns a copy of the dial log.
func (e *Endpoint) Attempts() []Attempt {
	e.mu.Lock()
	defer e.mu.Unlock()
	return append([]Attempt(nil), e.attempts...)
}

// WaitAttempts waits until n dial attempts have *finished*.
func (e *Endpoint) WaitAttempts(n int, d time.Duration) bool {
	deadline := time.Now().Add(d)
	t := time.AfterFunc(d, func() { e.mu.Lock(); e.cv.Broadcast(); e.mu.Unlock() })
	defer t.Stop()
	e.mu.Lock()
	defer e.mu.Unlock()
	for {
		done := 0
		for _, a := range e.attempts {
			if !a.End.IsZero() {
				done++
			}
		}
		if done >= n {
			return true
		}
		if !time.Now().Before(deadline) {
			return false
		}
		e.cv.Wait()
	}
}

// WaitStarted waits until n dial attempts have *started*.
func (e *Endpoint) WaitStarted(n int, d time.Duration) bool {
	deadline := time.Now().Add(d)
	t := time.AfterFunc(d, func() { e.mu.Lock(); e.cv.Broadcast(); e.mu.Unlock() })
	defer t.Stop()
	e.mu.Lock()
	defer e.mu.Unlock()
	for len(e.attempts) < n {
		if !time.Now().Before(deadline) {
			return false
		}
		e.cv.Wait()
	}
	return true
}

type tranDialer struct{ e *Endpoint }

func (d *tranDialer) Dial() (mangos.TranPipe, error) {
	e := d.e
	e.mu.Lock()
	n := len(e.attempts)
	e.attempts = append(e.attempts, Attempt{N: n, Start: time.Now()})
	f := e.dialFn
	e.cv.Broadcast()
	e.mu.Unlock()
	var p *Pipe
	var err error
	if f == nil {
		err = mangos.ErrConnRefused
	} else {
		p, err = f(n)
	}
	e.mu.Lock()
	e.attempts[n].End = time.Now()
	e.attempts[n].Err = err
	e.attempts[n].Pipe = p
	e.cv.Broadcast()
	e.mu.Unlock()
	if err != nil {
		return nil, err
	}
	return p, nil
}

func (d *tranDialer) SetOption(n string, v interface{}) error { return d.e.setOption(n, v) }
func (d *tranDialer) GetOption(n string) (interface{}, error) { return d.e.getOption(n) }

func (e *Endpoint) setOption(n string, v interface{}) error {
	switch n {
	case mangos.OptionMaxRecvSize:
		if _, ok := v.(int); !ok {
			return mangos.ErrBadValue
		}
		e.mu.Lock()
		e.opts[n] = v
		e.mu.Unlock()
		return nil
	}
	return mangos.ErrBadOption
}

func (e *Endpoint) getOption(n string) (interface{}, error) {
	e.mu.Lock()
	defer e.mu.Unlock()
	if v, ok := e.opts[n]; ok {
		return v, nil
	}
	return nil, mangos.ErrBadOption
}

type tranListener struct{ e *Endpoint }

func (l *tranListener) Listen() error {
	e := l.e
	e.mu.Lock()
	defer e.mu.Unlock()
	if e.listenErr != nil {
		return e.listenErr
	}
	if e.listened {
		return mangos.ErrAddrInUse
	}
	e.listened = true
	return nil
}

func (l *tranListener) Accept() (mangos.TranPipe, error) {
	e := l.e
	e.mu.Lock()
	ok := e.listened
	e.mu.Unlock()
	if !ok {
		return nil, mangos.ErrClosed
	}
	select {
	case it := <-e.acceptQ:
		if it.err != nil {
			return nil, it.err
		}
		return it.p, nil
	case <-e.lclosed:
		return nil, mangos.ErrClosed
	}
}

func (l *tranListener) Close() error {
	l.e.lonce.Do(func() { close(l.e.lclosed) })
	return nil
}

// ListenerClosed reports whether the transport listener was closed.
func (e *Endpoint) ListenerClosed() bool {
	select {
	case <-e.lclosed:
		return true
	default:
		return false
	}
}

func (l *tranListener) SetOption(n string, v interface{}) error { return l.e.setOption(n, v) }
func (l *tranListener) GetOption(n string) (interface{}, error) { return l.e.getOption(n) }
func (l *tranListener) Address() string                         { return l.e.Addr }

type vtTran struct{}

func (vtTran) Scheme() string { return "vt" }

func lookup(addr string) (*Endpoint, error) {
	regMu.Lock()
	defer regMu.Unlock()
	e, ok := endpoints[addr]
	if !ok {
		return nil, mangos.ErrBadAddr
	}
	return e, nil
}

func (vtTran) NewDialer(addr string, _ mangos.Socket) (mangos.TranDialer, error) {
	e, err := lookup(addr)
	if err != nil {
		return nil, err
	}
	return &tranDialer{e}, nil
}

func (vtTran) NewListener(addr string, _ mangos.Socket) (mangos.TranListener, error) {
	e, err := lookup(addr)
	if err != nil {
		return nil, err
	}
	return &tranListener{e}, nil
}

func init() { transport.RegisterTransport(vtTran{}) }

// ---------------------------------------------------------------------------
// Convenience: attach n harness pipes to a socket through one vt listener.

// Attach makes sock listen on a fresh endpoint and returns it.
func Attach(sock mangos.Socket) (*Endpoint, error) {
	e := New()
	if err := sock.Listen(e.Addr); err != nil {
		return nil, err
	}
	return e, nil
}

// ConnectWait connects a new pipe and waits until the protocol is reading it.
func (e *Endpoint) ConnectWait(d time.Duration) (*Pipe, bool) {
	p := e.Connect()
	return p, p.WaitReceiving(d)
}
