// Package stats collects what a property run actually covered (evaluations,
// distinct non-trivial cases, per-class counters, samples) and the violations
// it found, and dumps them as JSON for the driver (/verif/check) to merge into
// /verif/evidence/<id>.json.  Nothing here decides a property.
package stats

import (
	"encoding/json"
	"flag"
	"fmt"
	"hash/fnv"
	"os"
	"path/filepath"
	"runtime"
	"sort"
	"strconv"
	"strings"
	"sync"
	"time"
)

// Violation is one oracle failure.  Key identifies the failing input class /
// call site / history shape and is what known_findings.json is matched against.
type Violation struct {
	Key    string `json:"key"`
	What   string `json:"what"`
	Replay string `json:"replay"`
}

// KnownHit records that a listed known finding was observed (or excluded).
type KnownHit struct {
	Key   string `json:"key"`
	Count int    `json:"count"`
}

type state struct {
	mu          sync.Mutex
	prop        string
	evals       int64
	nontriv     map[uint64]struct{}
	classes     map[string]int64
	samples     []interface{}
	sampleSeen  int64
	viol        []Violation
	known       map[string]string // key -> what (from known_findings.json)
	knownHits   map[string]int
	excluded    int64
	extra       map[string]interface{}
	rule        string
	assumptions []string
	frozen      bool // set after the first failure: shrinking re-runs are not counted
	start       time.Time
	exhaustive  bool
}

var st = &state{
	nontriv:   map[uint64]struct{}{},
	classes:   map[string]int64{},
	known:     map[string]string{},
	knownHits: map[string]int{},
	extra:     map[string]interface{}{},
	start:     time.Now(),
}

const maxSamples = 8

// Init names the property and loads the known findings for it.
func Init(prop string) {
	st.mu.Lock()
	defer st.mu.Unlock()
	st.prop = prop
	path := os.Getenv("VERIF_KNOWN")
	if path == "" {
		path = "/verif/known_findings.json"
	}
	b, err := os.ReadFile(path)
	if err != nil {
		return
	}
	var kf struct {
		Findings []struct {
			Property string `json:"property"`
			Key      string `json:"key"`
			What     string `json:"what"`
			Status   string `json:"status"`
		} `json:"findings"`
	}
	if json.Unmarshal(b, &kf) != nil {
		return
	}
	for _, f := range kf.Findings {
		if f.Property == prop && f.Status == "open" {
			st.known[f.Key] = f.What
		}
	}
}

// Prop returns the property id.
func Prop() string { return st.prop }

// Tier returns "quick" or "thorough".
func Tier() string {
	if t := os.Getenv("VERIF_TIER"); t == "thorough" {
		return t
	}
	return "quick"
}

// Thorough reports whether the thorough tier is running.
func Thorough() bool { return Tier() == "thorough" }

// Scale picks a count by tier.
func Scale(quick, thorough int) int {
	if Thorough() {
		return thorough
	}
	return quick
}

// Known reports whether key is a listed open finding; generators use it to stop
// producing that one shape (counted in "excluded_known").
func Known(key string) bool {
	st.mu.Lock()
	defer st.mu.Unlock()
	_, ok := st.known[key]
	return ok
}

// Excluded counts a case shape skipped because it is a listed known finding.
func Excluded(key string) {
	st.mu.Lock()
	st.excluded++
	st.knownHits[key]++
	st.mu.Unlock()
}

// Rule sets the text describing generation and the non-trivial rule.
func Rule(r string) { st.mu.Lock(); st.rule = r; st.mu.Unlock() }

// Assume records an assumption for the evidence file.
func Assume(a string) { st.mu.Lock(); st.assumptions = append(st.assumptions, a); st.mu.Unlock() }

// Exhaustive marks that a finite axis was enumerated completely.
func Exhaustive(b bool) { st.mu.Lock(); st.exhaustive = b; st.mu.Unlock() }

// Extra sets an additional coverage key.
func Extra(k string, v interface{}) { st.mu.Lock(); st.extra[k] = v; st.mu.Unlock() }

// AddExtra adds n to an integer coverage key.
func AddExtra(k string, n int64) {
	st.mu.Lock()
	cur, _ := st.extra[k].(int64)
	st.extra[k] = cur + n
	st.mu.Unlock()
}

// Eval counts one executed case.
func Eval() {
	st.mu.Lock()
	if !st.frozen {
		st.evals++
	}
	st.mu.Unlock()
}

// Class counts a case in a named class (distribution of the generator).
func Class(name string) {
	st.mu.Lock()
	if !st.frozen {
		st.classes[name]++
	}
	st.mu.Unlock()
}

// NonTrivial records the canonical text of a non-trivial case.
func NonTrivial(canon string) {
	h := fnv.New64a()
	_, _ = h.Write([]byte(canon))
	st.mu.Lock()
	if !st.frozen {
		st.nontriv[h.Sum64()] = struct{}{}
	}
	st.mu.Unlock()
}

// Sample offers a case for the sample list (reservoir of maxSamples, deterministic:
// keeps the first few and then every 2^k-th so late cases are represented too).
func Sample(v interface{}) {
	st.mu.Lock()
	defer st.mu.Unlock()
	if st.frozen {
		return
	}
	st.sampleSeen++
	if len(st.samples) < maxSamples {
		st.samples = append(st.samples, v)
		return
	}
	n := st.sampleSeen
	if n&(n-1) == 0 { // power of two
		st.samples[int(n%int64(maxSamples))] = v
	}
}

// Freeze stops counting (called on the first failure so that shrinking runs
// are not reported as evaluations).
func Freeze() { st.mu.Lock(); st.frozen = true; st.mu.Unlock() }

// ReplayDir is where replay files are written.
func ReplayDir() string {
	d := os.Getenv("VERIF_REPLAYS")
	if d == "" {
		d = "/verif/replays"
	}
	_ = os.MkdirAll(d, 0o755)
	return d
}

// WriteReplay stores a replay document and returns its path.
func WriteReplay(key string, doc interface{}) string {
	h := fnv.New32a()
	b, _ := json.MarshalIndent(doc, "", " ")
	_, _ = h.Write([]byte(key))
	_, _ = h.Write(b)
	name := fmt.Sprintf("%s-%08x.json", st.prop, h.Sum32())
	p := filepath.Join(ReplayDir(), name)
	_ = os.WriteFile(p, b, 0o644)
	return p
}

// Violate records a violation.  If key is a listed known finding it is counted
// as a known hit instead and false is returned (caller continues).
func Violate(key, what string, replayDoc interface{}) bool {
	st.mu.Lock()
	if _, ok := st.known[key]; ok {
		st.knownHits[key]++
		st.mu.Unlock()
		return false
	}
	st.mu.Unlock()
	doc := map[string]interface{}{"property": st.prop, "key": key, "what": what, "case": replayDoc}
	p := WriteReplay(key, doc)
	st.mu.Lock()
	// keep the latest record per key (after shrinking this is the minimal case)
	found := false
	for i := range st.viol {
		if st.viol[i].Key == key {
			st.viol[i] = Violation{key, what, p}
			found = true
		}
	}
	if !found {
		st.viol = append(st.viol, Violation{key, what, p})
	}
	st.frozen = true
	st.mu.Unlock()
	// Persist at once: if the process later dies (test timeout while shrinking, crash) the
	// driver still sees the violation.
	if outp := os.Getenv("VERIF_OUT"); outp != "" {
		if f, err := os.OpenFile(outp+".viol", os.O_APPEND|os.O_CREATE|os.O_WRONLY, 0o644); err == nil {
			b, _ := json.Marshal(Violation{key, what, p})
			_, _ = f.Write(append(b, '\n'))
			_ = f.Close()
		}
	}
	fmt.Fprintf(os.Stderr, "VERIF-VIOLATION key=%s what=%s replay=%s\n", key, oneLine(what), p)
	return true
}

func oneLine(s string) string {
	s = strings.ReplaceAll(s, "\n", " | ")
	if len(s) > 600 {
		s = s[:600] + "…"
	}
	return s
}

// TB is the subset of testing.TB / rapid.T we need.
type TB interface {
	Fatalf(format string, args ...interface{})
}

// Fail records a violation and fails the test (rapid then shrinks; each shrink
// re-records, the last record wins).
func Fail(t TB, key string, replayDoc interface{}, format string, args ...interface{}) {
	what := fmt.Sprintf(format, args...)
	if Violate(key, what, replayDoc) {
		t.Fatalf("VIOLATION %s: %s", key, what)
	}
}

// Stacks returns all goroutine stacks.
func Stacks() string {
	buf := make([]byte, 1<<22)
	n := runtime.Stack(buf, true)
	return string(buf[:n])
}

type out struct {
	Property    string                 `json:"property"`
	Evaluations int64                  `json:"evaluations"`
	NonTrivial  []uint64               `json:"nontrivial_hashes"`
	Classes     map[string]int64       `json:"classes"`
	Samples     []interface{}          `json:"samples"`
	Violations  []Violation            `json:"violations"`
	KnownHits   []KnownHit             `json:"known_hits"`
	Excluded    int64                  `json:"excluded_known"`
	Extra       map[string]interface{} `json:"extra"`
	Rule        string                 `json:"rule"`
	Assumptions []string               `json:"assumptions"`
	Exhaustive  bool                   `json:"exhaustive"`
	WallS       float64                `json:"wall_s"`
}

// Flush writes the shard result to $VERIF_OUT (if set).
func Flush() {
	st.mu.Lock()
	defer st.mu.Unlock()
	o := out{
		Property: st.prop, Evaluations: st.evals, Classes: st.classes, Samples: st.samples,
		Violations: st.viol, Excluded: st.excluded, Extra: st.extra, Rule: st.rule,
		Assumptions: st.assumptions, Exhaustive: st.exhaustive, WallS: time.Since(st.start).Seconds(),
	}
	for h := range st.nontriv {
		o.NonTrivial = append(o.NonTrivial, h)
	}
	sort.Slice(o.NonTrivial, func(i, j int) bool { return o.NonTrivial[i] < o.NonTrivial[j] })
	for k, c := range st.knownHits {
		o.KnownHits = append(o.KnownHits, KnownHit{k, c})
	}
	sort.Slice(o.KnownHits, func(i, j int) bool { return o.KnownHits[i].Key < o.KnownHits[j].Key })
	p := os.Getenv("VERIF_OUT")
	if p == "" {
		return
	}
	b, _ := json.Marshal(o)
	_ = os.WriteFile(p, b, 0o644)
}

// ScaledChecks runs fn with the -rapid.checks flag divided by div (at least min), for
// properties whose single case costs real time.  The flag is restored afterwards.
func ScaledChecks(div, min int, fn func()) {
	f := flag.Lookup("rapid.checks")
	if f == nil {
		fn()
		return
	}
	old := f.Value.String()
	n, err := strconv.Atoi(old)
	if err != nil || n <= 0 {
		fn()
		return
	}
	n /= div
	if n < min {
		n = min
	}
	_ = flag.Set("rapid.checks", strconv.Itoa(n))
	defer func() { _ = flag.Set("rapid.checks", old) }()
	fn()
}
