package wire

// Minimal RFC 6455 endpoint (client and server) over an established net.Conn.
// No extensions, no compression.  Control frames: pings are answered, a close
// frame ends the stream (io.EOF).  Fragmentation is reported, not hidden:
// ReadFrame returns single frames, ReadMessage reassembles and counts them.

import (
	"bufio"
	"crypto/rand"
	"crypto/sha1"
	"encoding/base64"
	"errors"
	"fmt"
	"io"
	"net"
	"strings"
	"sync"
)

const wsGUID = "258EAFA5-E914-47DA-95CA-C5AB0DC85B11"

// WebSocket opcodes.
const (
	OpCont   = 0x0
	OpText   = 0x1
	OpBinary = 0x2
	OpClose  = 0x8
	OpPing   = 0x9
	OpPong   = 0xA
)

// StatusError is returned by WSDial when the server does not switch protocols.
type StatusError struct {
	Code int
	Line string
}

func (e *StatusError) Error() string { return "wire: websocket upgrade refused: " + e.Line }

// ErrRefused is wrapped by the error WSAccept returns after it answered a
// request with an HTTP error status (as opposed to an I/O failure).
var ErrRefused = errors.New("wire: refused websocket request")

// WSConn is one side of a WebSocket connection.
type WSConn struct {
	Path   string              // request target (server side: as received)
	Header map[string][]string // peer's HTTP header fields, lower-case names
	// Mask supplies client masking keys; nil means crypto/rand.
	Mask     func() [4]byte
	MaxFrame uint64 // largest accepted frame payload (default 64 MiB)

	c      net.Conn
	br     *bufio.Reader
	client bool
	wmu    sync.Mutex
}

func acceptKey(key string) string {
	h := sha1.Sum([]byte(key + wsGUID))
	return base64.StdEncoding.EncodeToString(h[:])
}

// readHead reads the start line and the header fields of an HTTP/1.1 message.
func readHead(br *bufio.Reader) (start string, hdr map[string][]string, err error) {
	hdr = map[string][]string{}
	total := 0
	for first := true; ; first = false {
		line, e := br.ReadString('\n')
		if e != nil {
			return "", nil, e
		}
		if total += len(line); total > 1<<16 {
			return "", nil, errors.New("wire: HTTP head too large")
		}
		line = strings.TrimRight(line, "\r\n")
		if first {
			start = line
			continue
		}
		if line == "" {
			return start, hdr, nil
		}
		i := strings.IndexByte(line, ':')
		if i <= 0 {
			return "", nil, fmt.Errorf("wire: malformed header line %q", line)
		}
		k := strings.ToLower(strings.TrimSpace(line[:i]))
		hdr[k] = append(hdr[k], strings.TrimSpace(line[i+1:]))
	}
}

// tokens splits all values of a comma separated list header.
func tokens(vals []string) []string {
	var out []string
	for _, v := range vals {
		for _, t := range strings.Split(v, ",") {
			if t = strings.TrimSpace(t); t != "" {
				out = append(out, t)
			}
		}
	}
	return out
}

func hasToken(vals []string, want string) bool {
	for _, t := range tokens(vals) {
		if strings.EqualFold(t, want) {
			return true
		}
	}
	return false
}

// WSDial performs the client side of the opening handshake on conn, offering
// subprotocols (in order), and verifies the server's answer: status 101,
// Upgrade/Connection fields, Sec-WebSocket-Accept, and that the selected
// subprotocol (returned) is one that was offered.
func WSDial(conn net.Conn, host, path string, subprotocols []string) (*WSConn, string, error) {
	var nonce [16]byte
	if _, err := rand.Read(nonce[:]); err != nil {
		return nil, "", err
	}
	key := base64.StdEncoding.EncodeToString(nonce[:])
	req := "GET " + path + " HTTP/1.1\r\nHost: " + host + "\r\nUpgrade: websocket\r\nConnection: Upgrade\r\n" +
		"Sec-WebSocket-Key: " + key + "\r\nSec-WebSocket-Version: 13\r\n"
	if len(subprotocols) > 0 {
		req += "Sec-WebSocket-Protocol: " + strings.Join(subprotocols, ", ") + "\r\n"
	}
	if _, err := conn.Write([]byte(req + "\r\n")); err != nil {
		return nil, "", err
	}
	br := bufio.NewReader(conn)
	status, hdr, err := readHead(br)
	if err != nil {
		return nil, "", err
	}
	f := strings.Fields(status)
	if len(f) < 2 || !strings.HasPrefix(f[0], "HTTP/1.") {
		return nil, "", fmt.Errorf("wire: bad status line %q", status)
	}
	if f[1] != "101" {
		code := 0
		_, _ = fmt.Sscanf(f[1], "%d", &code)
		return nil, "", &StatusError{Code: code, Line: status}
	}
	if !hasToken(hdr["upgrade"], "websocket") || !hasToken(hdr["connection"], "upgrade") {
		return nil, "", errors.New("wire: 101 response without Upgrade: websocket / Connection: Upgrade")
	}
	if a := hdr["sec-websocket-accept"]; len(a) != 1 || a[0] != acceptKey(key) {
		return nil, "", fmt.Errorf("wire: bad Sec-WebSocket-Accept %q", a)
	}
	if len(hdr["sec-websocket-extensions"]) != 0 {
		return nil, "", errors.New("wire: server selected an extension that was not offered")
	}
	sel := ""
	if p := tokens(hdr["sec-websocket-protocol"]); len(p) > 1 {
		return nil, "", fmt.Errorf("wire: server selected several subprotocols %q", p)
	} else if len(p) == 1 {
		sel = p[0]
		offered := false
		for _, s := range subprotocols {
			offered = offered || s == sel
		}
		if !offered {
			return nil, sel, fmt.Errorf("wire: server selected subprotocol %q that was not offered", sel)
		}
	}
	return &WSConn{Path: path, Header: hdr, c: conn, br: br, client: true}, sel, nil
}

// WSAccept performs the server side of the opening handshake.  choose gets the
// offered subprotocols and returns the one to select ("" for none) or false to
// refuse the request with 400.  offered is returned whenever the request could
// be parsed, also on refusal.
func WSAccept(conn net.Conn, choose func(offered []string) (string, bool)) (*WSConn, []string, error) {
	br := bufio.NewReader(conn)
	start, hdr, err := readHead(br)
	if err != nil {
		return nil, nil, err
	}
	refuse := func(code int, why string) error {
		msg := fmt.Sprintf("HTTP/1.1 %d %s\r\nConnection: close\r\nContent-Length: 0\r\n\r\n", code, why)
		_, _ = conn.Write([]byte(msg))
		return fmt.Errorf("%w: %s", ErrRefused, why)
	}
	f := strings.Fields(start)
	if len(f) != 3 || f[0] != "GET" || !strings.HasPrefix(f[2], "HTTP/1.") {
		return nil, nil, refuse(400, "bad request line")
	}
	offered := tokens(hdr["sec-websocket-protocol"])
	key := hdr["sec-websocket-key"]
	var raw []byte
	if len(key) == 1 {
		raw, _ = base64.StdEncoding.DecodeString(key[0])
	}
	switch {
	case !hasToken(hdr["upgrade"], "websocket") || !hasToken(hdr["connection"], "upgrade"):
		return nil, offered, refuse(400, "not a websocket upgrade")
	case len(hdr["host"]) != 1:
		return nil, offered, refuse(400, "missing Host")
	case len(raw) != 16:
		return nil, offered, refuse(400, "bad Sec-WebSocket-Key")
	case len(hdr["sec-websocket-version"]) != 1 || hdr["sec-websocket-version"][0] != "13":
		return nil, offered, refuse(426, "unsupported version")
	}
	sel, ok := choose(offered)
	if !ok {
		return nil, offered, refuse(400, "subprotocol mismatch")
	}
	resp := "HTTP/1.1 101 Switching Protocols\r\nUpgrade: websocket\r\nConnection: Upgrade\r\n" +
		"Sec-WebSocket-Accept: " + acceptKey(key[0]) + "\r\n"
	if sel != "" {
		resp += "Sec-WebSocket-Protocol: " + sel + "\r\n"
	}
	if _, err := conn.Write([]byte(resp + "\r\n")); err != nil {
		return nil, offered, err
	}
	return &WSConn{Path: f[1], Header: hdr, c: conn, br: br}, offered, nil
}

// WriteFrame writes one frame; client frames are masked, server frames are not.
func (w *WSConn) WriteFrame(fin bool, opcode byte, payload []byte) error {
	n := len(payload)
	buf := make([]byte, 0, 14+n)
	b0 := opcode & 0x0f
	if fin {
		b0 |= 0x80
	}
	var mbit byte
	if w.client {
		mbit = 0x80
	}
	switch {
	case n <= 125:
		buf = append(buf, b0, mbit|byte(n))
	case n <= 0xffff:
		buf = append(buf, b0, mbit|126, byte(n>>8), byte(n))
	default:
		buf = append(buf, b0, mbit|127)
		for s := 56; s >= 0; s -= 8 {
			buf = append(buf, byte(uint64(n)>>uint(s)))
		}
	}
	if w.client {
		var k [4]byte
		if w.Mask != nil {
			k = w.Mask()
		} else if _, err := rand.Read(k[:]); err != nil {
			return err
		}
		buf = append(buf, k[:]...)
		at := len(buf)
		buf = append(buf, payload...)
		for i := range buf[at:] {
			buf[at+i] ^= k[i&3]
		}
	} else {
		buf = append(buf, payload...)
	}
	w.wmu.Lock()
	defer w.wmu.Unlock()
	_, err := w.c.Write(buf)
	return err
}

// WriteBinary sends payload as one unfragmented binary message.
func (w *WSConn) WriteBinary(payload []byte) error { return w.WriteFrame(true, OpBinary, payload) }

// ReadFrame reads the next frame and returns it as is (continuation, ping and
// pong frames included; pings are answered first).  A close frame is echoed
// and reported as io.EOF.  Protocol violations (reserved bits, wrong masking
// for the peer's role, non-minimal or oversized lengths, fragmented or long
// control frames) are errors.
func (w *WSConn) ReadFrame() (fin bool, opcode byte, payload []byte, err error) {
	var h [2]byte
	if _, err = io.ReadFull(w.br, h[:]); err != nil {
		return
	}
	fin, opcode = h[0]&0x80 != 0, h[0]&0x0f
	if h[0]&0x70 != 0 {
		return fin, opcode, nil, fmt.Errorf("wire: reserved bits set in frame header 0x%02x", h[0])
	}
	masked := h[1]&0x80 != 0
	if masked == w.client {
		return fin, opcode, nil, fmt.Errorf("wire: frame masked=%v received by client=%v", masked, w.client)
	}
	n := uint64(h[1] & 0x7f)
	if ext := map[uint64]int{126: 2, 127: 8}[n]; ext != 0 {
		var e [8]byte
		if _, err = io.ReadFull(w.br, e[:ext]); err != nil {
			return
		}
		n = 0
		for _, c := range e[:ext] {
			n = n<<8 | uint64(c)
		}
		if (ext == 2 && n < 126) || (ext == 8 && (n <= 0xffff || n>>63 != 0)) {
			return fin, opcode, nil, fmt.Errorf("wire: non-minimal or invalid %d byte length %d", ext, n)
		}
	}
	max := w.MaxFrame
	if max == 0 {
		max = 64 << 20
	}
	if n > max {
		return fin, opcode, nil, fmt.Errorf("wire: frame of %d bytes exceeds limit", n)
	}
	if opcode >= 8 && (!fin || n > 125) {
		return fin, opcode, nil, fmt.Errorf("wire: bad control frame fin=%v len=%d", fin, n)
	}
	var key [4]byte
	if masked {
		if _, err = io.ReadFull(w.br, key[:]); err != nil {
			return
		}
	}
	payload = make([]byte, int(n))
	if _, err = io.ReadFull(w.br, payload); err != nil {
		return fin, opcode, nil, err
	}
	if masked {
		for i := range payload {
			payload[i] ^= key[i&3]
		}
	}
	switch opcode {
	case OpPing:
		_ = w.WriteFrame(true, OpPong, payload)
	case OpClose:
		_ = w.WriteFrame(true, OpClose, payload)
		return fin, opcode, payload, io.EOF
	}
	return fin, opcode, payload, nil
}

// ReadMessage reads one data message, reassembling fragments; frames is the
// number of data frames it was made of (1 = unfragmented).
func (w *WSConn) ReadMessage() (opcode byte, payload []byte, frames int, err error) {
	for {
		fin, op, p, e := w.ReadFrame()
		if e != nil {
			return opcode, nil, frames, e
		}
		if op >= 8 {
			continue
		}
		if (frames == 0) == (op == OpCont) {
			return op, nil, frames, fmt.Errorf("wire: unexpected opcode %d after %d fragments", op, frames)
		}
		if frames == 0 {
			opcode = op
		}
		frames++
		payload = append(payload, p...)
		if fin {
			return opcode, payload, frames, nil
		}
	}
}

// Close sends a close frame (best effort) and closes the connection.
func (w *WSConn) Close() error {
	_ = w.WriteFrame(true, OpClose, []byte{0x03, 0xe8})
	return w.c.Close()
}

// Conn returns the underlying connection (for deadlines).
func (w *WSConn) Conn() net.Conn { return w.c }
