// Package wire is an independent implementation of the SP wire mappings used by
// the property checks as "the other end" of a mangos connection:
//
//   - SP over TCP / TLS / IPC (sp-tcp-mapping-01, sp-tls-mapping-01,
//     sp-ipc-mapping-01): an 8 byte connection header
//     00 'S' 'P' 00 <protocol, 16 bit big-endian> 00 00, then messages as a
//     64 bit big-endian length followed by that many bytes; on IPC every
//     message is preceded by one byte 0x01.
//   - SP over WebSocket (sp-websocket-mapping-01) on top of a minimal RFC 6455
//     client and server (see ws.go).
//
// It is written from the RFC texts and deliberately shares no code with
// mangos/transport or gorilla/websocket.
package wire

import (
	"errors"
	"fmt"
	"io"
)

// Errors returned by the stream codec.
var (
	ErrBadPrefix = errors.New("wire: IPC message does not start with 0x01")
	ErrTooLong   = errors.New("wire: announced message length exceeds the limit")
)

// Header returns the connection header a peer speaking protocol proto sends.
func Header(proto uint16) [8]byte {
	return [8]byte{0x00, 'S', 'P', 0x00, byte(proto >> 8), byte(proto & 0xff), 0x00, 0x00}
}

// ParseHeader decodes a connection header.  ok is false unless b is exactly 8
// bytes: zero, 'S', 'P', version 0, protocol, two reserved zero bytes.
func ParseHeader(b []byte) (proto uint16, ok bool) {
	if len(b) != 8 {
		return 0, false
	}
	if b[0] != 0 || b[1] != 'S' || b[2] != 'P' || b[3] != 0 || b[6] != 0 || b[7] != 0 {
		return 0, false
	}
	return uint16(b[4])<<8 | uint16(b[5]), true
}

// WriteFrame writes one message (protocol header and body already concatenated
// in payload) with a single Write call.
func WriteFrame(w io.Writer, payload []byte, ipc bool) error {
	buf := make([]byte, 0, 9+len(payload))
	if ipc {
		buf = append(buf, 0x01)
	}
	n := uint64(len(payload))
	for shift := 56; shift >= 0; shift -= 8 {
		buf = append(buf, byte(n>>uint(shift)))
	}
	buf = append(buf, payload...)
	_, err := w.Write(buf)
	return err
}

// ReadFrame reads one message.  max > 0 bounds the accepted length (otherwise
// 1 GiB, so a hostile prefix cannot exhaust memory).  A clean
// end of stream before the first byte yields io.EOF, a truncated message
// io.ErrUnexpectedEOF.
func ReadFrame(r io.Reader, ipc bool, max int) ([]byte, error) {
	var pre [9]byte
	p := pre[1:]
	if ipc {
		p = pre[:]
	}
	if _, err := io.ReadFull(r, p); err != nil {
		return nil, err
	}
	if ipc && pre[0] != 0x01 {
		return nil, fmt.Errorf("%w (got 0x%02x)", ErrBadPrefix, pre[0])
	}
	var n uint64
	for _, c := range pre[1:] {
		n = n<<8 | uint64(c)
	}
	if max <= 0 {
		max = 1 << 30
	}
	if n>>63 != 0 || (max > 0 && n > uint64(max)) {
		return nil, fmt.Errorf("%w: %d", ErrTooLong, n)
	}
	body := make([]byte, int(n))
	if _, err := io.ReadFull(r, body); err != nil {
		if err == io.EOF {
			err = io.ErrUnexpectedEOF
		}
		return nil, err
	}
	return body, nil
}
