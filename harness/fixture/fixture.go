// Package fixture builds sockets of every pattern over every transport for the
// property checks, plus the small utilities they share (watchdog, goroutine
// census, TLS material, deterministic payloads).
package fixture

import (
	"crypto/ecdsa"
	"crypto/elliptic"
	"crypto/rand"
	"crypto/tls"
	"crypto/x509"
	"crypto/x509/pkix"
	"fmt"
	"math/big"
	"net"
	"os"
	"path/filepath"
	"runtime"
	"strconv"
	"strings"
	"sync"
	"sync/atomic"
	"time"

	"go.nanomsg.org/mangos/v3"
	"go.nanomsg.org/mangos/v3/protocol/bus"
	"go.nanomsg.org/mangos/v3/protocol/pair"
	"go.nanomsg.org/mangos/v3/protocol/pair1"
	"go.nanomsg.org/mangos/v3/protocol/pub"
	"go.nanomsg.org/mangos/v3/protocol/pull"
	"go.nanomsg.org/mangos/v3/protocol/push"
	"go.nanomsg.org/mangos/v3/protocol/rep"
	"go.nanomsg.org/mangos/v3/protocol/req"
	"go.nanomsg.org/mangos/v3/protocol/respondent"
	"go.nanomsg.org/mangos/v3/protocol/star"
	"go.nanomsg.org/mangos/v3/protocol/sub"
	"go.nanomsg.org/mangos/v3/protocol/surveyor"
	"go.nanomsg.org/mangos/v3/protocol/xbus"
	"go.nanomsg.org/mangos/v3/protocol/xpair"
	"go.nanomsg.org/mangos/v3/protocol/xpair1"
	"go.nanomsg.org/mangos/v3/protocol/xpub"
	"go.nanomsg.org/mangos/v3/protocol/xpull"
	"go.nanomsg.org/mangos/v3/protocol/xpush"
	"go.nanomsg.org/mangos/v3/protocol/xrep"
	"go.nanomsg.org/mangos/v3/protocol/xreq"
	"go.nanomsg.org/mangos/v3/protocol/xrespondent"
	"go.nanomsg.org/mangos/v3/protocol/xstar"
	"go.nanomsg.org/mangos/v3/protocol/xsub"
	"go.nanomsg.org/mangos/v3/protocol/xsurveyor"
	_ "go.nanomsg.org/mangos/v3/transport/all"
)

// Ctor makes a socket.
type Ctor func() (mangos.Socket, error)

// Proto describes one socket constructor.
type Proto struct {
	Name     string
	New      Ctor
	Raw      bool
	Self     uint16
	Peer     uint16
	PeerName string // name of the constructor of a natural peer (same rawness)
	CanSend  bool
	CanRecv  bool
	Contexts bool
}

// Protos lists all 24 constructors.
var Protos = []Proto{
	{"pair", pair.NewSocket, false, mangos.ProtoPair, mangos.ProtoPair, "pair", true, true, false},
	{"xpair", xpair.NewSocket, true, mangos.ProtoPair, mangos.ProtoPair, "xpair", true, true, false},
	{"pair1", pair1.NewSocket, false, mangos.ProtoPair1, mangos.ProtoPair1, "pair1", true, true, false},
	{"xpair1", xpair1.NewSocket, true, mangos.ProtoPair1, mangos.ProtoPair1, "xpair1", true, true, false},
	{"pub", pub.NewSocket, false, mangos.ProtoPub, mangos.ProtoSub, "sub", true, false, false},
	{"xpub", xpub.NewSocket, true, mangos.ProtoPub, mangos.ProtoSub, "xsub", true, false, false},
	{"sub", sub.NewSocket, false, mangos.ProtoSub, mangos.ProtoPub, "pub", false, true, true},
	{"xsub", xsub.NewSocket, true, mangos.ProtoSub, mangos.ProtoPub, "xpub", false, true, false},
	{"req", req.NewSocket, false, mangos.ProtoReq, mangos.ProtoRep, "rep", true, true, true},
	{"xreq", xreq.NewSocket, true, mangos.ProtoReq, mangos.ProtoRep, "xrep", true, true, false},
	{"rep", rep.NewSocket, false, mangos.ProtoRep, mangos.ProtoReq, "req", true, true, true},
	{"xrep", xrep.NewSocket, true, mangos.ProtoRep, mangos.ProtoReq, "xreq", true, true, false},
	{"push", push.NewSocket, false, mangos.ProtoPush, mangos.ProtoPull, "pull", true, false, false},
	{"xpush", xpush.NewSocket, true, mangos.ProtoPush, mangos.ProtoPull, "xpull", true, false, false},
	{"pull", pull.NewSocket, false, mangos.ProtoPull, mangos.ProtoPush, "push", false, true, false},
	{"xpull", xpull.NewSocket, true, mangos.ProtoPull, mangos.ProtoPush, "xpush", false, true, false},
	{"surveyor", surveyor.NewSocket, false, mangos.ProtoSurveyor, mangos.ProtoRespondent, "respondent", true, true, true},
	{"xsurveyor", xsurveyor.NewSocket, true, mangos.ProtoSurveyor, mangos.ProtoRespondent, "xrespondent", true, true, false},
	{"respondent", respondent.NewSocket, false, mangos.ProtoRespondent, mangos.ProtoSurveyor, "surveyor", true, true, true},
	{"xrespondent", xrespondent.NewSocket, true, mangos.ProtoRespondent, mangos.ProtoSurveyor, "xsurveyor", true, true, false},
	{"bus", bus.NewSocket, false, mangos.ProtoBus, mangos.ProtoBus, "bus", true, true, false},
	{"xbus", xbus.NewSocket, true, mangos.ProtoBus, mangos.ProtoBus, "xbus", true, true, false},
	{"star", star.NewSocket, false, mangos.ProtoStar, mangos.ProtoStar, "star", true, true, false},
	{"xstar", xstar.NewSocket, true, mangos.ProtoStar, mangos.ProtoStar, "xstar", true, true, false},
}

// ByName finds a constructor.
func ByName(n string) Proto {
	for _, p := range Protos {
		if p.Name == n {
			return p
		}
	}
	panic("unknown proto " + n)
}

// New makes a socket by name and panics on error (constructors never fail).
func New(n string) mangos.Socket {
	s, err := ByName(n).New()
	if err != nil {
		panic(err)
	}
	return s
}

// Transports lists the six real transports.
var Transports = []string{"inproc", "ipc", "tcp", "tls+tcp", "ws", "wss"}

var (
	addrSeq  uint32
	portBase uint32
	scratch  string
	initOnce sync.Once
)

func initAddrs() {
	initOnce.Do(func() {
		// Each process gets its own port window; Listen retries on conflicts anyway.
		portBase = uint32(15000 + (os.Getpid()*97)%40000)
		scratch = os.Getenv("VERIF_SCRATCH")
		if scratch == "" || len(scratch) > 60 {
			// unix socket paths are limited to ~104 bytes
			d, err := os.MkdirTemp("", "vf")
			if err == nil {
				scratch = d
			} else {
				scratch = os.TempDir()
			}
		}
	})
}

// ScratchDir returns a per-process scratch directory (short path, for unix sockets).
func ScratchDir() string { initAddrs(); return scratch }

// Cleanup removes the scratch directory if it was created under the temp dir.
func Cleanup() {
	initAddrs()
	if strings.HasPrefix(scratch, os.TempDir()) && scratch != os.TempDir() {
		_ = os.RemoveAll(scratch)
	}
}

func freePort() int {
	initAddrs()
	for i := 0; i < 200; i++ {
		p := int(15000 + (portBase-15000+atomic.AddUint32(&addrSeq, 1))%45000)
		l, err := net.Listen("tcp", fmt.Sprintf("127.0.0.1:%d", p))
		if err == nil {
			_ = l.Close()
			return p
		}
	}
	return 0
}

// Addr returns a fresh address for the transport.
func Addr(tr string) string {
	initAddrs()
	n := atomic.AddUint32(&addrSeq, 1)
	switch tr {
	case "inproc":
		return fmt.Sprintf("inproc://vf_%d_%d", os.Getpid(), n)
	case "ipc":
		return "ipc://" + filepath.Join(scratch, fmt.Sprintf("s%d", n))
	case "tcp":
		return fmt.Sprintf("tcp://127.0.0.1:%d", freePort())
	case "tls+tcp":
		return fmt.Sprintf("tls+tcp://127.0.0.1:%d", freePort())
	case "ws":
		return fmt.Sprintf("ws://127.0.0.1:%d/sp", freePort())
	case "wss":
		return fmt.Sprintf("wss://127.0.0.1:%d/sp", freePort())
	}
	panic("unknown transport " + tr)
}

var (
	tlsOnce   sync.Once
	tlsServer *tls.Config
	tlsClient *tls.Config
)

func genTLS() {
	key, err := ecdsa.GenerateKey(elliptic.P256(), rand.Reader)
	if err != nil {
		panic(err)
	}
	tmpl := &x509.Certificate{
		SerialNumber: big.NewInt(1), Subject: pkix.Name{CommonName: "127.0.0.1"},
		NotBefore: time.Now().Add(-time.Hour), NotAfter: time.Now().Add(24 * time.Hour),
		KeyUsage: x509.KeyUsageDigitalSignature | x509.KeyUsageCertSign, IsCA: true, BasicConstraintsValid: true,
		ExtKeyUsage: []x509.ExtKeyUsage{x509.ExtKeyUsageServerAuth, x509.ExtKeyUsageClientAuth},
		IPAddresses: []net.IP{net.ParseIP("127.0.0.1")}, DNSNames: []string{"localhost"},
	}
	der, err := x509.CreateCertificate(rand.Reader, tmpl, tmpl, &key.PublicKey, key)
	if err != nil {
		panic(err)
	}
	cert := tls.Certificate{Certificate: [][]byte{der}, PrivateKey: key}
	pool := x509.NewCertPool()
	c, _ := x509.ParseCertificate(der)
	pool.AddCert(c)
	tlsServer = &tls.Config{Certificates: []tls.Certificate{cert}, MinVersion: tls.VersionTLS12}
	tlsClient = &tls.Config{RootCAs: pool, ServerName: "127.0.0.1", MinVersion: tls.VersionTLS12}
}

// TLSServer returns the server TLS config (generated once per process).
func TLSServer() *tls.Config { tlsOnce.Do(genTLS); return tlsServer }

// TLSClient returns a client TLS config trusting TLSServer's certificate.
func TLSClient() *tls.Config { tlsOnce.Do(genTLS); return tlsClient }

// ListenOpts returns the listener options the transport needs.
func ListenOpts(tr string) map[string]interface{} {
	if tr == "tls+tcp" || tr == "wss" {
		return map[string]interface{}{mangos.OptionTLSConfig: TLSServer()}
	}
	return nil
}

// DialOpts returns the dialer options the transport needs.
func DialOpts(tr string) map[string]interface{} {
	if tr == "tls+tcp" || tr == "wss" {
		return map[string]interface{}{mangos.OptionTLSConfig: TLSClient()}
	}
	return nil
}

// TransportOf returns the scheme of an address.
func TransportOf(addr string) string { return addr[:strings.Index(addr, "://")] }

// Listen makes s listen on a fresh address of the transport (retrying port conflicts).
func Listen(s mangos.Socket, tr string) (string, mangos.Listener, error) {
	var lastErr error
	for i := 0; i < 8; i++ {
		a := Addr(tr)
		l, err := s.NewListener(a, ListenOpts(tr))
		if err != nil {
			return "", nil, err
		}
		if err = l.Listen(); err == nil {
			return a, l, nil
		}
		lastErr = err
		_ = l.Close()
		if err != mangos.ErrAddrInUse && !strings.Contains(err.Error(), "in use") {
			return "", nil, err
		}
	}
	return "", nil, lastErr
}

// Dial dials addr synchronously with the options the transport needs.
func Dial(s mangos.Socket, addr string) (mangos.Dialer, error) {
	d, err := s.NewDialer(addr, DialOpts(TransportOf(addr)))
	if err != nil {
		return nil, err
	}
	return d, d.Dial()
}

// Events tracks attach/detach through the pipe event hook.
type Events struct {
	mu       sync.Mutex
	cv       *sync.Cond
	attached int
	detached int
	Pipes    []mangos.Pipe
}

// Hook installs an event counter on s.
func Hook(s mangos.Socket) *Events {
	e := &Events{}
	e.cv = sync.NewCond(&e.mu)
	s.SetPipeEventHook(func(ev mangos.PipeEvent, p mangos.Pipe) {
		e.mu.Lock()
		switch ev {
		case mangos.PipeEventAttached:
			e.attached++
			e.Pipes = append(e.Pipes, p)
		case mangos.PipeEventDetached:
			e.detached++
		}
		e.cv.Broadcast()
		e.mu.Unlock()
	})
	return e
}

// Attached returns the number of Attached events so far.
func (e *Events) Attached() int { e.mu.Lock(); defer e.mu.Unlock(); return e.attached }

// Detached returns the number of Detached events so far.
func (e *Events) Detached() int { e.mu.Lock(); defer e.mu.Unlock(); return e.detached }

// Live returns attached-detached.
func (e *Events) Live() int { e.mu.Lock(); defer e.mu.Unlock(); return e.attached - e.detached }

// PipeList returns a copy of the attached pipes.
func (e *Events) PipeList() []mangos.Pipe {
	e.mu.Lock()
	defer e.mu.Unlock()
	return append([]mangos.Pipe(nil), e.Pipes...)
}

func (e *Events) wait(d time.Duration, f func() bool) bool {
	deadline := time.Now().Add(d)
	t := time.AfterFunc(d, func() { e.mu.Lock(); e.cv.Broadcast(); e.mu.Unlock() })
	defer t.Stop()
	e.mu.Lock()
	defer e.mu.Unlock()
	for !f() {
		if !time.Now().Before(deadline) {
			return false
		}
		e.cv.Wait()
	}
	return true
}

// WaitAttached waits until n Attached events were seen.
func (e *Events) WaitAttached(n int, d time.Duration) bool {
	return e.wait(d, func() bool { return e.attached >= n })
}

// WaitDetached waits until n Detached events were seen.
func (e *Events) WaitDetached(n int, d time.Duration) bool {
	return e.wait(d, func() bool { return e.detached >= n })
}

// WaitLive waits until attached-detached == n.
func (e *Events) WaitLive(n int, d time.Duration) bool {
	return e.wait(d, func() bool { return e.attached-e.detached == n })
}

// Link is a connected pair of sockets.
type Link struct {
	L, D   mangos.Socket // listening and dialing socket
	LE, DE *Events
	Addr   string
}

// Connect makes l listen and d dial over tr and waits until both report Attached.
func Connect(l, d mangos.Socket, tr string) (*Link, error) {
	lk := &Link{L: l, D: d}
	lk.LE = Hook(l)
	lk.DE = Hook(d)
	a, _, err := Listen(l, tr)
	if err != nil {
		return nil, fmt.Errorf("listen %s: %v", tr, err)
	}
	lk.Addr = a
	if _, err := Dial(d, a); err != nil {
		return nil, fmt.Errorf("dial %s: %v", a, err)
	}
	if !lk.LE.WaitAttached(1, 5*time.Second) || !lk.DE.WaitAttached(1, 5*time.Second) {
		return nil, fmt.Errorf("attach timeout on %s", a)
	}
	return lk, nil
}

// Close closes both sockets.
func (lk *Link) Close() {
	_ = lk.L.Close()
	_ = lk.D.Close()
}

// Within runs f and reports whether it returned within d.
func Within(d time.Duration, f func()) bool {
	done := make(chan struct{})
	go func() { f(); close(done) }()
	select {
	case <-done:
		return true
	case <-time.After(d):
		return false
	}
}

// Payload returns n bytes that are a pure function of (key, n): position-dependent,
// so shifts, merges and stale pooled buffers show up.
func Payload(key uint64, n int) []byte {
	b := make([]byte, n)
	x := key*0x9E3779B97F4A7C15 + 0x1234567
	for i := range b {
		x ^= x << 13
		x ^= x >> 7
		x ^= x << 17
		b[i] = byte(x >> 24)
	}
	return b
}

// MangosGoroutines returns the stacks of goroutines that have a frame inside the
// mangos module (outside the harness).
func MangosGoroutines() []string {
	buf := make([]byte, 1<<22)
	n := runtime.Stack(buf, true)
	var out []string
	for _, g := range strings.Split(string(buf[:n]), "\n\n") {
		if !strings.Contains(g, "go.nanomsg.org/mangos/v3") {
			continue
		}
		lib := false
		for _, line := range strings.Split(g, "\n") {
			if strings.HasPrefix(line, "go.nanomsg.org/mangos/v3") && !strings.HasPrefix(line, "go.nanomsg.org/mangos/v3/verifharness") {
				lib = true
				break
			}
			if strings.HasPrefix(line, "created by go.nanomsg.org/mangos/v3") && !strings.HasPrefix(line, "created by go.nanomsg.org/mangos/v3/verifharness") {
				lib = true
				break
			}
		}
		if lib {
			out = append(out, g)
		}
	}
	return out
}

// WaitNoMangosGoroutines polls until no library goroutine remains (or d elapses)
// and returns the leftovers.
func WaitNoMangosGoroutines(d time.Duration) []string {
	deadline := time.Now().Add(d)
	for {
		g := MangosGoroutines()
		if len(g) == 0 || time.Now().After(deadline) {
			return g
		}
		time.Sleep(10 * time.Millisecond)
	}
}

// TopFrame extracts the innermost library function of a goroutine dump.
func TopFrame(g string) string {
	for _, line := range strings.Split(g, "\n") {
		if strings.HasPrefix(line, "go.nanomsg.org/mangos/v3") && !strings.HasPrefix(line, "go.nanomsg.org/mangos/v3/verifharness") {
			if i := strings.LastIndex(line, "("); i > 0 {
				line = line[:i]
			}
			return strings.TrimPrefix(line, "go.nanomsg.org/mangos/v3/")
		}
	}
	return "?"
}

// CountGoroutines returns the number of goroutines whose stack contains all substrings.
func CountGoroutines(subs ...string) int {
	buf := make([]byte, 1<<22)
	n := runtime.Stack(buf, true)
	c := 0
outer:
	for _, g := range strings.Split(string(buf[:n]), "\n\n") {
		for _, s := range subs {
			if !strings.Contains(g, s) {
				continue outer
			}
		}
		c++
	}
	return c
}

// WaitGoroutines polls until CountGoroutines(subs...) >= n.
func WaitGoroutines(n int, d time.Duration, subs ...string) bool {
	deadline := time.Now().Add(d)
	for {
		if CountGoroutines(subs...) >= n {
			return true
		}
		if time.Now().After(deadline) {
			return false
		}
		time.Sleep(200 * time.Microsecond)
	}
}

// HookWith is like Hook but calls pre (outside the counter's lock) before the event is counted;
// pre may block or close the pipe.
func HookWith(s mangos.Socket, pre func(ev mangos.PipeEvent, p mangos.Pipe)) *Events {
	e := &Events{}
	e.cv = sync.NewCond(&e.mu)
	s.SetPipeEventHook(func(ev mangos.PipeEvent, p mangos.Pipe) {
		if pre != nil {
			pre(ev, p)
		}
		e.mu.Lock()
		switch ev {
		case mangos.PipeEventAttached:
			e.attached++
			e.Pipes = append(e.Pipes, p)
		case mangos.PipeEventDetached:
			e.detached++
		}
		e.cv.Broadcast()
		e.mu.Unlock()
	})
	return e
}

// GoroutineID extracts the numeric id from one goroutine dump ("goroutine 12 [running]:...").
func GoroutineID(g string) string {
	g = strings.TrimPrefix(g, "goroutine ")
	if i := strings.IndexByte(g, ' '); i > 0 {
		return g[:i]
	}
	return g
}

// MangosGoroutineSet returns the ids of the library goroutines that exist now.
func MangosGoroutineSet() map[string]bool {
	m := map[string]bool{}
	for _, g := range MangosGoroutines() {
		m[GoroutineID(g)] = true
	}
	return m
}

// WaitNoNewMangosGoroutines polls until every library goroutine that is not in base has gone
// (or d elapses) and returns the leftovers.
func WaitNoNewMangosGoroutines(base map[string]bool, d time.Duration) []string {
	deadline := time.Now().Add(d)
	for {
		var left []string
		for _, g := range MangosGoroutines() {
			if !base[GoroutineID(g)] {
				left = append(left, g)
			}
		}
		if len(left) == 0 || time.Now().After(deadline) {
			return left
		}
		time.Sleep(10 * time.Millisecond)
	}
}

// OwnsListeningPort reports whether this very process has a TCP socket in LISTEN state on the
// given port (via /proc): an address that cannot be bound again is a leak of ours only then —
// otherwise an unrelated process took the port after it was freed.
func OwnsListeningPort(port int) bool { return ownsLocalPort(port, "0A") }

// OwnsServerSideConnection reports whether this process holds the accepted (server) end of a TCP
// connection on the given local port (ESTABLISHED or CLOSE_WAIT): a raw client connection that
// stays open after its listener was closed is a leak of the library only then — otherwise the
// client reached an unrelated process that had taken the freed port.
func OwnsServerSideConnection(port int) bool { return ownsLocalPort(port, "01", "08") }

func ownsLocalPort(port int, states ...string) bool {
	want := map[string]bool{}
	for _, st := range states {
		want[st] = true
	}
	inodes := map[string]bool{}
	for _, f := range []string{"/proc/self/net/tcp", "/proc/self/net/tcp6"} {
		b, err := os.ReadFile(f)
		if err != nil {
			continue
		}
		for _, line := range strings.Split(string(b), "\n")[1:] {
			fs := strings.Fields(line)
			if len(fs) < 10 || !want[fs[3]] {
				continue
			}
			i := strings.LastIndex(fs[1], ":")
			if i < 0 {
				continue
			}
			if p, err := strconv.ParseInt(fs[1][i+1:], 16, 32); err == nil && int(p) == port {
				inodes[fs[9]] = true
			}
		}
	}
	if len(inodes) == 0 {
		return false
	}
	ents, err := os.ReadDir("/proc/self/fd")
	if err != nil {
		return true // cannot tell: assume ours
	}
	for _, e := range ents {
		if l, err := os.Readlink("/proc/self/fd/" + e.Name()); err == nil && strings.HasPrefix(l, "socket:[") {
			if inodes[strings.TrimSuffix(strings.TrimPrefix(l, "socket:["), "]")] {
				return true
			}
		}
	}
	return false
}
