package fixture

import (
	"net"
	"testing"
)

// TestOwnsListeningPort pins the /proc-based helper the address-leak oracle relies on.
func TestOwnsListeningPort(t *testing.T) {
	l, err := net.Listen("tcp", "127.0.0.1:0")
	if err != nil {
		t.Skip(err)
	}
	port := l.Addr().(*net.TCPAddr).Port
	if !OwnsListeningPort(port) {
		t.Fatalf("own listening port %d not recognised", port)
	}
	c, err := net.Dial("tcp", l.Addr().String())
	if err != nil {
		t.Fatal(err)
	}
	sc, err := l.Accept()
	if err != nil {
		t.Fatal(err)
	}
	if !OwnsServerSideConnection(port) {
		t.Fatalf("accepted connection on port %d not recognised", port)
	}
	_ = sc.Close()
	_ = c.Close()
	_ = l.Close()
	if OwnsListeningPort(port) {
		t.Fatalf("port %d still reported as ours after Close", port)
	}
}
