package fixture

import (
	"net"
	"testing"
)

// TestOwnsListeningPort pins the /proc-based helper the address-leak oracle relies on.
func TestOwnsListeningPort(t *testing.T) {
	l, err := net.Listen("tcp", "127.0.0.1:0")
	if err != nil {
		t.Skip(err)
	}
	port := l.Addr().(*net.TCPAddr).Port
	if !OwnsListeningPort(port) {
		t.Fatalf("own listening port %d not recognised", port)
	}
	_ = l.Close()
	if OwnsListeningPort(port) {
		t.Fatalf("port %d still reported as ours after Close", port)
	}
}
