// C08 with a member that has stopped receiving.  "Queue space permitting" lets the stalled member
// lose messages; it does not let anybody else: every other member (the interior nodes' own
// applications included) must still receive every message exactly once, unchanged and in the sender's
// order, while the queues towards the stalled member are full.
//
// Topologies: STAR hub with three leaves, STAR tree of depth 2, BUS mesh of 3-4 members.  One leaf
// sends n messages in lock step (the next one goes out when every healthy member has reported the
// previous one, so no healthy queue ever overflows); one leaf has READQ-LEN 1 and never calls Recv.
package c08

import (
	"bytes"
	"encoding/binary"
	"fmt"
	"os"
	"sync"
	"testing"
	"time"

	"go.nanomsg.org/mangos/v3"
	"go.nanomsg.org/mangos/v3/verifharness/fixture"
	"go.nanomsg.org/mangos/v3/verifharness/stats"
	"pgregory.net/rapid"
)

type stalledCase struct {
	Test    string   `json:"test"`
	Kind    string   `json:"kind"`
	Tr      string   `json:"transport"`
	N       int      `json:"messages"`
	Size    int      `json:"size"`
	WQ      int      `json:"writeq"`
	Edges   [][2]int `json:"edges"`
	Sender  int      `json:"sender"`
	Stalled int      `json:"stalled"`
	Key     uint64   `json:"key"`
	RSeed   string   `json:"rseed"`
}

func TestC08StalledMember(t *testing.T) {
	stats.ScaledChecks(6, 3, func() {
		rapid.Check(t, func(t *rapid.T) {
			sc := stalledCase{Test: "TestC08StalledMember", RSeed: os.Getenv("VERIF_RSEED")}
			sc.Kind = rapid.SampledFrom([]string{"star-hub", "star-deep", "bus-mesh"}).Draw(t, "kind")
			sc.Tr = rapid.SampledFrom([]string{"inproc", "inproc", "tcp", "ipc"}).Draw(t, "transport")
			sc.WQ = rapid.SampledFrom([]int{1, 2, 8}).Draw(t, "writeq")
			sc.Key = rapid.Uint64().Draw(t, "key")
			if sc.Tr == "inproc" {
				sc.N = rapid.IntRange(20, 120).Draw(t, "n")
				sc.Size = rapid.IntRange(8, 3000).Draw(t, "size")
			} else {
				// enough volume to fill the kernel's socket buffers towards the stalled member
				sc.N = rapid.IntRange(60, 140).Draw(t, "n")
				sc.Size = rapid.IntRange(40000, 66000).Draw(t, "size")
			}
			members := 4
			switch sc.Kind {
			case "star-hub":
				sc.Edges = [][2]int{{0, 1}, {0, 2}, {0, 3}}
				sc.Sender, sc.Stalled = 1, 3
			case "star-deep":
				// 0 - 1 inner nodes; leaves 2 (sender) and 4 (stalled) on 1, leaf 3 on 0, leaf 5 on 1
				members = 6
				sc.Edges = [][2]int{{0, 1}, {1, 2}, {0, 3}, {1, 4}, {1, 5}}
				sc.Sender, sc.Stalled = 2, 4
			case "bus-mesh":
				members = rapid.IntRange(3, 4).Draw(t, "members")
				for i := 0; i < members; i++ {
					for j := i + 1; j < members; j++ {
						sc.Edges = append(sc.Edges, [2]int{i, j})
					}
				}
				sc.Sender, sc.Stalled = 0, members-1
			}
			var fmu sync.Mutex
			failed := false
			fail := func(k, f string, a ...interface{}) {
				fmu.Lock()
				defer fmu.Unlock()
				if !failed {
					failed = true
					stats.Fail(t, "C08:stalled-"+k, sc, "%s over %s, %d messages of %d bytes, WRITEQ-LEN %d, member %d sends, member %d has stopped receiving: %s", sc.Kind, sc.Tr, sc.N, sc.Size, sc.WQ, sc.Sender, sc.Stalled, fmt.Sprintf(f, a...))
				}
			}
			name := "star"
			if sc.Kind == "bus-mesh" {
				name = "bus"
			}
			socks := make([]mangos.Socket, members)
			evs := make([]*fixture.Events, members)
			for i := range socks {
				socks[i] = fixture.New(name)
				evs[i] = fixture.Hook(socks[i])
				_ = socks[i].SetOption(mangos.OptionWriteQLen, sc.WQ)
				_ = socks[i].SetOption(mangos.OptionRecvDeadline, 200*time.Millisecond)
				if i == sc.Stalled {
					_ = socks[i].SetOption(mangos.OptionReadQLen, 1)
				}
			}
			defer func() {
				for _, s := range socks {
					s := s
					fixture.Within(5*time.Second, func() { _ = s.Close() })
				}
			}()
			links := make([]int, members)
			for _, e := range sc.Edges {
				addr, _, err := fixture.Listen(socks[e[0]], sc.Tr)
				if err != nil {
					t.Fatalf("harness: listen: %v", err)
				}
				if _, err := fixture.Dial(socks[e[1]], addr); err != nil {
					t.Fatalf("harness: dial: %v", err)
				}
				links[e[0]]++
				links[e[1]]++
			}
			for i := range socks {
				if !evs[i].WaitAttached(links[i], 5*time.Second) {
					t.Fatalf("harness: member %d has %d of %d links", i, evs[i].Attached(), links[i])
				}
			}
			body := func(i int) []byte {
				b := make([]byte, 8, 8+sc.Size)
				binary.BigEndian.PutUint64(b, uint64(i))
				return append(b, fixture.Payload(sc.Key+uint64(i), sc.Size)...)
			}
			// healthy members report the index of each message they receive
			type rep struct{ member, idx int }
			reports := make(chan rep, 4096)
			stop := make(chan struct{})
			var wg sync.WaitGroup
			for i := range socks {
				if i == sc.Sender || i == sc.Stalled {
					continue
				}
				wg.Add(1)
				go func(i int) {
					defer wg.Done()
					next := 0
					for {
						select {
						case <-stop:
							return
						default:
						}
						m, err := socks[i].RecvMsg()
						if err == mangos.ErrRecvTimeout {
							continue
						}
						if err != nil {
							return
						}
						if len(m.Body) < 8 {
							fail("altered", "member %d received a %d-byte message %x, which nobody sent", i, len(m.Body), m.Body)
							m.Free()
							return
						}
						idx := int(binary.BigEndian.Uint64(m.Body))
						switch {
						case idx < 0 || idx >= sc.N || !bytes.Equal(m.Body, body(idx)):
							fail("altered", "member %d received a message of %d bytes that differs from every message sent (first bytes %x)", i, len(m.Body), m.Body[:8])
						case idx < next:
							fail("duplicate", "member %d received message %d again", i, idx)
						case idx > next:
							fail("missing", "member %d received message %d while still waiting for %d: a healthy member lost a message (its queues were never full: lock step)", i, idx, next)
						}
						m.Free()
						next = idx + 1
						reports <- rep{i, idx}
					}
				}(i)
			}
			healthy := members - 2
		send:
			for i := 0; i < sc.N; i++ {
				var err error
				if !fixture.Within(5*time.Second, func() { err = socks[sc.Sender].Send(body(i)) }) || err != nil {
					fail("send", "Send of message %d did not complete (%v): BUS and STAR sends never wait for a peer", i, err)
					break
				}
				got := 0
				deadline := time.After(5 * time.Second)
				for got < healthy {
					select {
					case r := <-reports:
						if r.idx == i {
							got++
						}
					case <-deadline:
						fail("missing", "message %d reached only %d of the %d healthy members within 5s", i, got, healthy)
						break send
					}
					fmu.Lock()
					f := failed
					fmu.Unlock()
					if f {
						break send
					}
				}
			}
			close(stop)
			for _, s := range socks {
				s := s
				fixture.Within(5*time.Second, func() { _ = s.Close() })
			}
			wg.Wait()
			fmu.Lock()
			f := failed
			fmu.Unlock()
			if f {
				return
			}
			stats.Eval()
			stats.Class("stalled:" + sc.Kind + ":" + sc.Tr)
			stats.NonTrivial(fmt.Sprintf("stalled|%s|%s|%d|%d|%d|%d", sc.Kind, sc.Tr, sc.N, sc.Size/500, sc.WQ, members))
			stats.Sample(sc)
		})
	})
}
