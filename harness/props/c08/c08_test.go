// C08 — BUS and STAR reach every other member once and never echo to the sender.
//
// Generated topologies: BUS full meshes and chains of 2-5 members (optionally with
// raw BUS members running Device(s,s) as forwarders inside a chain), STAR random
// trees of 2-6 members (cooked and raw members).  Every member sends 0-20 tagged
// messages, sequentially or from concurrent goroutines.  Oracle: the multiset
// received by each member equals the model's expectation (cooked BUS: exactly its
// direct neighbours' messages; forwarding raw BUS: everything crosses the device to
// all peers except the arrival pipe and never returns; STAR: everybody else's
// messages exactly once), nothing of its own, nothing altered; a sentinel round per
// link after the expected counts are reached proves that nothing extra is queued.
package c08

import (
	"fmt"
	"os"
	"sort"
	"strings"
	"sync"
	"testing"
	"time"

	"go.nanomsg.org/mangos/v3"
	"go.nanomsg.org/mangos/v3/verifharness/fixture"
	"go.nanomsg.org/mangos/v3/verifharness/stats"
	"pgregory.net/rapid"
)

func TestMain(m *testing.M) {
	stats.Init("C08")
	stats.Rule("topology in {bus mesh, bus chain, bus chain with raw forwarding members, star tree} with 2-6 members over inproc (tcp/ipc/ws/tls+tcp sampled), one connection per linked pair, all planned links Attached on both ends before sending; each member sends 0-20 tagged messages (volumes below queue lengths), sequentially or concurrently. Also: forwarding raw BUS members run Device, a hand loop, or a loop re-sending each message twice through a Clone; a cooked BUS member may have READQ-LEN 1. Non-trivial: >=3 members; distinct by (kind, edges, raw set, per-member counts, concurrency). Round 5: stalled member (READQ-LEN 1, never receives) in a STAR hub / STAR tree / BUS mesh with lock-step sender: all other members receive everything once, unchanged, in order")
	rc := m.Run()
	stats.Flush()
	fixture.Cleanup()
	os.Exit(rc)
}

type topo struct {
	Test   string   `json:"test"`
	Kind   string   `json:"kind"`
	N      int      `json:"members"`
	Edges  [][2]int `json:"edges"` // [listener, dialer]
	Raw    []bool   `json:"raw"`   // forwarding raw BUS member / raw STAR member
	Counts []int    `json:"counts"`
	Conc   bool     `json:"concurrent"`
	Tight  int      `json:"tight_member"` // cooked BUS member with READQ-LEN 1 (may itself miss messages; what it sends must still reach everybody), -1: none
	Stale  string   `json:"stale_header"` // cooked members send with SendMsg on a message that still carries a header: "" | "8bytes" | "pipeid" (4 bytes naming one of the sender's own pipes)
	Fwd    string   `json:"forwarder"` // raw BUS members forward with Device, a RecvMsg/SendMsg loop, or a loop that re-sends every message twice through a Clone
	Tr     string   `json:"transport"`
	RSeed  string   `json:"rseed"`
}

func genTopo(t *rapid.T) topo {
	tp := topo{Test: "TestC08", RSeed: os.Getenv("VERIF_RSEED")}
	tp.Kind = rapid.SampledFrom([]string{"bus-mesh", "bus-chain", "bus-chain-fwd", "star-tree", "star-tree"}).Draw(t, "kind")
	tp.Tr = rapid.SampledFrom([]string{"inproc", "inproc", "inproc", "tcp", "ipc", "ws", "tls+tcp"}).Draw(t, "transport")
	switch tp.Kind {
	case "bus-mesh":
		tp.N = rapid.IntRange(2, 5).Draw(t, "n")
		for i := 0; i < tp.N; i++ {
			for j := i + 1; j < tp.N; j++ {
				tp.Edges = append(tp.Edges, [2]int{i, j})
			}
		}
	case "bus-chain", "bus-chain-fwd":
		tp.N = rapid.IntRange(2, 5).Draw(t, "n")
		if tp.Kind == "bus-chain-fwd" && tp.N < 3 {
			tp.N = 3
		}
		for i := 0; i+1 < tp.N; i++ {
			if rapid.Bool().Draw(t, "dir") {
				tp.Edges = append(tp.Edges, [2]int{i, i + 1})
			} else {
				tp.Edges = append(tp.Edges, [2]int{i + 1, i})
			}
		}
	case "star-tree":
		tp.N = rapid.IntRange(2, 6).Draw(t, "n")
		for i := 1; i < tp.N; i++ {
			parent := rapid.IntRange(0, i-1).Draw(t, "parent")
			if rapid.Bool().Draw(t, "dir") {
				tp.Edges = append(tp.Edges, [2]int{parent, i})
			} else {
				tp.Edges = append(tp.Edges, [2]int{i, parent})
			}
		}
	}
	tp.Raw = make([]bool, tp.N)
	tp.Counts = make([]int, tp.N)
	for i := range tp.Counts {
		tp.Counts[i] = rapid.IntRange(0, 20).Draw(t, "count")
		switch tp.Kind {
		case "bus-chain-fwd":
			// interior members forward
			if i > 0 && i < tp.N-1 {
				tp.Raw[i] = rapid.IntRange(0, 2).Draw(t, "fwd") != 0
			}
		case "star-tree":
			tp.Raw[i] = rapid.IntRange(0, 3).Draw(t, "raw") == 0
		}
		if tp.Raw[i] && strings.HasPrefix(tp.Kind, "bus") {
			tp.Counts[i] = 0 // a forwarding device does not originate messages
		}
	}
	tp.Conc = rapid.Bool().Draw(t, "concurrent")
	tp.Fwd = "device"
	tp.Stale = rapid.SampledFrom([]string{"", "", "8bytes", "pipeid"}).Draw(t, "staleHeader")
	tp.Tight = -1
	if (tp.Kind == "bus-mesh" || tp.Kind == "bus-chain") && rapid.IntRange(0, 2).Draw(t, "tight") == 0 {
		tp.Tight = rapid.IntRange(0, tp.N-1).Draw(t, "tightMember")
	}
	if tp.Kind == "bus-chain-fwd" {
		tp.Fwd = rapid.SampledFrom([]string{"device", "loop", "loop-clone2"}).Draw(t, "forwarder")
	}
	return tp
}

// expected computes, per member, the multiset of tags it must receive.
func expected(tp topo) []map[string]int {
	adj := make([][]int, tp.N)
	for _, e := range tp.Edges {
		adj[e[0]] = append(adj[e[0]], e[1])
		adj[e[1]] = append(adj[e[1]], e[0])
	}
	exp := make([]map[string]int, tp.N)
	for i := range exp {
		exp[i] = map[string]int{}
	}
	for src := 0; src < tp.N; src++ {
		for q := 0; q < tp.Counts[src]; q++ {
			tag := fmt.Sprintf("m%d-%d", src, q)
			if strings.HasPrefix(tp.Kind, "star") {
				for j := 0; j < tp.N; j++ {
					if j != src {
						exp[j][tag]++
					}
				}
				continue
			}
			// BUS: flood from src; cooked members deliver and stop, forwarding members pass on
			// to every peer except the one it came from (and deliver nothing to an application).
			var walk func(from, at, mult int)
			walk = func(from, at, mult int) {
				if tp.Raw[at] {
					if tp.Fwd == "loop-clone2" && at == firstRaw(tp) {
						mult *= 2
					}
					for _, nb := range adj[at] {
						if nb != from {
							walk(at, nb, mult)
						}
					}
					return
				}
				exp[at][tag] += mult
			}
			for _, nb := range adj[src] {
				walk(src, nb, 1)
			}
		}
	}
	return exp
}

func firstRaw(tp topo) int {
	for i, r := range tp.Raw {
		if r {
			return i
		}
	}
	return -1
}

// forward is a hand-written forwarder for a raw BUS member: what Device does, or
// the same with every message re-sent twice, the second time through a reference
// obtained with Clone before the first send (a fan-out bridge does that).
func forward(s mangos.Socket, twice bool) {
	for {
		m, err := s.RecvMsg()
		if err != nil {
			if err == mangos.ErrRecvTimeout {
				continue
			}
			return
		}
		if twice {
			m.Clone()
			if err := s.SendMsg(m); err != nil {
				m.Free()
				m.Free()
				return
			}
		}
		if err := s.SendMsg(m); err != nil {
			m.Free()
			return
		}
	}
}

func TestC08(t *testing.T) {
	rapid.Check(t, func(t *rapid.T) {
		tp := genTopo(t)
		var fmu sync.Mutex
		var failures [][2]string
		fail := func(k, f string, a ...interface{}) {
			fmu.Lock()
			failures = append(failures, [2]string{k, fmt.Sprintf(f, a...)})
			fmu.Unlock()
		}
		defer func() {
			fmu.Lock()
			defer fmu.Unlock()
			if len(failures) > 0 {
				stats.Fail(t, "C08:"+failures[0][0], tp, "%s with %d members (edges %v raw %v counts %v concurrent=%v forwarder=%s over %s): %s", tp.Kind, tp.N, tp.Edges, tp.Raw, tp.Counts, tp.Conc, tp.Fwd, tp.Tr, failures[0][1])
			}
		}()
		star := strings.HasPrefix(tp.Kind, "star")
		socks := make([]mangos.Socket, tp.N)
		evs := make([]*fixture.Events, tp.N)
		for i := range socks {
			name := "bus"
			if star {
				name = "star"
			}
			if tp.Raw[i] {
				name = "x" + name
			}
			socks[i] = fixture.New(name)
			evs[i] = fixture.Hook(socks[i])
			_ = socks[i].SetOption(mangos.OptionRecvDeadline, 5*time.Second)
			if i == tp.Tight {
				// a short receive queue is this member's own business: its sends use the write queue
				if err := socks[i].SetOption(mangos.OptionReadQLen, 1); err != nil {
					t.Fatalf("harness: %v", err)
				}
			}
			if tp.Fwd == "loop-clone2" {
				// doubled volumes must still stay below the queue lengths
				_ = socks[i].SetOption(mangos.OptionWriteQLen, 512)
				_ = socks[i].SetOption(mangos.OptionReadQLen, 512)
			}
		}
		defer func() {
			for _, s := range socks {
				_ = s.Close()
			}
		}()
		// links: one connection per pair; wait for both ends
		links := make([]int, tp.N)
		for _, e := range tp.Edges {
			addr, _, err := fixture.Listen(socks[e[0]], tp.Tr)
			if err != nil {
				t.Fatalf("harness: listen: %v", err)
			}
			if _, err := fixture.Dial(socks[e[1]], addr); err != nil {
				t.Fatalf("harness: dial: %v", err)
			}
			links[e[0]]++
			links[e[1]]++
			if !evs[e[0]].WaitAttached(links[e[0]], 5*time.Second) || !evs[e[1]].WaitAttached(links[e[1]], 5*time.Second) {
				t.Fatalf("harness: attach timeout")
			}
		}
		// forwarding raw BUS members
		for i := range socks {
			if tp.Raw[i] && !star {
				if tp.Fwd != "device" {
					go forward(socks[i], tp.Fwd == "loop-clone2" && i == firstRaw(tp))
					continue
				}
				if err := mangos.Device(socks[i], socks[i]); err != nil {
					fail("device", "Device(xbus,xbus): %v", err)
					return
				}
			}
		}
		send := func(i int, body string) error {
			m := mangos.NewMessage(len(body))
			m.Body = append(m.Body, body...)
			if star && tp.Raw[i] {
				m.Header = append(m.Header, 0, 0, 0, 0)
			}
			if !tp.Raw[i] {
				// a cooked socket takes no header from the application: whatever a re-used message
				// still carries (say, the routing header of the raw socket it came from) is ignored
				switch tp.Stale {
				case "8bytes":
					m.Header = append(m.Header, 0x80, 0, 0, 1, 0x80, 0, 0, 2)
				case "pipeid":
					if pl := evs[i].PipeList(); len(pl) > 0 {
						id := pl[0].ID()
						m.Header = append(m.Header, byte(id>>24), byte(id>>16), byte(id>>8), byte(id))
					}
				}
			}
			err := socks[i].SendMsg(m)
			if err != nil {
				m.Free()
			}
			return err
		}
		// a raw STAR member's application must read to keep forwarding going; all members read.
		exp := expected(tp)
		got := make([]map[string]int, tp.N)
		var gmu sync.Mutex
		var rwg sync.WaitGroup
		stop := make(chan struct{})
		sentinelSeen := make([]map[string]bool, tp.N)
		for i := range socks {
			got[i] = map[string]int{}
			sentinelSeen[i] = map[string]bool{}
			if tp.Raw[i] && !star {
				continue // the device consumes this member's messages
			}
			rwg.Add(1)
			go func(i int) {
				defer rwg.Done()
				_ = socks[i].SetOption(mangos.OptionRecvDeadline, 50*time.Millisecond)
				for {
					b, err := socks[i].Recv()
					if err != nil {
						select {
						case <-stop:
							return
						default:
						}
						if err == mangos.ErrRecvTimeout {
							continue
						}
						return
					}
					gmu.Lock()
					if strings.HasPrefix(string(b), "sentinel-") {
						sentinelSeen[i][string(b)] = true
					} else {
						got[i][string(b)]++
					}
					gmu.Unlock()
				}
			}(i)
		}
		var swg sync.WaitGroup
		sendAll := func(i int) {
			for q := 0; q < tp.Counts[i]; q++ {
				if err := send(i, fmt.Sprintf("m%d-%d", i, q)); err != nil {
					fail("send-error", "member %d send %d: %v", i, q, err)
					return
				}
			}
		}
		for i := range socks {
			if tp.Conc {
				swg.Add(1)
				go func(i int) { defer swg.Done(); sendAll(i) }(i)
			} else {
				sendAll(i)
			}
		}
		swg.Wait()
		total := func(m map[string]int) int {
			n := 0
			for _, v := range m {
				n += v
			}
			return n
		}
		// wait until the expected counts are reached
		deadline := time.Now().Add(8 * time.Second)
		for {
			done := true
			gmu.Lock()
			for i := range socks {
				if i != tp.Tight && total(got[i]) < total(exp[i]) {
					done = false
				}
			}
			gmu.Unlock()
			if done || time.Now().After(deadline) {
				break
			}
			time.Sleep(time.Millisecond)
		}
		// sentinel round: every member that may originate sends one; it travels the same FIFO
		// links as any late duplicate/echo would, so when all expected sentinels have arrived
		// everything that was ever going to arrive has arrived.
		expSent := make([]map[string]bool, tp.N)
		for i := range expSent {
			expSent[i] = map[string]bool{}
		}
		for src := range socks {
			if tp.Raw[src] && !star {
				continue
			}
			tag := fmt.Sprintf("sentinel-%d", src)
			stp := tp
			stp.Counts = make([]int, tp.N)
			stp.Counts[src] = 1
			for j, m := range expected(stp) {
				if len(m) > 0 {
					expSent[j][tag] = true
				}
			}
			if err := send(src, tag); err != nil {
				fail("send-error", "sentinel from %d: %v", src, err)
			}
		}
		deadline = time.Now().Add(8 * time.Second)
		for {
			done := true
			gmu.Lock()
			for i := range socks {
				for tag := range expSent[i] {
					if i != tp.Tight && !sentinelSeen[i][tag] {
						done = false
					}
				}
			}
			gmu.Unlock()
			if done || time.Now().After(deadline) {
				break
			}
			time.Sleep(time.Millisecond)
		}
		close(stop)
		rwg.Wait()
		for i := range socks {
			if tp.Raw[i] && !star {
				continue
			}
			keys := map[string]bool{}
			for k := range exp[i] {
				keys[k] = true
			}
			for k := range got[i] {
				keys[k] = true
			}
			var ks []string
			for k := range keys {
				ks = append(ks, k)
			}
			sort.Strings(ks)
			for _, k := range ks {
				e, g := exp[i][k], got[i][k]
				if e == g {
					continue
				}
				var src int
				_, _ = fmt.Sscanf(k, "m%d-", &src)
				switch {
				case !strings.HasPrefix(k, "m"):
					fail("altered", "member %d received %q, which nobody sent", i, k)
				case src == i && g > 0:
					fail("echo", "member %d received its own message %s back %d time(s)", i, k, g)
				case g > e && e == 0:
					fail("unexpected-delivery", "member %d received %s (%d times) although it must not reach it (cooked BUS does not forward; forwarding skips the arrival pipe)", i, k, g)
				case g > e:
					fail("duplicate", "member %d received %s %d times, want %d", i, k, g, e)
				case i == tp.Tight:
					continue // its one-slot receive queue may drop
				default:
					fail("missing", "member %d received %s %d times, want %d (queues were far from full)", i, k, g, e)
				}
				return
			}
		}
		stats.Eval()
		stats.Class("kind:" + tp.Kind)
		if tp.Tight >= 0 {
			stats.Class("member_with_readq_1")
		}
		if tp.Stale != "" {
			stats.Class("cooked_send_with_stale_header")
		}
		if tp.Kind == "bus-chain-fwd" && firstRaw(tp) >= 0 {
			stats.Class("forwarder:" + tp.Fwd)
		}
		stats.Class(fmt.Sprintf("members=%d", tp.N))
		if tp.Conc {
			stats.Class("concurrent")
		}
		if tp.N >= 3 {
			stats.NonTrivial(fmt.Sprintf("%s|%v|%v|%v|%v|%s|%s", tp.Kind, tp.Edges, tp.Raw, tp.Counts, tp.Conc, tp.Tr, tp.Fwd+fmt.Sprint(tp.Tight)+tp.Stale))
		}
		stats.Sample(tp)
	})
}
