package c05

import (
	"bytes"
	"encoding/binary"
	"fmt"
	"os"
	"testing"
	"time"

	"go.nanomsg.org/mangos/v3"
	"go.nanomsg.org/mangos/v3/verifharness/fixture"
	"go.nanomsg.org/mangos/v3/verifharness/stats"
	"go.nanomsg.org/mangos/v3/verifharness/vt"
	"pgregory.net/rapid"
)

// TestC05BlockedReply: the requester's connection back-pressures until a reply can no longer
// be queued.  (a) "leave": the reply's Send is blocked when that connection goes away — the
// reply is for a connection that has gone, so it is discarded and the Send ends (it must not
// sit there until its deadline, or for ever).  (b) "retry" (raw sockets): the Send times out and
// hands the message back; once the peer takes data again the application sends the very same
// message again: it must reach the requesting connection with the request's routing header,
// exactly as a first attempt would.
func TestC05BlockedReply(t *testing.T) {
	stats.ScaledChecks(6, 6, func() {
		rapid.Check(t, func(t *rapid.T) {
			kind := rapid.SampledFrom([]string{"rep", "respondent", "xrep", "xrespondent"}).Draw(t, "kind")
			raw := kind[0] == 'x'
			scen := "leave"
			if raw && rapid.Bool().Draw(t, "retry") {
				scen = "retry"
			}
			wq := rapid.SampledFrom([]int{0, 1, 2}).Draw(t, "writeq")
			depth := rapid.IntRange(0, 3).Draw(t, "depth")
			noDeadline := scen == "leave" && rapid.Bool().Draw(t, "noDeadline")
			doc := map[string]interface{}{"test": "TestC05BlockedReply", "kind": kind, "scenario": scen, "writeq": wq, "depth": depth, "no_deadline": noDeadline, "rseed": os.Getenv("VERIF_RSEED")}
			fail := func(k, f string, a ...interface{}) {
				stats.Fail(t, "C05:blocked-"+k+":"+kind, doc, "%s, WRITEQ-LEN %d, %s: %s", kind, wq, scen, fmt.Sprintf(f, a...))
			}
			sock := fixture.New(kind)
			defer fixture.Within(3*time.Second, func() { _ = sock.Close() })
			if err := sock.SetOption(mangos.OptionWriteQLen, wq); err != nil {
				t.Fatalf("harness: %v", err)
			}
			_ = sock.SetOption(mangos.OptionRecvDeadline, 2*time.Second)
			ep, err := vt.Attach(sock)
			if err != nil {
				t.Fatalf("harness: %v", err)
			}
			defer ep.Forget()
			p, ok := ep.ConnectWait(5 * time.Second)
			if !ok {
				t.Fatalf("harness: no pipe")
			}
			p.SetMode(vt.ModeBlock, nil)
			prefix := func(i int) []byte {
				var w []byte
				for k := 0; k < depth; k++ {
					w = append(w, 0, byte(k+1), byte(i), 7)
				}
				var id [4]byte
				binary.BigEndian.PutUint32(id[:], 0x80000000|uint32(i+1))
				return append(w, id[:]...)
			}
			// exchange i: request in, reply out with send deadline d; returns the Send result and, for
			// raw sockets, the message (handed back on failure)
			type sres struct {
				err error
				m   *mangos.Message
			}
			exchange := func(i int, d time.Duration) (<-chan sres, []byte) {
				body := []byte(fmt.Sprintf("REPLY-%d", i))
				req := append(prefix(i), []byte(fmt.Sprintf("REQUEST-%d", i))...)
				if p.Handoff(req, 3*time.Second) == vt.InjNotTaken {
					t.Fatalf("harness: request %d not taken", i)
				}
				var m *mangos.Message
				if raw {
					rm, err := sock.RecvMsg()
					if err != nil {
						t.Fatalf("harness: recv %d: %v", i, err)
					}
					m = mangos.NewMessage(len(body))
					m.Header = append(m.Header, rm.Header...)
					m.Body = append(m.Body, body...)
					rm.Free()
				} else if _, err := sock.Recv(); err != nil {
					t.Fatalf("harness: recv %d: %v", i, err)
				}
				if err := sock.SetOption(mangos.OptionSendDeadline, d); err != nil {
					t.Fatalf("harness: send deadline %v: %v", d, err)
				}
				ch := make(chan sres, 1)
				go func() {
					if raw {
						ch <- sres{sock.SendMsg(m), m}
					} else {
						ch <- sres{sock.Send(body), nil}
					}
				}()
				return ch, append(prefix(i), body...)
			}
			// fill: replies are accepted until the connection's share of the queue is used up
			var stuck sres
			var stuckWire []byte
			full := false
			i := 0
			for ; i < wq+6 && !full; i++ {
				ch, wire := exchange(i, 150*time.Millisecond)
				r := <-ch
				switch r.err {
				case nil:
				case mangos.ErrSendTimeout:
					full, stuck, stuckWire = true, r, wire
				default:
					fail("send-error", "reply %d: Send returned %v", i, r.err)
					return
				}
			}
			if !full {
				t.Fatalf("harness: queue never filled (%d replies accepted)", i)
			}
			switch scen {
			case "retry":
				p.SetMode(vt.ModeAccept, nil)
				_ = sock.SetOption(mangos.OptionSendDeadline, 2*time.Second)
				if err := sock.SendMsg(stuck.m); err != nil {
					fail("retry-refused", "sending the message handed back by the timed-out Send again: %v", err)
					return
				}
				deadline := time.Now().Add(2 * time.Second)
				for {
					for _, s := range p.SentLog() {
						if bytes.Equal(s.Data, stuckWire) {
							stats.Eval()
							stats.Class("blocked_reply:retry")
							stats.NonTrivial(fmt.Sprintf("BR|%s|retry|%d|%d", kind, wq, depth))
							stats.Sample(doc)
							return
						}
					}
					if time.Now().After(deadline) {
						fail("retry-misrouted", "the reply handed back by a timed-out Send and sent again never reached the requesting connection as routing header||id||body (want %x; %d frames transmitted)", stuckWire, p.SentCount())
						return
					}
					time.Sleep(2 * time.Millisecond)
				}
			default:
				if stuck.m != nil {
					stuck.m.Free()
				}
				d := 5 * time.Second
				if noDeadline && kind != "rep" && kind != "respondent" {
					d = 0 // cooked rep/respondent accept positive deadlines only
				}
				ch, _ := exchange(i, d)
				select {
				case r := <-ch:
					fail("not-blocked", "with the connection still stuck a further reply's Send returned %v at once", r.err)
					return
				case <-time.After(100 * time.Millisecond):
				}
				_ = p.Close()
				select {
				case r := <-ch:
					if r.err == mangos.ErrSendTimeout {
						fail("waited-for-deadline", "Send returned %v", r.err)
					} else if r.err != nil && r.m != nil {
						r.m.Free()
					}
				case <-time.After(1500 * time.Millisecond):
					fail("reply-to-vanished-connection-not-discarded", "the Send of a reply was still blocked 1.5s after the requesting connection had gone (send deadline %v): a reply for a connection that has gone is discarded", d)
					return
				}
				stats.Eval()
				stats.Class("blocked_reply:leave")
				stats.NonTrivial(fmt.Sprintf("BR|%s|leave|%d|%d|%v", kind, wq, depth, noDeadline))
				stats.Sample(doc)
			}
		})
	})
}
