// C05 — REP/RESPONDENT replies go back along the path of their request.
//
// State machine over rep / respondent (1-3 contexts) and xrep / xrespondent on 1-4
// virtual-transport pipes.  The harness injects requests with 0..TTL-1 extra routing
// words of arbitrary content and checks that every reply appears on exactly the
// pipe of the answered request with wire bytes words||id||body, that nothing else
// is ever transmitted (per-pipe log == model, closed by a sentinel round), that a
// reply to a vanished pipe is discarded and that Send without a request fails.
package c05

import (
	"bytes"
	"encoding/binary"
	"fmt"
	"os"
	"testing"
	"time"

	"go.nanomsg.org/mangos/v3"
	"go.nanomsg.org/mangos/v3/verifharness/fixture"
	"go.nanomsg.org/mangos/v3/verifharness/stats"
	"go.nanomsg.org/mangos/v3/verifharness/vt"
	"pgregory.net/rapid"
)

func TestMain(m *testing.M) {
	stats.Init("C05")
	stats.Rule("rapid state machine over {rep,respondent} with 1-3 contexts and {xrep,xrespondent}, 1-4 vt pipes; actions request(pipe,depth 0..7,random routing words)/recv/send/sendNoRequest/dropPipe/addPipe/openCtx; final sentinel round on every live pipe. Non-trivial: >=2 requests from different pipes outstanding at once, or routing depth>=1, or a pipe dropped before its reply; distinct by (socket kind, action/outcome sequence). Round 5: closeCtx (context closed with an unanswered request)")
	rc := m.Run()
	stats.Flush()
	os.Exit(rc)
}

type reqInfo struct {
	pipe   *mpipe
	prefix []byte // routing words || id word
	tag    string
}

type mpipe struct {
	p       *vt.Pipe
	id      uint32 // mangos pipe id (from the Attached event)
	dropped bool
	pending []*reqInfo // injected, not yet received by the application
	expect  [][]byte   // wire messages the model expects on this pipe
	idx     int
}

type mctx struct {
	c          mangos.Context
	last       *reqInfo
	hdr        []byte // raw mode: header returned by RecvMsg
	recvFailed bool   // a Recv failed since the last successful one
}

func TestC05(t *testing.T) {
	rapid.Check(t, func(t *rapid.T) {
		kind := rapid.SampledFrom([]string{"rep", "respondent", "xrep", "xrespondent"}).Draw(t, "kind")
		raw := kind[0] == 'x'
		buffered := kind != "rep" // rep hands requests over an unbuffered queue
		sock := fixture.New(kind)
		defer sock.Close()
		ev := fixture.Hook(sock)
		ep, err := vt.Attach(sock)
		if err != nil {
			t.Fatalf("harness: %v", err)
		}
		defer ep.Forget()
		var trace []string
		logf := func(f string, a ...interface{}) { trace = append(trace, fmt.Sprintf(f, a...)) }
		doc := func() interface{} {
			return map[string]interface{}{"test": "TestC05", "socket": kind, "trace": trace, "rseed": os.Getenv("VERIF_RSEED")}
		}
		fail := func(key, f string, a ...interface{}) {
			stats.Fail(t, "C05:"+key+":"+kind, doc(), "%s: "+f+" — history: %v", append(append([]interface{}{kind}, a...), trace)...)
		}
		var pipes []*mpipe
		addPipe := func() {
			n0 := ev.Attached()
			p, ok := ep.ConnectWait(5 * time.Second)
			if !ok || !ev.WaitAttached(n0+1, 5*time.Second) {
				t.Fatalf("harness: pipe not attached")
			}
			pl := ev.PipeList()
			pipes = append(pipes, &mpipe{p: p, id: pl[len(pl)-1].ID(), idx: len(pipes)})
		}
		np := rapid.IntRange(1, 4).Draw(t, "npipes")
		for i := 0; i < np; i++ {
			addPipe()
		}
		ctxs := []*mctx{{c: sock}}
		_ = sock.SetOption(mangos.OptionSendDeadline, 3*time.Second)
		seq := 0
		nid := uint32(0)
		maxOutstanding, maxDepth, dropBeforeReply := 0, 0, false
		closedWithRequest := false
		canon := kind + "|"

		livePipes := func() []*mpipe {
			var l []*mpipe
			for _, p := range pipes {
				if !p.dropped {
					l = append(l, p)
				}
			}
			return l
		}
		outstanding := func() int {
			n := 0
			for _, p := range pipes {
				if !p.dropped && len(p.pending) > 0 {
					n++
				}
			}
			return n
		}

		inject := func(p *mpipe, depth int, words []byte) *reqInfo {
			seq++
			nid++
			id := 0x80000000 | (nid & 0x7fffffff)
			r := &reqInfo{pipe: p, tag: fmt.Sprintf("REQ%d-from-pipe%d-depth%d", seq, p.idx, depth)}
			r.prefix = append(r.prefix, words...)
			var idb [4]byte
			binary.BigEndian.PutUint32(idb[:], id)
			r.prefix = append(r.prefix, idb[:]...)
			wire := append(append([]byte{}, r.prefix...), r.tag...)
			var res int
			if buffered {
				res = p.p.Inject(wire, 3*time.Second)
			} else {
				res = p.p.Handoff(wire, 3*time.Second)
			}
			if buffered && res != vt.InjProcessed || !buffered && res == vt.InjNotTaken {
				fail("receiver-stalled", "pipe %d receiver did not take a request (result %d)", p.idx, res)
				return nil
			}
			p.pending = append(p.pending, r)
			if o := outstanding(); o > maxOutstanding {
				maxOutstanding = o
			}
			if depth > maxDepth {
				maxDepth = depth
			}
			return r
		}

		// recvOn performs Recv on context ci and matches the result against the model.
		recvOn := func(ci int) {
			c := ctxs[ci]
			definite, maybe := 0, 0
			for _, p := range pipes {
				if p.dropped {
					maybe += len(p.pending)
				} else {
					definite += len(p.pending)
				}
			}
			d := 3 * time.Second
			if definite == 0 {
				d = 30 * time.Millisecond
			}
			if err := c.c.SetOption(mangos.OptionRecvDeadline, d); err != nil {
				t.Fatalf("harness: %v", err)
			}
			start := time.Now()
			m, err := c.c.RecvMsg()
			el := time.Since(start)
			if err != nil {
				logf("recv(ctx%d)=%v", ci, err)
				canon += "Rt"
				if definite > 0 {
					fail("request-lost", "Recv on ctx %d returned %v although %d requests were pending", ci, err, definite)
				} else if err != mangos.ErrRecvTimeout {
					fail("recv-error", "Recv on ctx %d returned %v, want ErrRecvTimeout", ci, err)
				} else if el < d {
					fail("timeout-early", "Recv timed out after %v < %v", el, d)
				}
				// a failed Recv may or may not keep the previous request answerable; see send
				c.recvFailed = true
				return
			}
			body := string(m.Body)
			hdr := append([]byte(nil), m.Header...)
			m.Free()
			var found *reqInfo
			for _, p := range pipes {
				if len(p.pending) > 0 && p.pending[0].tag == body {
					found = p.pending[0]
					p.pending = p.pending[1:]
					break
				}
			}
			logf("recv(ctx%d)=%q", ci, body)
			canon += "R"
			if found == nil {
				fail("unexpected-request", "Recv on ctx %d returned %q which is not the oldest pending request of any pipe (definite %d, maybe %d)", ci, body, definite, maybe)
				return
			}
			if raw {
				want := make([]byte, 4)
				binary.BigEndian.PutUint32(want, found.pipe.id)
				want = append(want, found.prefix...)
				if !bytes.Equal(hdr, want) {
					fail("raw-header", "raw RecvMsg header %x, want pipe id||routing words||id = %x", hdr, want)
				}
				c.hdr = hdr
			} else if len(hdr) != 0 {
				fail("cooked-header", "cooked RecvMsg exposed a header %x", hdr)
			}
			c.last = found
			c.recvFailed = false
		}

		// sendOn replies on context ci.
		sendOn := func(ci int, hdrOverride []byte, overrideKind string) {
			c := ctxs[ci]
			seq++
			body := fmt.Sprintf("REPLY%d-by-ctx%d", seq, ci)
			msg := mangos.NewMessage(len(body))
			msg.Body = append(msg.Body, body...)
			last := c.last
			if raw {
				if hdrOverride != nil {
					msg.Header = append(msg.Header, hdrOverride...)
					last = nil
				} else if c.hdr != nil {
					msg.Header = append(msg.Header, c.hdr...)
				}
			}
			before := map[*mpipe]int{}
			for _, p := range pipes {
				before[p] = p.p.SentCount()
			}
			err := c.c.SendMsg(msg)
			logf("send(ctx%d%s)=%v", ci, overrideKind, err)
			canon += "S" + overrideKind
			if !raw {
				c.last = nil
				if last == nil {
					if err != mangos.ErrProtoState {
						fail("send-without-request", "Send on ctx %d with no request pending returned %v, want ErrProtoState", ci, err)
					}
					if err != nil {
						msg.Free()
					}
					return
				}
				if err == mangos.ErrProtoState && c.recvFailed {
					// tolerated only after a failed Recv reset the context (respondent does that)
					msg.Free()
					canon += "p"
					return
				}
			} else {
				c.hdr = nil
				c.last = nil
				if last == nil {
					// raw send with a header that names no live pipe / no header: silently discarded
					if err != nil {
						fail("raw-send-error", "raw SendMsg with %s header returned %v, want nil (discard)", overrideKind, err)
						msg.Free()
					}
					return
				}
			}
			if err != nil {
				fail("send-error", "reply on ctx %d failed: %v", ci, err)
				msg.Free()
				return
			}
			if last.pipe.dropped {
				dropBeforeReply = true
				canon += "d"
				return // must be discarded: the final log comparison proves nothing was transmitted
			}
			want := append(append([]byte{}, last.prefix...), body...)
			last.pipe.expect = append(last.pipe.expect, want)
			if !last.pipe.p.WaitSent(len(last.pipe.expect), 3*time.Second) {
				fail("reply-not-sent", "reply to %q was not transmitted on pipe %d within 3s", last.tag, last.pipe.idx)
				return
			}
			got := last.pipe.p.SentLog()[len(last.pipe.expect)-1].Data
			if !bytes.Equal(got, want) {
				fail("reply-bytes", "pipe %d transmitted %x, want routing header||id||body = %x (request %q)", last.pipe.idx, got, want, last.tag)
			}
		}

		acts := map[string]func(*rapid.T){
			"request": func(t *rapid.T) {
				lp := livePipes()
				p := lp[rapid.IntRange(0, len(lp)-1).Draw(t, "pipe")]
				if !buffered && len(p.pending) > 0 {
					t.Skip("rep: one request per pipe in flight")
				}
				if len(p.pending) >= 8 {
					t.Skip("enough pending")
				}
				depth := rapid.IntRange(0, 7).Draw(t, "depth")
				if rapid.Bool().Draw(t, "shallow") {
					depth = depth % 2
				}
				words := make([]byte, 0, 4*depth)
				for i := 0; i < depth; i++ {
					w := rapid.Uint32().Draw(t, "word") & 0x7fffffff
					words = append(words, byte(w>>24), byte(w>>16), byte(w>>8), byte(w))
				}
				if inject(p, depth, words) != nil {
					logf("request(pipe%d,depth%d,%x)", p.idx, depth, words)
					canon += fmt.Sprintf("Q%d", depth)
				}
			},
			"recv": func(t *rapid.T) {
				ci := rapid.IntRange(0, len(ctxs)-1).Draw(t, "ctx")
				recvOn(ci)
			},
			"send": func(t *rapid.T) {
				ci := rapid.IntRange(0, len(ctxs)-1).Draw(t, "ctx")
				if raw && ctxs[ci].hdr == nil {
					t.Skip("raw: nothing received")
				}
				sendOn(ci, nil, "")
			},
			"sendBadHeader": func(t *rapid.T) {
				if !raw {
					t.Skip("raw only")
				}
				var hdr []byte
				k := rapid.SampledFrom([]string{"unknownpipe", "vanished", "short"}).Draw(t, "k")
				switch k {
				case "unknownpipe":
					hdr = []byte{0x7f, 0xff, 0xff, 0xfe, 0x80, 0, 0, 1}
				case "vanished":
					var v *mpipe
					for _, p := range pipes {
						if p.dropped {
							v = p
						}
					}
					if v == nil {
						t.Skip("no vanished pipe")
					}
					hdr = make([]byte, 8)
					binary.BigEndian.PutUint32(hdr, v.id)
					hdr[4] = 0x80
				case "short":
					hdr = []byte{1, 2}
				}
				sendOn(0, hdr, ":"+k)
			},
			"dropPipe": func(t *rapid.T) {
				lp := livePipes()
				if len(lp) < 2 {
					t.Skip("keep one")
				}
				p := lp[rapid.IntRange(0, len(lp)-1).Draw(t, "pipe")]
				n0 := ev.Detached()
				_ = p.p.Close()
				// rep's receiver holds a pending request in an unbuffered hand-off and only notices
				// the loss when it reads again, so detach is prompt only without a pending request.
				if (buffered || len(p.pending) == 0) && !ev.WaitDetached(n0+1, 3*time.Second) {
					fail("no-detach", "dropped pipe %d not detached", p.idx)
				}
				p.dropped = true
				logf("dropPipe(%d)", p.idx)
				canon += "D"
			},
			"addPipe": func(t *rapid.T) {
				if len(livePipes()) >= 4 {
					t.Skip("enough")
				}
				addPipe()
				logf("addPipe")
				canon += "P"
			},
			"closeCtx": func(t *rapid.T) {
				// a context is closed, possibly with a received request it has not answered: later calls
				// on it fail with a closed error, nothing is transmitted for it, the others carry on
				if raw || len(ctxs) < 2 {
					t.Skip("needs an extra context")
				}
				ci := rapid.IntRange(1, len(ctxs)-1).Draw(t, "ctx")
				c := ctxs[ci]
				pending := c.last != nil
				if err := c.c.Close(); err != nil {
					fail("context-close", "Close of ctx %d: %v", ci, err)
					return
				}
				msg := mangos.NewMessage(8)
				msg.Body = append(msg.Body, "too-late"...)
				var serr, rerr error
				if !fixture.Within(3*time.Second, func() { serr = c.c.SendMsg(msg); _, rerr = c.c.RecvMsg() }) {
					fail("closed-context-blocks", "Send/Recv on the closed ctx %d did not return within 3s", ci)
					return
				}
				if serr != mangos.ErrClosed || rerr != mangos.ErrClosed {
					fail("closed-context-usable", "after Close, ctx %d (request pending: %v): Send=%v Recv=%v, want ErrClosed for both", ci, pending, serr, rerr)
				}
				if serr != nil {
					msg.Free()
				}
				ctxs = append(ctxs[:ci], ctxs[ci+1:]...)
				logf("closeCtx(%d,pending=%v)", ci, pending)
				canon += "X"
				if pending {
					closedWithRequest = true
				}
			},
			"openCtx": func(t *rapid.T) {
				if raw || len(ctxs) >= 3 {
					t.Skip("n/a")
				}
				c, err := sock.OpenContext()
				if err != nil {
					fail("opencontext", "OpenContext: %v", err)
					return
				}
				_ = c.SetOption(mangos.OptionSendDeadline, 3*time.Second)
				ctxs = append(ctxs, &mctx{c: c})
				logf("openCtx")
				canon += "O"
			},
		}
		acts["request2"] = acts["request"]
		acts["request3"] = acts["request"]
		acts["recv2"] = acts["recv"]
		acts["recv3"] = acts["recv"]
		acts["send2"] = acts["send"]
		acts["send3"] = acts["send"]
		t.Repeat(acts)

		// Sentinel round: drain what is pending, then one request/reply per live pipe; afterwards
		// each pipe's log must equal the model exactly (nothing extra was ever transmitted).
		for guard := 0; guard < 64; guard++ {
			n := 0
			for _, p := range pipes {
				if !p.dropped {
					n += len(p.pending)
				}
			}
			if n == 0 {
				break
			}
			recvOn(0)
			if raw && ctxs[0].hdr != nil || !raw && ctxs[0].last != nil {
				sendOn(0, nil, "")
			}
		}
		for _, p := range livePipes() {
			if len(p.pending) > 0 {
				continue
			}
			r := inject(p, 0, nil)
			if r == nil {
				continue
			}
			logf("sentinel(pipe%d)", p.idx)
			ctxs[0].last, ctxs[0].hdr = nil, nil
			// maybe-pending requests of dropped pipes may come first (respondent keeps them queued)
			for guard := 0; guard < 200 && ctxs[0].last != r; guard++ {
				recvOn(0)
				if ctxs[0].last == nil {
					break
				}
				if ctxs[0].last != r {
					sendOn(0, nil, "")
				}
			}
			if ctxs[0].last == r {
				sendOn(0, nil, "")
			}
		}
		for _, p := range pipes {
			log := p.p.SentLog()
			if len(log) != len(p.expect) {
				var extra []byte
				if len(log) > len(p.expect) {
					extra = log[len(p.expect)].Data
				}
				fail("extra-or-missing", "pipe %d (dropped=%v) transmitted %d messages, model expects %d; first unexpected: %x", p.idx, p.dropped, len(log), len(p.expect), extra)
				break
			}
			for i := range log {
				if !bytes.Equal(log[i].Data, p.expect[i]) {
					fail("log-mismatch", "pipe %d message %d is %x, model expects %x", p.idx, i, log[i].Data, p.expect[i])
					break
				}
			}
		}

		stats.Eval()
		stats.Class("kind:" + kind)
		nt := false
		if maxOutstanding >= 2 {
			stats.Class("multi_pipe_outstanding")
			nt = true
		}
		if maxDepth >= 1 {
			stats.Class("depth>=1")
			nt = true
		}
		if closedWithRequest {
			stats.Class("context_closed_with_unanswered_request")
		}
		if dropBeforeReply {
			stats.Class("drop_before_reply")
			nt = true
		}
		if nt {
			stats.NonTrivial(canon)
		}
		stats.Sample(map[string]interface{}{"socket": kind, "trace": trace})
	})
}
