package c13

import (
	"crypto/tls"
	"fmt"
	"net"
	"net/http"
	"net/http/httptest"
	"os"
	"strings"
	"testing"
	"time"

	"go.nanomsg.org/mangos/v3"
	"go.nanomsg.org/mangos/v3/transport/ws"
	"go.nanomsg.org/mangos/v3/verifharness/fixture"
	"go.nanomsg.org/mangos/v3/verifharness/stats"
	"pgregory.net/rapid"
)

// TestC13WsHandlerMode: the WebSocket listener is not started by mangos; its http.Handler
// (WEBSOCKET-HANDLER) or mux (WEBSOCKET-MUX) is mounted in the application's own HTTP or HTTPS
// server, the documented way of sharing a web server.  The pipes' read-only facts must describe the
// connection that really exists: TLS-STATE on both ends exactly when the server speaks TLS (complete,
// same version and cipher suite on both ends), LOCAL/REMOTE-ADDR mirrored, Listener()/Dialer()
// identity, and traffic passes.
func TestC13WsHandlerMode(t *testing.T) {
	stats.ScaledChecks(12, 4, func() {
		rapid.Check(t, func(t *rapid.T) {
			useTLS := rapid.Bool().Draw(t, "https")
			via := rapid.SampledFrom([]string{"handler", "mux"}).Draw(t, "via")
			proto := rapid.SampledFrom([]string{"pair", "bus", "rep", "pub"}).Draw(t, "proto")
			scheme := rapid.SampledFrom([]string{"ws", "wss"}).Draw(t, "listenerScheme") // irrelevant in this mode: mangos does not open the port
			doc := map[string]interface{}{"test": "TestC13WsHandlerMode", "https": useTLS, "via": via, "proto": proto, "listener_scheme": scheme, "rseed": os.Getenv("VERIF_RSEED")}
			fail := func(k, f string, a ...interface{}) {
				stats.Fail(t, "C13:ws-handler-"+k, doc, "%s listener (%s://) served through its %s by the application's own server (https=%v): %s", proto, scheme, via, useTLS, fmt.Sprintf(f, a...))
			}
			p := fixture.ByName(proto)
			ls, ds := fixture.New(p.Name), fixture.New(p.PeerName)
			defer ls.Close()
			defer ds.Close()
			lev, dev := fixture.Hook(ls), fixture.Hook(ds)
			lopts := map[string]interface{}{}
			if scheme == "wss" {
				lopts[mangos.OptionTLSConfig] = fixture.TLSServer()
			}
			// (in mux mode the listener also serves on its own address: a fresh port; in handler mode it never opens one)
			l, err := ls.NewListener(fixture.Addr(scheme), lopts)
			if err != nil {
				t.Fatalf("harness: %v", err)
			}
			var h http.Handler
			if via == "handler" {
				v, err := l.GetOption(ws.OptionWebSocketHandler)
				if err != nil {
					fail("option", "GetOption(WEBSOCKET-HANDLER): %v", err)
					return
				}
				mux := http.NewServeMux()
				mux.Handle("/sp", v.(http.Handler))
				h = mux
			} else {
				v, err := l.GetOption(ws.OptionWebSocketMux)
				if err != nil {
					fail("option", "GetOption(WEBSOCKET-MUX): %v", err)
					return
				}
				h = v.(*http.ServeMux)
			}
			var hts *httptest.Server
			if useTLS {
				hts = httptest.NewTLSServer(h)
			} else {
				hts = httptest.NewServer(h)
			}
			defer hts.Close()
			if err := l.Listen(); err != nil {
				if via == "mux" {
					t.Skip("port busy")
				}
				fail("listen", "Listen (accept loop only) failed: %v", err)
				return
			}
			url := "ws://" + strings.TrimPrefix(hts.URL, "http://") + "/sp"
			dopts := map[string]interface{}{}
			if useTLS {
				url = "wss://" + strings.TrimPrefix(hts.URL, "https://") + "/sp"
				dopts[mangos.OptionTLSConfig] = &tls.Config{InsecureSkipVerify: true}
			}
			d, err := ds.NewDialer(url, dopts)
			if err != nil {
				t.Fatalf("harness: %v", err)
			}
			if err := d.Dial(); err != nil {
				fail("dial", "dialing %s: %v", url, err)
				return
			}
			if !lev.WaitAttached(1, 5*time.Second) || !dev.WaitAttached(1, 5*time.Second) {
				fail("no-attach", "no pipe attached on both sides within 5s")
				return
			}
			lp, dp := lev.PipeList()[0], dev.PipeList()[0]
			if lp.Listener() != l || lp.Dialer() != nil || dp.Dialer() != d || dp.Listener() != nil {
				fail("endpoint-identity", "Listener()/Dialer() of the two pipes do not name the endpoints that made them")
			}
			for side, pp := range map[string]mangos.Pipe{"listener": lp, "dialer": dp} {
				v, err := pp.GetOption(mangos.OptionTLSConnState)
				if !useTLS {
					if err == nil {
						fail("tls-state", "%s-side pipe of a plain connection reports TLS-STATE %T", side, v)
					}
					continue
				}
				cs, ok := v.(tls.ConnectionState)
				if err != nil || !ok {
					fail("tls-state", "%s-side pipe of a TLS connection: TLS-STATE = (%T, %v)", side, v, err)
					continue
				}
				if !cs.HandshakeComplete || cs.Version == 0 {
					fail("tls-state", "%s-side TLS-STATE reports HandshakeComplete=%v Version=%#x", side, cs.HandshakeComplete, cs.Version)
				}
			}
			if useTLS {
				a, e1 := lp.GetOption(mangos.OptionTLSConnState)
				b, e2 := dp.GetOption(mangos.OptionTLSConnState)
				if e1 == nil && e2 == nil {
					x, _ := a.(tls.ConnectionState)
					y, _ := b.(tls.ConnectionState)
					if x.Version != y.Version || x.CipherSuite != y.CipherSuite {
						fail("tls-state", "the two ends report different TLS parameters: %#x/%#x vs %#x/%#x", x.Version, x.CipherSuite, y.Version, y.CipherSuite)
					}
				}
			}
			addr := func(pp mangos.Pipe, n string) string {
				v, err := pp.GetOption(n)
				a, ok := v.(net.Addr)
				if err != nil || !ok || a == nil {
					fail("addr-option", "Pipe.GetOption(%s) = (%T, %v)", n, v, err)
					return ""
				}
				return a.String()
			}
			ll, lr, dl, dr := addr(lp, mangos.OptionLocalAddr), addr(lp, mangos.OptionRemoteAddr), addr(dp, mangos.OptionLocalAddr), addr(dp, mangos.OptionRemoteAddr)
			if ll != dr || lr != dl {
				fail("addr-mismatch", "listener pipe local/remote %s/%s, dialer pipe local/remote %s/%s", ll, lr, dl, dr)
			}
			// traffic: from the side that can send to the side that can receive
			from, to := ds, ls
			if !p.CanRecv {
				from, to = ls, ds
			}
			if p.PeerName == "sub" {
				_ = ds.SetOption(mangos.OptionSubscribe, "")
				time.Sleep(20 * time.Millisecond)
			}
			_ = to.SetOption(mangos.OptionRecvDeadline, 3*time.Second)
			if err := from.Send([]byte("through-the-shared-server")); err != nil {
				fail("traffic", "Send: %v", err)
				return
			}
			if b, err := to.Recv(); err != nil || string(b) != "through-the-shared-server" {
				fail("traffic", "Recv = (%q, %v)", b, err)
				return
			}
			stats.Eval()
			stats.Class(fmt.Sprintf("ws_handler_mode:https=%v", useTLS))
			stats.NonTrivial(fmt.Sprintf("WH|%v|%s|%s|%s", useTLS, via, proto, scheme))
			stats.Sample(doc)
		})
	})
}
