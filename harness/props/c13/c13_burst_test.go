package c13

import (
	"fmt"
	"net"
	"os"
	"strings"
	"sync"
	"testing"
	"time"

	"go.nanomsg.org/mangos/v3"
	"go.nanomsg.org/mangos/v3/verifharness/fixture"
	"go.nanomsg.org/mangos/v3/verifharness/stats"
	"pgregory.net/rapid"
)

// TestC13BurstArrivals: several connections arrive while the listening socket's accept loop is
// held inside the Attaching callback of an earlier one, so they queue up inside the transport.
// Once the loop runs again every connection must become exactly one pipe: as many Attaching and
// Attached events as connections, distinct ids, every remote address (where the transport has
// them) seen once, and every dialer's traffic arrives.
func TestC13BurstArrivals(t *testing.T) {
	stats.ScaledChecks(12, 4, func() {
		rapid.Check(t, func(t *rapid.T) {
			tr := rapid.SampledFrom([]string{"ws", "ws", "wss", "tcp", "ipc", "tls+tcp", "inproc"}).Draw(t, "transport")
			n := rapid.IntRange(2, 5).Draw(t, "queued")
			holdMs := rapid.SampledFrom([]int{20, 60}).Draw(t, "holdMs")
			silent := tr != "inproc" && rapid.Bool().Draw(t, "silentConnectionFirst")
			doc := map[string]interface{}{"test": "TestC13BurstArrivals", "transport": tr, "queued": n, "hold_ms": holdMs, "silent_first": silent, "rseed": os.Getenv("VERIF_RSEED")}
			fail := func(k, f string, a ...interface{}) {
				stats.Fail(t, "C13:burst-"+k, doc, "%s, %d connections queued behind a held accept loop: %s", tr, n, fmt.Sprintf(f, a...))
			}
			srv := fixture.New("pull")
			defer fixture.Within(3*time.Second, func() { _ = srv.Close() }) // a wedged listener must not wedge the report
			var mu sync.Mutex
			attaching, attached := 0, 0
			ids := map[uint32]int{}
			remotes := map[string]int{}
			gate := make(chan struct{})
			first := true
			srv.SetPipeEventHook(func(ev mangos.PipeEvent, p mangos.Pipe) {
				mu.Lock()
				hold := false
				switch ev {
				case mangos.PipeEventAttaching:
					attaching++
					hold = first
					first = false
				case mangos.PipeEventAttached:
					attached++
					ids[p.ID()]++
					if v, err := p.GetOption(mangos.OptionRemoteAddr); err == nil {
						remotes[fmt.Sprint(v)]++
					}
				}
				mu.Unlock()
				if hold {
					<-gate
				}
			})
			addr, _, err := fixture.Listen(srv, tr)
			if err != nil {
				t.Skip("port busy")
			}
			mk := func(tag string) mangos.Socket {
				c := fixture.New("push")
				_ = c.SetOption(mangos.OptionSendDeadline, 50*time.Millisecond)
				opts := fixture.DialOpts(tr)
				if opts == nil {
					opts = map[string]interface{}{}
				}
				opts[mangos.OptionDialAsynch] = true
				opts[mangos.OptionReconnectTime] = time.Hour // one attempt each: a lost connection must show
				if err := c.DialOptions(addr, opts); err != nil {
					t.Fatalf("harness: %v", err)
				}
				return c
			}
			if silent {
				// somebody connected earlier and never says a word: that is nobody else's problem
				network, a := "tcp", addr[strings.Index(addr, "://")+3:]
				if tr == "ipc" {
					network = "unix"
				} else if i := strings.Index(a, "/"); i >= 0 {
					a = a[:i]
				}
				if c, err := net.DialTimeout(network, a, 2*time.Second); err == nil {
					defer c.Close()
					time.Sleep(5 * time.Millisecond)
				}
				stats.Class("burst_with_silent_connection")
			}
			holder := mk("holder")
			defer fixture.Within(3*time.Second, func() { _ = holder.Close() })
			dl := time.Now().Add(5 * time.Second)
			for {
				mu.Lock()
				a := attaching
				mu.Unlock()
				if a >= 1 {
					break
				}
				if time.Now().After(dl) {
					close(gate)
					if silent {
						fail("stalled-by-silent-connection", "with one connection open that never sent its header, a well-behaved peer that connected afterwards did not reach the Attaching callback within 5s")
						return
					}
					t.Fatalf("harness: first connection never reached the callback")
				}
				time.Sleep(time.Millisecond)
			}
			clis := make([]mangos.Socket, n)
			for i := range clis {
				clis[i] = mk(fmt.Sprintf("c%d", i))
				defer func(c mangos.Socket) { fixture.Within(3*time.Second, func() { _ = c.Close() }) }(clis[i])
			}
			time.Sleep(time.Duration(holdMs) * time.Millisecond)
			close(gate)
			// every client's tag must arrive
			_ = srv.SetOption(mangos.OptionRecvDeadline, 50*time.Millisecond)
			seen := map[string]bool{}
			deadline := time.Now().Add(5 * time.Second)
			for len(seen) < n && time.Now().Before(deadline) {
				for i, c := range clis {
					if !seen[fmt.Sprintf("c%d", i)] {
						_ = c.Send([]byte(fmt.Sprintf("c%d", i)))
					}
				}
				for {
					b, err := srv.Recv()
					if err != nil {
						break
					}
					seen[string(b)] = true
				}
			}
			mu.Lock()
			a0, a1 := attaching, attached
			dupID, dupRemote := "", ""
			for id, k := range ids {
				if k > 1 {
					dupID = fmt.Sprintf("%#x (%d times)", id, k)
				}
			}
			for r, k := range remotes {
				if k > 1 && tr != "inproc" && tr != "ipc" {
					dupRemote = fmt.Sprintf("%s (%d times)", r, k)
				}
			}
			mu.Unlock()
			switch {
			case a1 > n+1 || a0 > n+1:
				fail("extra-pipes", "%d Attaching / %d Attached events for %d connections", a0, a1, n+1)
			case dupRemote != "":
				fail("connection-attached-twice", "the connection from %s was attached as more than one pipe", dupRemote)
			case dupID != "":
				fail("id-twice", "pipe id %s attached more than once", dupID)
			case len(seen) < n:
				fail("connection-lost", "only %d of the %d queued connections carried traffic within 5s (%d Attached events for %d connections): a connection that completed the transport handshake was never made a pipe", len(seen), n, a1, n+1)
			}
			stats.Eval()
			stats.Class("burst:" + tr)
			stats.NonTrivial(fmt.Sprintf("BA|%s|%d|%d", tr, n, holdMs))
			stats.Sample(doc)
		})
	})
}
