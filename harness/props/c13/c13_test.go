// C13 — every pipe gets a consistent lifecycle and a unique id.
//
// (A) Lifecycle: a recording protocol (thin wrapper around a real one, passed to
// the public protocol.MakeSocket) counts AddPipe/RemovePipe; the event hook logs
// every event and executes a generated per-pipe plan (close in Attaching, close
// in Attached, close later, peer-side drop, protocol refusal, leave until socket
// close); connections arrive on the listener side and on the dialer side through
// the virtual transport, with traffic in between.  Oracle: per-pipe event grammar,
// AddPipe/RemovePipe pairing, id range/uniqueness, allocator cross-check (verif
// hook), and "the next connection still attaches" after every refusal.
// (B) Real transports: Pipe.Address/Dialer/Listener and the read-only pipe options
// describe the actual connection.
package c13

import (
	"crypto/tls"
	"fmt"
	"net"
	"os"
	"sync"
	"testing"
	"time"

	"go.nanomsg.org/mangos/v3"
	"go.nanomsg.org/mangos/v3/internal/core"
	"go.nanomsg.org/mangos/v3/protocol"
	"go.nanomsg.org/mangos/v3/protocol/xbus"
	"go.nanomsg.org/mangos/v3/protocol/xpair"
	"go.nanomsg.org/mangos/v3/protocol/xrep"
	"go.nanomsg.org/mangos/v3/verifharness/fixture"
	"go.nanomsg.org/mangos/v3/verifharness/stats"
	"go.nanomsg.org/mangos/v3/verifharness/vt"
	"pgregory.net/rapid"
)

func TestMain(m *testing.M) {
	stats.Init("C13")
	stats.Rule("(A) 1-40 connections (thorough: up to 200) per case, each on the listener or dialer side of a socket built from a recording wrapper around {xbus,xpair,xrep}, each with a drawn plan {closeInAttaching, closeInAttached, closeLater, peerDrop, protoRefuse, leave}, with traffic in between and a final socket close; (B) 6 real transports x {listener,dialer} side pipe facts. Also: plan closeRacingAttach (Close 0-40 us after the Attaching callback), 0-2 refused dial attempts before a dialer-side connection; (C) 2-5 connections queued behind a held accept loop on 7 transports. Non-trivial: the case contains a hook-side close or a refusal, or >=20 pipes of churn; distinct by (base protocol, plan sequence). Round 5: callbacks that close the pipe may linger 3-8 ms (> reconnect time); ws listener in handler/mux mode served by the application's own HTTP or HTTPS server")
	rc := m.Run()
	stats.Flush()
	fixture.Cleanup()
	os.Exit(rc)
}

// recorder wraps a protocol and counts pipe arrivals/departures.
type recorder struct {
	protocol.Protocol
	mu     sync.Mutex
	adds   map[uint32]int
	rems   map[uint32]int
	addOK  map[uint32]bool
	refuse map[int]bool // refuse the n-th AddPipe call (0-based)
	ncalls int
	order  []string
}

func (r *recorder) AddPipe(p protocol.Pipe) error {
	r.mu.Lock()
	n := r.ncalls
	r.ncalls++
	r.adds[p.ID()]++
	ref := r.refuse[n]
	r.order = append(r.order, fmt.Sprintf("add:%d", p.ID()))
	r.mu.Unlock()
	if ref {
		return mangos.ErrProtoState
	}
	err := r.Protocol.AddPipe(p)
	if err == nil {
		r.mu.Lock()
		r.addOK[p.ID()] = true
		r.mu.Unlock()
	}
	return err
}

func (r *recorder) RemovePipe(p protocol.Pipe) {
	r.mu.Lock()
	r.rems[p.ID()]++
	r.order = append(r.order, fmt.Sprintf("rem:%d", p.ID()))
	r.mu.Unlock()
	r.Protocol.RemovePipe(p)
}

type pinfo struct {
	id               uint32
	events           []mangos.PipeEvent
	pipe             mangos.Pipe
	detachedReturned bool
}

func contains(ids []uint32, id uint32) bool {
	for _, x := range ids {
		if x == id {
			return true
		}
	}
	return false
}

func TestC13Lifecycle(t *testing.T) {
	rapid.Check(t, func(t *rapid.T) {
		base := rapid.SampledFrom([]string{"xbus", "xbus", "xpair", "xrep"}).Draw(t, "base")
		var inner protocol.Protocol
		switch base {
		case "xbus":
			inner = xbus.NewProtocol()
		case "xpair":
			inner = xpair.NewProtocol()
		case "xrep":
			inner = xrep.NewProtocol()
		}
		rec := &recorder{Protocol: inner, adds: map[uint32]int{}, rems: map[uint32]int{}, addOK: map[uint32]bool{}, refuse: map[int]bool{}}
		sock := protocol.MakeSocket(rec)
		closed := false
		defer func() {
			if !closed {
				_ = sock.Close()
			}
		}()
		maxConn := 40
		if stats.Thorough() && rapid.IntRange(0, 9).Draw(t, "churn") == 0 {
			maxConn = 200
		}
		nconn := rapid.IntRange(1, maxConn).Draw(t, "nconn")
		plans := make([]string, nconn)
		sides := make([]string, nconn)
		kinds := []string{"closeInAttaching", "closeInAttached", "closeLater", "peerDrop", "protoRefuse", "closeRacingAttach", "leave", "leave"}
		raceUs := make([]int, nconn)    // closeRacingAttach: Close lands this long after the Attaching callback returned
		dialFails := make([]int, nconn) // dialer side: this many attempts fail before the connection is made
		lingerMs := make([]int, nconn)  // closeInAttaching / closeInAttached: the callback stays busy this long after closing the pipe (longer than the dialer's reconnect time)
		for i := range plans {
			plans[i] = rapid.SampledFrom(kinds).Draw(t, "plan")
			sides[i] = rapid.SampledFrom([]string{"listener", "dialer"}).Draw(t, "side")
			if plans[i] == "closeRacingAttach" {
				raceUs[i] = rapid.SampledFrom([]int{0, 1, 2, 3, 5, 8, 13, 20, 40}).Draw(t, "raceUs")
			}
			if plans[i] == "closeInAttaching" || plans[i] == "closeInAttached" {
				lingerMs[i] = rapid.SampledFrom([]int{0, 0, 0, 3, 8}).Draw(t, "hookLingersMs")
			}
			if sides[i] == "dialer" && rapid.IntRange(0, 3).Draw(t, "dialFails") == 0 {
				dialFails[i] = rapid.IntRange(1, 2).Draw(t, "nDialFails")
			}
		}
		doc := map[string]interface{}{"test": "TestC13Lifecycle", "base": base, "plans": plans, "sides": sides, "race_us": raceUs, "dial_fails": dialFails, "hook_lingers_ms": lingerMs, "rseed": os.Getenv("VERIF_RSEED")}
		var fmu sync.Mutex
		var failures [][2]string
		fail := func(k, f string, a ...interface{}) {
			fmu.Lock()
			failures = append(failures, [2]string{k, fmt.Sprintf(f, a...)})
			fmu.Unlock()
		}
		defer func() {
			fmu.Lock()
			defer fmu.Unlock()
			if len(failures) > 0 {
				stats.Fail(t, "C13:"+failures[0][0], doc, "base=%s: %s (plans %v sides %v)", base, failures[0][1], plans, sides)
			}
		}()
		nfail := func() int { fmu.Lock(); defer fmu.Unlock(); return len(failures) }

		// event log
		var mu sync.Mutex
		cv := sync.NewCond(&mu)
		infos := map[mangos.Pipe]*pinfo{}
		var arrival []*pinfo
		live := map[uint32]mangos.Pipe{}
		curPlan := "" // plan of the connection being established (connections are made one at a time)
		curRace := 0
		curLinger := 0
		sock.SetPipeEventHook(func(ev mangos.PipeEvent, p mangos.Pipe) {
			// The id must be allocated on entry to every callback (checked before the event becomes
			// visible to the harness, which may then close the pipe and thereby end its life).
			// (Not for Attached: the statement lets Detached overtake an Attached that "is being reported".)
			if ev != mangos.PipeEventAttached && !contains(core.VerifPipeIDsInUse(), p.ID()) {
				fail("id-not-allocated", "on entry to the callback for event %d the allocator does not list pipe id %#x as in use", ev, p.ID())
			}
			mu.Lock()
			pi := infos[p]
			if pi == nil {
				pi = &pinfo{id: p.ID(), pipe: p}
				infos[p] = pi
				arrival = append(arrival, pi)
			}
			pi.events = append(pi.events, ev)
			plan := curPlan
			race := curRace
			linger := time.Duration(curLinger) * time.Millisecond
			id := p.ID()
			switch ev {
			case mangos.PipeEventAttaching:
				if id == 0 || id >= 1<<31 {
					fail("id-range", "pipe id %#x is not a non-zero 31-bit value", id)
				}
				if other, dup := live[id]; dup && other != p {
					fail("id-duplicate", "pipe id %#x handed to a new pipe while another live pipe still has it", id)
				}
				live[id] = p
			}
			cv.Broadcast()
			mu.Unlock()
			switch ev {
			case mangos.PipeEventAttaching:
				if plan == "closeInAttaching" {
					_ = p.Close()
					time.Sleep(linger) // the application's callback is still busy while the dialer's redial timer fires
				}
				if plan == "closeRacingAttach" {
					// somebody else closes the pipe just as the socket goes on to add it
					go func() {
						for t0 := time.Now(); time.Since(t0) < time.Duration(race)*time.Microsecond; {
						}
						_ = p.Close()
					}()
				}
			case mangos.PipeEventAttached:
				if plan == "closeInAttached" {
					_ = p.Close()
					time.Sleep(linger)
				}
			case mangos.PipeEventDetached:
				mu.Lock()
				delete(live, id)
				pi.detachedReturned = true
				cv.Broadcast()
				mu.Unlock()
			}
		})
		waitFor := func(d time.Duration, f func() bool) bool {
			deadline := time.Now().Add(d)
			tm := time.AfterFunc(d, func() { mu.Lock(); cv.Broadcast(); mu.Unlock() })
			defer tm.Stop()
			mu.Lock()
			defer mu.Unlock()
			for !f() {
				if !time.Now().Before(deadline) {
					return false
				}
				cv.Wait()
			}
			return true
		}
		count := func(pi *pinfo, ev mangos.PipeEvent) int {
			n := 0
			for _, e := range pi.events {
				if e == ev {
					n++
				}
			}
			return n
		}

		// listener side
		lep, err := vt.Attach(sock)
		if err != nil {
			t.Fatalf("harness: %v", err)
		}
		defer lep.Forget()
		// dialer side: every attempt waits for a permit carrying the pipe to hand out
		dep := vt.New()
		defer dep.Forget()
		permits := make(chan *vt.Pipe)
		stopDial := make(chan struct{})
		dep.SetDial(func(int) (*vt.Pipe, error) {
			select {
			case p := <-permits:
				if p == nil {
					return nil, mangos.ErrConnRefused
				}
				return p, nil
			case <-stopDial:
				return nil, mangos.ErrClosed
			}
		})
		d, err := sock.NewDialer(dep.Addr, map[string]interface{}{mangos.OptionDialAsynch: true, mangos.OptionReconnectTime: time.Millisecond, mangos.OptionMaxReconnectTime: time.Millisecond})
		if err != nil {
			t.Fatalf("harness: %v", err)
		}
		if err := d.Dial(); err != nil {
			t.Fatalf("harness: %v", err)
		}
		defer close(stopDial)

		var livePipes []*vt.Pipe // vt pipes expected to be attached now
		var liveInfos []*pinfo
		hookSide, refusals := false, 0
		dialFailed, raced := false, 0
		for i := 0; i < nconn && nfail() == 0; i++ {
			plan := plans[i]
			// xpair admits one peer: a second one is a protocol refusal whatever the plan says
			natural := base == "xpair" && len(livePipes) >= 1
			if plan == "protoRefuse" && !natural {
				rec.mu.Lock()
				rec.refuse[rec.ncalls] = true
				rec.mu.Unlock()
			}
			mu.Lock()
			curPlan = plan
			curRace = raceUs[i]
			curLinger = lingerMs[i]
			n0 := len(arrival)
			mu.Unlock()
			var vp *vt.Pipe
			if sides[i] == "listener" {
				vp = lep.Connect()
			} else {
				// a dialer holds one connection at a time: it redials only after its pipe has closed
				busy := false
				for _, pi := range liveInfos {
					if pi.pipe.Dialer() != nil {
						busy = true
					}
				}
				if busy {
					vp = lep.Connect()
					sides[i] = "listener"
				} else {
					vp = dep.NewPipe()
					stopped := false
					for k := 0; k <= dialFails[i] && !stopped; k++ {
						grant := vp
						if k < dialFails[i] {
							grant = nil // this attempt is refused
						}
						select {
						case permits <- grant:
						case <-time.After(3 * time.Second):
							fail("dialer-stopped", "connection %d: the dialer made no further attempt within 3s after the previous connection ended (%d refused attempts before)", i, k)
							stopped = true
						}
					}
					if stopped {
						continue
					}
					if dialFails[i] > 0 {
						dialFailed = true
					}
				}
			}
			if !waitFor(3*time.Second, func() bool { return len(arrival) > n0 }) {
				fail("no-attaching", "connection %d (%s side, plan %s) produced no Attaching event within 3s — the %s no longer accepts connections", i, sides[i], plan, sides[i])
				continue
			}
			mu.Lock()
			pi := arrival[n0]
			mu.Unlock()
			wantAttach := !(plan == "closeInAttaching" || plan == "protoRefuse" || natural)
			if plan == "closeInAttaching" || plan == "closeInAttached" {
				hookSide = true
			}
			if plan == "closeRacingAttach" && !natural {
				// either outcome is fine — never attached, or attached and detached again —
				// but it must be one of them (the grammar is checked at the end)
				raced++
				if !vp.WaitClosed(3 * time.Second) {
					fail("raced-not-closed", "connection %d: a pipe closed %dus after its Attaching callback was not closed", i, raceUs[i])
				}
				waitFor(50*time.Millisecond, func() bool {
					return count(pi, mangos.PipeEventAttached) > 0 && pi.detachedReturned
				})
				mu.Lock()
				if count(pi, mangos.PipeEventAttached) == 0 {
					delete(live, pi.id)
					stats.Class("race_close_won")
				} else {
					stats.Class("race_attach_won")
				}
				mu.Unlock()
				continue
			}
			if !wantAttach {
				if plan != "closeInAttaching" {
					refusals++
				}
				// settles when the transport pipe is closed
				if !vp.WaitClosed(3 * time.Second) {
					fail("refused-not-closed", "connection %d (%s): refused/closed-in-Attaching pipe was not closed", i, plan)
				}
				time.Sleep(time.Millisecond)
				mu.Lock()
				evs := append([]mangos.PipeEvent(nil), pi.events...)
				delete(live, pi.id)
				mu.Unlock()
				if len(evs) != 1 || evs[0] != mangos.PipeEventAttaching {
					fail("refused-events", "connection %d (%s): events %v, want exactly [Attaching]", i, plan, evs)
				}
				continue
			}
			if !waitFor(3*time.Second, func() bool { return count(pi, mangos.PipeEventAttached) > 0 }) {
				fail("no-attached", "connection %d (%s side, plan %s): no Attached event within 3s (events %v)", i, sides[i], plan, pi.events)
				continue
			}
			switch plan {
			case "closeInAttached":
			case "closeLater":
				_ = pi.pipe.Close()
			case "peerDrop":
				_ = vp.Close()
			default: // leave
				livePipes = append(livePipes, vp)
				liveInfos = append(liveInfos, pi)
				// some traffic
				if base == "xbus" && i%3 == 0 {
					m := mangos.NewMessage(8)
					m.Body = append(m.Body, "traffic"...)
					_ = sock.SendMsg(m)
				}
				continue
			}
			if !waitFor(3*time.Second, func() bool { return pi.detachedReturned }) {
				fail("no-detached", "connection %d (plan %s): no Detached event within 3s (events %v)", i, plan, pi.events)
			}
		}
		// all sockets closed: everything must detach
		closed = true
		_ = sock.Close()
		for _, pi := range liveInfos {
			pi := pi
			if !waitFor(3*time.Second, func() bool { return pi.detachedReturned }) {
				fail("no-detached-on-close", "pipe %#x still has no Detached event 3s after socket close (events %v)", pi.id, pi.events)
			}
		}
		time.Sleep(2 * time.Millisecond)
		// per-pipe grammar and protocol notifications
		mu.Lock()
		for _, pi := range arrival {
			a, b, c := count(pi, mangos.PipeEventAttaching), count(pi, mangos.PipeEventAttached), count(pi, mangos.PipeEventDetached)
			if a != 1 || pi.events[0] != mangos.PipeEventAttaching {
				fail("attaching-once-first", "pipe %#x events %v: Attaching must come exactly once and first", pi.id, pi.events)
			}
			if b > 1 || c > 1 || b != c {
				fail("attach-detach-pairing", "pipe %#x events %v: Attached at most once and Detached exactly once iff Attached", pi.id, pi.events)
			}
			rec.mu.Lock()
			adds, rems, ok := rec.adds[pi.id], rec.rems[pi.id], rec.addOK[pi.id]
			rec.mu.Unlock()
			wantAdds := b
			if adds > 1 || rems > 1 {
				fail("protocol-notified-twice", "pipe %#x: AddPipe called %d times, RemovePipe %d times", pi.id, adds, rems)
			}
			if b == 1 && (!ok || rems != 1) {
				fail("protocol-notification", "attached pipe %#x: AddPipe accepted=%v RemovePipe calls=%d, want one of each", pi.id, ok, rems)
			}
			if b == 0 && (ok || rems != 0) {
				fail("protocol-notification", "never-attached pipe %#x: AddPipe accepted=%v RemovePipe calls=%d, want none", pi.id, ok, rems)
			}
			_ = wantAdds
		}
		// RemovePipe after AddPipe
		rec.mu.Lock()
		seenAdd := map[string]bool{}
		for _, o := range rec.order {
			if o[:3] == "add" {
				seenAdd[o[4:]] = true
			} else if !seenAdd[o[4:]] {
				fail("remove-before-add", "RemovePipe(%s) before AddPipe", o[4:])
			}
		}
		rec.mu.Unlock()
		ids := make([]uint32, 0, len(arrival))
		for _, pi := range arrival {
			ids = append(ids, pi.id)
		}
		mu.Unlock()
		// leaks: after quiescence no id of this case is still allocated, no pipe still listed
		deadline := time.Now().Add(3 * time.Second)
		for {
			inUse := core.VerifPipeIDsInUse()
			var leaked []uint32
			for _, id := range ids {
				if contains(inUse, id) {
					leaked = append(leaked, id)
				}
			}
			listed := core.VerifSocketPipes(sock)
			if len(leaked) == 0 && len(listed) == 0 {
				break
			}
			if time.Now().After(deadline) {
				if len(leaked) > 0 {
					fail("id-leak", "%d pipe ids still allocated 3s after the socket was closed (e.g. %#x)", len(leaked), leaked[0])
				} else {
					fail("pipe-list-leak", "socket still lists %d pipes 3s after close", len(listed))
				}
				break
			}
			time.Sleep(5 * time.Millisecond)
		}
		stats.Eval()
		stats.Class("base:" + base)
		for i := range lingerMs {
			if lingerMs[i] > 0 && sides[i] == "dialer" {
				stats.Class("hook_lingers_after_close_dialer_side")
				break
			}
		}
		if hookSide {
			stats.Class("hook_side_close")
		}
		if refusals > 0 {
			stats.Class("protocol_refusal")
		}
		if nconn >= 20 {
			stats.Class("churn>=20")
		}
		if dialFailed {
			stats.Class("dial_attempt_failed_first")
		}
		if raced > 0 {
			stats.Class("close_racing_attach")
		}
		if hookSide || refusals > 0 || nconn >= 20 {
			stats.NonTrivial(fmt.Sprintf("A|%s|%v|%v", base, plans, sides))
		}
		stats.Sample(doc)
	})
}

// ---------------------------------------------------------------------------

const knownTLSState = "C13:tls-state-prehandshake:tls+tcp:listener"

func TestC13PipeFacts(t *testing.T) {
	stats.ScaledChecks(3, 6, func() { rapid.Check(t, factsProp) })
}

func factsProp(t *rapid.T) {
	tr := rapid.SampledFrom(fixture.Transports).Draw(t, "transport")
	proto := rapid.SampledFrom([]string{"bus", "pair", "xpair1", "star"}).Draw(t, "proto")
	hookClose := rapid.Bool().Draw(t, "rejectFirst") // reject the first connection in Attaching, then accept
	rejectSide := rapid.SampledFrom([]string{"listener", "dialer"}).Draw(t, "rejectSide")
	doc := map[string]interface{}{"test": "TestC13PipeFacts", "transport": tr, "proto": proto, "rejectFirst": hookClose, "rejectSide": rejectSide, "rseed": os.Getenv("VERIF_RSEED")}
	fail := func(k, f string, a ...interface{}) {
		stats.Fail(t, "C13:"+k, doc, "%s/%s: %s", tr, proto, fmt.Sprintf(f, a...))
	}
	ls, ds := fixture.New(proto), fixture.New(proto)
	defer ls.Close()
	defer ds.Close()
	type hk struct {
		mu       sync.Mutex
		reject   int
		attached []mangos.Pipe
		rejected int
	}
	mkHook := func(s mangos.Socket, rejectN int) *hk {
		h := &hk{reject: rejectN}
		s.SetPipeEventHook(func(ev mangos.PipeEvent, p mangos.Pipe) {
			h.mu.Lock()
			defer h.mu.Unlock()
			switch ev {
			case mangos.PipeEventAttaching:
				if h.reject > 0 {
					h.reject--
					h.rejected++
					_ = p.Close()
				}
			case mangos.PipeEventAttached:
				h.attached = append(h.attached, p)
			}
		})
		return h
	}
	lrej, drej := 0, 0
	if hookClose {
		if rejectSide == "listener" {
			lrej = 1
		} else {
			drej = 1
		}
	}
	lh, dh := mkHook(ls, lrej), mkHook(ds, drej)
	addr := fixture.Addr(tr)
	anon := (tr == "tcp" || tr == "tls+tcp") && rapid.Bool().Draw(t, "anonymousPort")
	if anon {
		addr = tr + "://127.0.0.1:0"
	}
	l, err := ls.NewListener(addr, fixture.ListenOpts(tr))
	if err != nil {
		t.Fatalf("harness: %v", err)
	}
	if err := l.Listen(); err != nil {
		t.Skip("port busy")
	}
	if anon {
		addr = l.Address() // the address actually bound
		if len(addr) < 2 || addr[len(addr)-2:] == ":0" {
			fail("address", "Listener.Address() after binding an anonymous port is %q", addr)
			return
		}
	}
	dopts := fixture.DialOpts(tr)
	if dopts == nil {
		dopts = map[string]interface{}{}
	}
	dopts[mangos.OptionDialAsynch] = true
	dopts[mangos.OptionReconnectTime] = 2 * time.Millisecond
	dopts[mangos.OptionMaxReconnectTime] = 2 * time.Millisecond
	d, err := ds.NewDialer(addr, dopts)
	if err != nil {
		t.Fatalf("harness: %v", err)
	}
	if err := d.Dial(); err != nil {
		t.Fatalf("harness: %v", err)
	}
	get := func(h *hk) mangos.Pipe {
		deadline := time.Now().Add(5 * time.Second)
		for time.Now().Before(deadline) {
			h.mu.Lock()
			if len(h.attached) > 0 {
				p := h.attached[len(h.attached)-1]
				h.mu.Unlock()
				return p
			}
			h.mu.Unlock()
			time.Sleep(time.Millisecond)
		}
		return nil
	}
	lp, dp := get(lh), get(dh)
	if lp == nil || dp == nil {
		fail("no-attach-after-reject", "no connection was attached within 5s (rejectFirst=%v on the %s side): listener/dialer did not carry on", hookClose, rejectSide)
		return
	}
	// with a rejection the two sides may briefly disagree about which connection is current;
	// wait until both pipes are the same connection (addresses agree) or give up on address pairing
	// identity of creating endpoints
	if lp.Listener() != l || lp.Dialer() != nil {
		fail("endpoint-identity", "listener-side pipe: Listener()==l is %v, Dialer()==nil is %v", lp.Listener() == l, lp.Dialer() == nil)
	}
	if dp.Dialer() != d || dp.Listener() != nil {
		fail("endpoint-identity", "dialer-side pipe: Dialer()==d is %v, Listener()==nil is %v", dp.Dialer() == d, dp.Listener() == nil)
	}
	if lp.Address() != l.Address() {
		fail("address", "listener-side Pipe.Address()=%q, Listener.Address()=%q", lp.Address(), l.Address())
	}
	if dp.Address() != addr {
		fail("address", "dialer-side Pipe.Address()=%q, dialed %q", dp.Address(), addr)
	}
	if lp.ID() == 0 || lp.ID() >= 1<<31 || dp.ID() == 0 || dp.ID() >= 1<<31 || lp.ID() == dp.ID() {
		fail("id-range", "pipe ids %#x / %#x", lp.ID(), dp.ID())
	}
	// unknown options
	for _, n := range []string{"NO-SUCH-OPTION", "", "local-addr", mangos.OptionSubscribe} {
		for _, p := range []mangos.Pipe{lp, dp} {
			v, err := p.GetOption(n)
			if err != mangos.ErrBadOption && err != mangos.ErrBadProperty {
				fail("unknown-option", "Pipe.GetOption(%q) = (%v,%v), want a bad-option error", n, v, err)
			}
		}
	}
	addrOf := func(p mangos.Pipe, n string) (string, bool) {
		v, err := p.GetOption(n)
		if err != nil {
			fail("addr-option", "Pipe.GetOption(%s): %v", n, err)
			return "", false
		}
		a, ok := v.(net.Addr)
		if !ok || a == nil {
			fail("addr-option", "Pipe.GetOption(%s) = %T, want net.Addr", n, v)
			return "", false
		}
		return a.String(), true
	}
	ll, ok1 := addrOf(lp, mangos.OptionLocalAddr)
	lr, ok2 := addrOf(lp, mangos.OptionRemoteAddr)
	dl, ok3 := addrOf(dp, mangos.OptionLocalAddr)
	dr, ok4 := addrOf(dp, mangos.OptionRemoteAddr)
	if ok1 && ok2 && ok3 && ok4 && !hookClose {
		switch tr {
		case "tcp", "tls+tcp", "ws", "wss":
			if ll != dr || lr != dl {
				fail("addr-mismatch", "listener pipe local/remote %s/%s, dialer pipe local/remote %s/%s: the two ends describe different connections", ll, lr, dl, dr)
			}
		case "ipc":
			if ll != dr {
				fail("addr-mismatch", "ipc: listener local %q != dialer remote %q", ll, dr)
			}
		}
	}
	if tr == "ipc" {
		for n, want := range map[string]int{mangos.OptionPeerPID: os.Getpid(), mangos.OptionPeerUID: os.Getuid(), mangos.OptionPeerGID: os.Getgid()} {
			for side, p := range map[string]mangos.Pipe{"listener": lp, "dialer": dp} {
				v, err := p.GetOption(n)
				if err != nil {
					fail("ipc-peer-creds", "%s-side Pipe.GetOption(%s): %v", side, n, err)
				} else if v != want {
					fail("ipc-peer-creds", "%s-side %s = %v, want %d (this process)", side, n, v, want)
				}
			}
		}
	}
	if tr == "tls+tcp" || tr == "wss" {
		for side, p := range map[string]mangos.Pipe{"listener": lp, "dialer": dp} {
			v, err := p.GetOption(mangos.OptionTLSConnState)
			cs, ok := v.(tls.ConnectionState)
			if err != nil || !ok {
				fail("tls-state", "%s-side TLS-STATE = (%T,%v)", side, v, err)
				continue
			}
			if !cs.HandshakeComplete || cs.Version == 0 {
				key := "tls-state-prehandshake:" + tr + ":" + side
				if "C13:"+key == knownTLSState && stats.Known(knownTLSState) {
					stats.Excluded(knownTLSState)
					continue
				}
				fail(key, "%s-side TLS-STATE reports HandshakeComplete=%v Version=%#x on an established TLS connection", side, cs.HandshakeComplete, cs.Version)
			}
		}
	} else {
		for side, p := range map[string]mangos.Pipe{"listener": lp, "dialer": dp} {
			if v, err := p.GetOption(mangos.OptionTLSConnState); err == nil {
				fail("tls-state", "%s-side pipe of non-TLS transport reports TLS-STATE %v", side, v)
			}
		}
	}
	stats.Eval()
	stats.Class("facts:" + tr)
	if hookClose {
		stats.Class("facts_after_reject:" + rejectSide)
	}
	stats.NonTrivial(fmt.Sprintf("B|%s|%s|%v|%s", tr, proto, hookClose, rejectSide))
	stats.Sample(doc)
}
