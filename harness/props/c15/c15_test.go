// C15 — bytes on the wire follow the SP stream and WebSocket mappings.
//
// The other end of every connection is the harness's own codec (package wire,
// written from the SP RFCs and RFC 6455; it shares no code with mangos or
// gorilla/websocket) on a plain net.Conn / unix conn / tls.Conn.
//
//   - TestC15Handshake: tcp, ipc, tls+tcp x {mangos dials, mangos listens} x all 24
//     constructors (12 protocol numbers).  mangos' first 8 bytes are read BEFORE the
//     harness writes anything and must equal wire.Header(Self).  Then 1-6 deviating
//     peer headers (one byte changed, another valid protocol, byte-swapped number,
//     short header + half close) must each be answered by closing the connection
//     without any pipe ever being Attached; the correct header attaches (control).
//   - TestC15Messages: all five transports x both roles x all constructors; raw
//     sockets with chosen header bytes, cooked ones through Send/Recv.  Every message
//     mangos writes is decoded by wire and compared byte for byte with h||b; every
//     frame wire writes must come out of RecvMsg unchanged (per-protocol header
//     split modelled).  On ws/wss each message must be ONE binary frame (FIN, opcode
//     2, masked iff mangos is the client).
//   - TestC15WSSubprotocol: the mangos ws/wss dialer offers exactly
//     "<PeerName>.sp.nanomsg.org" on path /sp; the mangos listener upgrades iff the
//     client's offer contains "<SelfName>.sp.nanomsg.org" (and selects it).
//   - FuzzStreamPeer: arbitrary bytes as "the peer" of a tcp listener; attach and
//     delivered messages must equal what wire's parser derives from the same bytes.
package c15

import (
	"bytes"
	"crypto/tls"
	"encoding/hex"
	"errors"
	"fmt"
	"io"
	"net"
	"os"
	"strconv"
	"strings"
	"testing"
	"time"

	"go.nanomsg.org/mangos/v3"
	"go.nanomsg.org/mangos/v3/transport/ws"
	"go.nanomsg.org/mangos/v3/verifharness/fixture"
	"go.nanomsg.org/mangos/v3/verifharness/stats"
	"go.nanomsg.org/mangos/v3/verifharness/wire"
	"pgregory.net/rapid"
)

func TestMain(m *testing.M) {
	stats.Init("C15")
	stats.Rule("transport (tcp, ipc, tls+tcp, ws, wss) x role (mangos dials / listens) enumerated as subtests; per case a constructor drawn from all 24 (12 protocol numbers, raw and cooked), then (handshake) 1-6 deviating peer headers: byte position 0-7 x drawn wrong value (bit flips, 0x00/0x01/0xff, uniform), another of the 12 protocol numbers, byte-swapped number, 0-7 byte prefix + half close; (messages) 1-5 transfers in the directions the pattern allows with protocol-header length 0-32 (raw) and a payload length drawn around 0/64/125/126/127/128/.../65535/65536 (+-1), small, or uniform up to 70000, content = PRF(key); (ws) subprotocol offers: right, peer's name, none, other protocol, case/suffix/prefix variants, lists. Also: frames written in drawn pieces; ws/wss listeners optionally with WEBSOCKET-CHECKORIGIN set before/after Listen. Non-trivial: every deviation / wrong-offer case, and every message case with a non-empty protocol header or a payload length adjacent to a ws length-encoding or pool-class boundary; distinct by (transport, role, constructor, deviation or (direction, header length, boundary length))")
	stats.Assume("the harness plays mangos' expected peer protocol; a peer that sends a short header and then stays silent without closing is C10/C16 territory and not generated here")
	stats.Assume("IPC: the property fixes what mangos writes (0x01); acceptance of other prefix bytes from a peer is not part of the handshake-deviation quantifier and is not generated")
	rc := m.Run()
	stats.Flush()
	fixture.Cleanup()
	os.Exit(rc)
}

// ---------------------------------------------------------------------------
// Independent table of the SP protocol numbers and names (from the SP RFCs:
// number = pattern*16 + role).

type spInfo struct {
	self, peer         uint16
	selfName, peerName string
}

var spTable = map[string]spInfo{
	"pair":       {1*16 + 0, 1*16 + 0, "pair", "pair"},
	"pair1":      {1*16 + 1, 1*16 + 1, "pair1", "pair1"},
	"pub":        {2*16 + 0, 2*16 + 1, "pub", "sub"},
	"sub":        {2*16 + 1, 2*16 + 0, "sub", "pub"},
	"req":        {3*16 + 0, 3*16 + 1, "req", "rep"},
	"rep":        {3*16 + 1, 3*16 + 0, "rep", "req"},
	"push":       {5*16 + 0, 5*16 + 1, "push", "pull"},
	"pull":       {5*16 + 1, 5*16 + 0, "pull", "push"},
	"surveyor":   {6*16 + 2, 6*16 + 3, "surveyor", "respondent"},
	"respondent": {6*16 + 3, 6*16 + 2, "respondent", "surveyor"},
	"bus":        {7*16 + 0, 7*16 + 0, "bus", "bus"},
	"star":       {100*16 + 0, 100*16 + 0, "star", "star"},
}

var allNumbers = []uint16{0x10, 0x11, 0x20, 0x21, 0x30, 0x31, 0x50, 0x51, 0x62, 0x63, 0x70, 0x640}

const spSuffix = ".sp.nanomsg.org"

func base(ctor string) string { return strings.TrimPrefix(ctor, "x") }
func isRaw(ctor string) bool  { return strings.HasPrefix(ctor, "x") }
func infoOf(ctor string) spInfo {
	i, ok := spTable[base(ctor)]
	if !ok {
		panic("no SP info for " + ctor)
	}
	return i
}

var ctorNames = func() []string {
	var out []string
	for _, p := range fixture.Protos {
		out = append(out, p.Name)
	}
	return out
}()

// drawCtor picks one of the 24 constructors.  rapid's own samplers favour
// small values heavily (a plain SampledFrom gave a quarter of all cases to
// pair); mixing three drawn integers spreads the cases evenly over the 12
// protocol numbers.  The chosen name is recorded in the replay document.
func drawCtor(t *rapid.T) string {
	var x uint32
	for _, l := range []string{"ctor.a", "ctor.b", "ctor.c"} {
		x = (x ^ rapid.Uint32().Draw(t, l)) * 2654435761
		x ^= x >> 15
	}
	return ctorNames[int(x>>8)%len(ctorNames)]
}

var (
	streamTransports = []string{"tcp", "ipc", "tls+tcp"}
	allTransports    = []string{"tcp", "ipc", "tls+tcp", "ws", "wss"}
)

// The 20 sub-configurations (test x transport x role) are numbered (Handshake
// 0-5, Messages 6-15, WSSubprotocol 16-19) and dealt out over the shards the
// driver starts; within a process they all run in parallel.
func subtest(t *testing.T, idx int, name string, prop func(*rapid.T)) {
	shard, _ := strconv.Atoi(os.Getenv("VERIF_SHARD"))
	nshards, _ := strconv.Atoi(os.Getenv("VERIF_NSHARDS"))
	if nshards <= 0 {
		nshards = 1
	}
	if idx%nshards != shard%nshards {
		return
	}
	t.Run(name, func(t *testing.T) {
		t.Parallel()
		rapid.Check(t, prop)
	})
}

func settle() time.Duration { return time.Duration(stats.Scale(100, 300)) * time.Millisecond }

func roleName(dial bool) string {
	if dial {
		return "dial"
	}
	return "listen"
}

// ---------------------------------------------------------------------------
// rig: one mangos socket plus the harness's raw transport endpoint.

type tb interface {
	Fatalf(format string, args ...interface{})
}

type rig struct {
	t     tb
	tr    string
	dial  bool // mangos dials, the harness listens
	ctor  string
	info  spInfo
	sock  mangos.Socket
	ev    *fixture.Events
	url   string
	host  string // host:port or unix path
	path  string // ws path
	ln    net.Listener
	conns []net.Conn
}

func isTLS(tr string) bool { return tr == "tls+tcp" || tr == "wss" }
func isWS(tr string) bool  { return tr == "ws" || tr == "wss" }

func splitURL(u string) (host, path string) {
	rest := u[strings.Index(u, "://")+3:]
	if strings.HasPrefix(u, "ipc://") {
		return rest, ""
	}
	if i := strings.IndexByte(rest, '/'); i >= 0 {
		return rest[:i], rest[i:]
	}
	return rest, ""
}

// rigOriginOpt, when set by a case ("before-true", "before-false", "after-true", "after-false"),
// makes the next ws/wss listener rig set WEBSOCKET-CHECKORIGIN accordingly; it is consumed by newRig.
var rigOriginOpt string

func newRig(t tb, ctor, tr string, dial bool) *rig {
	r := &rig{t: t, tr: tr, dial: dial, ctor: ctor, info: infoOf(ctor)}
	r.sock = fixture.New(ctor)
	r.ev = fixture.Hook(r.sock)
	_ = r.sock.SetOption(mangos.OptionRecvDeadline, 5*time.Second)
	_ = r.sock.SetOption(mangos.OptionSendDeadline, 5*time.Second)
	if base(ctor) == "surveyor" && !isRaw(ctor) {
		_ = r.sock.SetOption(mangos.OptionSurveyTime, 20*time.Second)
	}
	if ctor == "sub" {
		if err := r.sock.SetOption(mangos.OptionSubscribe, []byte{}); err != nil {
			t.Fatalf("harness: subscribe: %v", err)
		}
	}
	if !dial && (tr == "ws" || tr == "wss") && rigOriginOpt != "" {
		// the listener's other WebSocket option is set as well (before or after Listen): it
		// must not change the subprotocol negotiation
		opt := rigOriginOpt
		rigOriginOpt = ""
		a := fixture.Addr(tr)
		l, err := r.sock.NewListener(a, fixture.ListenOpts(tr))
		if err != nil {
			t.Fatalf("harness: NewListener(%s): %v", a, err)
		}
		val := strings.HasSuffix(opt, "true")
		if strings.HasPrefix(opt, "before") {
			if err := l.SetOption(ws.OptionWebSocketCheckOrigin, val); err != nil {
				t.Fatalf("harness: SetOption(CHECKORIGIN): %v", err)
			}
		}
		if err := l.Listen(); err != nil {
			t.Fatalf("harness: mangos listen on %s: %v", tr, err)
		}
		if strings.HasPrefix(opt, "after") {
			if err := l.SetOption(ws.OptionWebSocketCheckOrigin, val); err != nil {
				t.Fatalf("harness: SetOption(CHECKORIGIN): %v", err)
			}
		}
		r.url = a
		r.host, r.path = splitURL(a)
		return r
	}
	if !dial {
		a, _, err := fixture.Listen(r.sock, tr)
		if err != nil {
			t.Fatalf("harness: mangos listen on %s: %v", tr, err)
		}
		r.url = a
		r.host, r.path = splitURL(a)
		return r
	}
	network := "tcp"
	if tr == "ipc" {
		network = "unix"
	}
	var err error
	for i := 0; i < 8; i++ {
		r.url = fixture.Addr(tr)
		r.host, r.path = splitURL(r.url)
		if r.ln, err = net.Listen(network, r.host); err == nil {
			break
		}
	}
	if err != nil {
		t.Fatalf("harness: listen on %s: %v", r.url, err)
	}
	d, err := r.sock.NewDialer(r.url, fixture.DialOpts(tr))
	if err != nil {
		t.Fatalf("harness: NewDialer(%s): %v", r.url, err)
	}
	for k, v := range map[string]interface{}{
		mangos.OptionDialAsynch:       true,
		mangos.OptionReconnectTime:    2 * time.Millisecond,
		mangos.OptionMaxReconnectTime: 10 * time.Millisecond,
	} {
		if err := d.SetOption(k, v); err != nil {
			t.Fatalf("harness: dialer SetOption(%s): %v", k, err)
		}
	}
	if err := d.Dial(); err != nil {
		t.Fatalf("harness: asynchronous Dial: %v", err)
	}
	return r
}

// conn returns the next transport-level connection with mangos (TLS already
// established where applicable).
func (r *rig) conn() net.Conn {
	var c net.Conn
	var err error
	if r.dial {
		type deadliner interface{ SetDeadline(time.Time) error }
		_ = r.ln.(deadliner).SetDeadline(time.Now().Add(5 * time.Second))
		if c, err = r.ln.Accept(); err != nil {
			r.t.Fatalf("harness: accept from the mangos dialer on %s: %v", r.url, err)
		}
	} else {
		network := "tcp"
		if r.tr == "ipc" {
			network = "unix"
		}
		if c, err = net.DialTimeout(network, r.host, 5*time.Second); err != nil {
			r.t.Fatalf("harness: connect to the mangos listener %s: %v", r.url, err)
		}
	}
	r.conns = append(r.conns, c)
	_ = c.SetDeadline(time.Now().Add(5 * time.Second))
	if isTLS(r.tr) {
		var tc *tls.Conn
		if r.dial {
			tc = tls.Server(c, fixture.TLSServer())
		} else {
			tc = tls.Client(c, fixture.TLSClient())
		}
		if err = tc.Handshake(); err != nil {
			r.t.Fatalf("harness: TLS handshake on %s: %v", r.url, err)
		}
		c = tc
	}
	return c
}

func (r *rig) close() {
	_ = r.sock.Close()
	for _, c := range r.conns {
		_ = c.Close()
	}
	if r.ln != nil {
		_ = r.ln.Close()
	}
	if r.tr == "ipc" {
		_ = os.Remove(r.host)
	}
}

func (r *rig) doc(test string) map[string]interface{} {
	return map[string]interface{}{"test": test, "ctor": r.ctor, "transport": r.tr, "role": roleName(r.dial),
		"rseed": os.Getenv("VERIF_RSEED")}
}

// readMangosHeader reads mangos' connection header (before the harness has
// written anything) and checks it.
func (r *rig) readMangosHeader(c net.Conn, doc map[string]interface{}) {
	var got [8]byte
	_ = c.SetReadDeadline(time.Now().Add(5 * time.Second))
	n, err := io.ReadFull(c, got[:])
	want := wire.Header(r.info.self)
	if err != nil {
		stats.Fail(r.t, "C15:handshake-bytes:"+r.tr, doc, "%s %s mangos-%ss: no 8 byte header before the peer's header was sent: got %d bytes %x, %v (want %x)",
			r.ctor, r.tr, roleName(r.dial), n, got[:n], err, want)
		return
	}
	if got != want {
		stats.Fail(r.t, "C15:handshake-bytes:"+r.tr, doc, "%s %s mangos-%ss: first 8 bytes % x, want % x",
			r.ctor, r.tr, roleName(r.dial), got, want)
	}
	if p, ok := wire.ParseHeader(got[:]); !ok || p != r.info.self {
		stats.Fail(r.t, "C15:handshake-bytes:"+r.tr, doc, "%s %s: wire.ParseHeader(% x) = %#x,%v want %#x", r.ctor, r.tr, got, p, ok, r.info.self)
	}
}

// awaitClose reads until the peer closes; closed is false on a timeout.
func awaitClose(c net.Conn, d time.Duration) (closed bool, extra []byte) {
	_ = c.SetReadDeadline(time.Now().Add(d))
	buf := make([]byte, 512)
	for {
		n, err := c.Read(buf)
		if len(extra) < 64 {
			extra = append(extra, buf[:n]...)
		}
		if err != nil {
			var ne net.Error
			if errors.As(err, &ne) && ne.Timeout() {
				return false, extra
			}
			return true, extra
		}
	}
}

func halfClose(c net.Conn) {
	if hc, ok := c.(interface{ CloseWrite() error }); ok {
		_ = hc.CloseWrite()
	}
}

// streamAttach performs the correct handshake and waits for the pipe.
func (r *rig) streamAttach(doc map[string]interface{}, nth int) net.Conn {
	c := r.conn()
	r.readMangosHeader(c, doc)
	h := wire.Header(r.info.peer)
	_ = c.SetWriteDeadline(time.Now().Add(5 * time.Second))
	if _, err := c.Write(h[:]); err != nil {
		r.t.Fatalf("harness: writing the header: %v", err)
	}
	if !r.ev.WaitAttached(nth, 5*time.Second) {
		stats.Fail(r.t, "C15:rejected-good-header:"+r.tr, doc, "%s %s mangos-%ss: peer header % x (protocol %#x = mangos' peer) did not lead to an attached pipe within 5 s",
			r.ctor, r.tr, roleName(r.dial), h, r.info.peer)
	}
	return c
}

// ---------------------------------------------------------------------------
// Handshake deviations

type deviation struct {
	Kind  string `json:"kind"` // byte | proto | swap | short
	Pos   int    `json:"pos,omitempty"`
	Val   int    `json:"val,omitempty"`
	Proto int    `json:"proto,omitempty"`
	Len   int    `json:"len,omitempty"`
	Bytes string `json:"bytes"`
	raw   []byte
}

func genDeviation(t *rapid.T, label string, info spInfo) deviation {
	good := wire.Header(info.peer)
	d := deviation{}
	kinds := []string{"byte", "byte", "byte", "byte", "byte", "proto", "short"}
	if good[4] != good[5] {
		kinds = append(kinds, "swap")
	}
	d.Kind = rapid.SampledFrom(kinds).Draw(t, label+"kind")
	b := good
	switch d.Kind {
	case "byte":
		d.Pos = rapid.IntRange(0, 7).Draw(t, label+"pos")
		cur := good[d.Pos]
		var v byte
		switch rapid.IntRange(0, 5).Draw(t, label+"how") {
		case 0:
			v = cur ^ 0x01
		case 1:
			v = cur ^ 0x80
		case 2:
			v = cur ^ byte(1<<uint(rapid.IntRange(0, 7).Draw(t, label+"bit")))
		case 3:
			v = rapid.SampledFrom([]byte{0x00, 0x01, 0xff, 's', 'p', 'S', 'P'}).Draw(t, label+"const")
		default:
			v = rapid.Byte().Draw(t, label+"val")
		}
		if v == cur {
			v = cur + 1
		}
		d.Val = int(v)
		b[d.Pos] = v
		d.raw = b[:]
	case "proto":
		var others []uint16
		for _, n := range allNumbers {
			if n != info.peer {
				others = append(others, n)
			}
		}
		p := rapid.SampledFrom(others).Draw(t, label+"proto")
		d.Proto = int(p)
		b = wire.Header(p)
		d.raw = b[:]
	case "swap":
		b[4], b[5] = b[5], b[4]
		d.raw = b[:]
	case "short":
		d.Len = rapid.IntRange(0, 7).Draw(t, label+"len")
		d.raw = b[:d.Len]
	}
	d.raw = append([]byte(nil), d.raw...)
	d.Bytes = hex.EncodeToString(d.raw)
	return d
}

func handshakeCase(t *rapid.T, tr string, dial bool) {
	ctor := drawCtor(t)
	info := infoOf(ctor)
	n := rapid.IntRange(1, 6).Draw(t, "n")
	devs := make([]deviation, n)
	for i := range devs {
		devs[i] = genDeviation(t, fmt.Sprintf("d%d.", i), info)
	}
	r := newRig(t, ctor, tr, dial)
	defer r.close()
	doc := r.doc("TestC15Handshake")
	doc["deviations"] = devs
	who := fmt.Sprintf("%s %s mangos-%ss", ctor, tr, roleName(dial))

	for i, d := range devs {
		// what an independent parser says about these bytes
		if p, ok := wire.ParseHeader(d.raw); ok && p == info.peer {
			t.Fatalf("harness: deviation %d (% x) is a valid header for %#x", i, d.raw, info.peer)
		}
		c := r.conn()
		r.readMangosHeader(c, doc)
		_ = c.SetWriteDeadline(time.Now().Add(5 * time.Second))
		if len(d.raw) > 0 {
			if _, err := c.Write(d.raw); err != nil {
				t.Fatalf("harness: writing deviation %d: %v", i, err)
			}
		}
		if d.Kind == "short" {
			halfClose(c)
		}
		// wait (up to 3 s) for mangos to close; stop early once a pipe shows up
		var closed bool
		var extra []byte
		for end := time.Now().Add(3 * time.Second); !closed && r.ev.Attached() == 0 && time.Now().Before(end); {
			var more []byte
			closed, more = awaitClose(c, 100*time.Millisecond)
			extra = append(extra, more...)
		}
		if r.ev.Attached() > 0 {
			stats.Fail(t, "C15:accepted-bad-header:"+tr, doc, "%s: a pipe was Attached after the peer sent the header % x (%s; correct is % x)",
				who, d.raw, d.Kind, wire.Header(info.peer))
		}
		if !closed && r.ev.Attached() == 0 {
			stats.Fail(t, "C15:bad-header-not-closed:"+tr, doc, "%s: connection still open 3 s after the peer sent the header % x (%s)", who, d.raw, d.Kind)
		}
		if len(extra) > 0 {
			stats.Fail(t, "C15:handshake-bytes:"+tr, doc, "%s: %d unexpected bytes (% x) after mangos' header on a refused connection", who, len(extra), extra)
		}
		_ = c.Close()
	}
	time.Sleep(settle())
	if a := r.ev.Attached(); a > 0 {
		stats.Fail(t, "C15:accepted-bad-header:"+tr, doc, "%s: %d pipe(s) Attached although every peer header so far was malformed: %v", who, a, devs)
	}
	// control: the correct header attaches, on the same socket
	c := r.streamAttach(doc, 1)
	if a := r.ev.Attached(); a != 1 {
		stats.Fail(t, "C15:accepted-bad-header:"+tr, doc, "%s: %d Attached events after %d bad and one good handshake", who, a, n)
	}
	// ... and the connection stays up: a zero-length read probe must time out, not EOF
	if closed, _ := awaitClose(c, 20*time.Millisecond); closed {
		stats.Fail(t, "C15:rejected-good-header:"+tr, doc, "%s: connection closed right after a correct handshake", who)
	}

	stats.Eval()
	stats.Class("hs:tr:" + tr)
	stats.Class("hs:role:" + roleName(dial))
	stats.Class(fmt.Sprintf("proto:%#x", info.self))
	for _, d := range devs {
		stats.Eval() // every deviation is an executed probe
		stats.Class("dev:" + d.Kind)
		stats.NonTrivial(fmt.Sprintf("hs|%s|%v|%s|%s|%d|%s", tr, dial, ctor, d.Kind, d.Pos, d.Bytes))
	}
	stats.Sample(doc)
}

func TestC15Handshake(t *testing.T) {
	t.Parallel()
	for i, tr := range streamTransports {
		for j, dial := range []bool{false, true} {
			tr, dial := tr, dial
			subtest(t, 2*i+j, tr+"/"+roleName(dial), func(rt *rapid.T) { handshakeCase(rt, tr, dial) })
		}
	}
}

// ---------------------------------------------------------------------------
// Messages

// link is the harness end of an established SP connection.
type link struct {
	r     *rig
	c     net.Conn
	ws    *wire.WSConn
	pipe  uint32 // mangos' pipe id
	split int    // > 0: stream frames are written in pieces of this many bytes (a byte stream may arrive in any pieces)
}

// pieceWriter writes in small pieces with a short pause in between, so that the receiver sees the
// length prefix and the payload arrive in several reads.
type pieceWriter struct {
	w io.Writer
	n int
}

func (pw pieceWriter) Write(b []byte) (int, error) {
	tot := 0
	for len(b) > 0 {
		k := pw.n
		if k > len(b) {
			k = len(b)
		}
		n, err := pw.w.Write(b[:k])
		tot += n
		if err != nil {
			return tot, err
		}
		b = b[k:]
		if tot <= 24 { // only the prefix region needs the pauses; keep big payloads fast
			time.Sleep(150 * time.Microsecond)
		}
	}
	return tot, nil
}

func (l *link) write(p []byte) error {
	_ = l.c.SetWriteDeadline(time.Now().Add(5 * time.Second))
	if l.ws != nil {
		return l.ws.WriteBinary(p)
	}
	if l.split > 0 {
		return wire.WriteFrame(pieceWriter{l.c, l.split}, p, l.r.tr == "ipc")
	}
	return wire.WriteFrame(l.c, p, l.r.tr == "ipc")
}

// read returns the next message mangos wrote.  For ws it also checks the frame
// shape (one unfragmented binary frame); violations of that are reported here.
func (l *link) read(doc map[string]interface{}) ([]byte, error) {
	_ = l.c.SetReadDeadline(time.Now().Add(5 * time.Second))
	if l.ws == nil {
		return wire.ReadFrame(l.c, l.r.tr == "ipc", 1<<21)
	}
	op, p, frames, err := l.ws.ReadMessage()
	if err != nil {
		return nil, err
	}
	if op != wire.OpBinary {
		stats.Fail(l.r.t, "C15:ws-frame:"+l.r.tr, doc, "%s %s mangos-%ss: message of %d bytes sent with opcode %d, want 2 (binary)",
			l.r.ctor, l.r.tr, roleName(l.r.dial), len(p), op)
	}
	if frames != 1 {
		stats.Fail(l.r.t, "C15:ws-fragmented:"+l.r.tr, doc, "%s %s mangos-%ss: message of %d bytes sent as %d frames (first FIN=0 + continuation frames), want one binary frame with FIN=1",
			l.r.ctor, l.r.tr, roleName(l.r.dial), len(p), frames)
	}
	return p, nil
}

const wsFragKeyPrefix = "C15:ws-fragmented:"

// connect establishes the SP connection (stream handshake or ws upgrade) with
// the correct parameters and checks the control outcome.
func (r *rig) connect(doc map[string]interface{}, maskSeed uint32) *link {
	l := &link{r: r}
	if !isWS(r.tr) {
		l.c = r.streamAttach(doc, 1)
	} else {
		l.c = r.conn()
		var err error
		if r.dial {
			want := r.info.peerName + spSuffix
			var offered []string
			l.ws, offered, err = wire.WSAccept(l.c, func(o []string) (string, bool) {
				if len(o) > 0 {
					return o[0], true
				}
				return "", true
			})
			if err != nil {
				r.t.Fatalf("harness: WSAccept: %v", err)
			}
			if len(offered) != 1 || offered[0] != want || l.ws.Path != r.path {
				stats.Fail(r.t, "C15:ws-subprotocol:"+r.tr, doc, "%s %s dialer: upgrade request for %q offers subprotocols %q, want exactly [%q] on %q",
					r.ctor, r.tr, l.ws.Path, offered, want, r.path)
			}
		} else {
			want := r.info.selfName + spSuffix
			var sel string
			l.ws, sel, err = wire.WSDial(l.c, r.host, r.path, []string{want})
			if err != nil {
				stats.Fail(r.t, "C15:ws-subprotocol:"+r.tr, doc, "%s %s listener: upgrade offering %q failed: %v", r.ctor, r.tr, want, err)
				r.t.Fatalf("harness: cannot continue without a websocket: %v", err)
			}
			if sel != want {
				stats.Fail(r.t, "C15:ws-subprotocol:"+r.tr, doc, "%s %s listener: selected subprotocol %q, want %q", r.ctor, r.tr, sel, want)
			}
		}
		x := maskSeed | 1
		l.ws.Mask = func() [4]byte {
			x ^= x << 13
			x ^= x >> 17
			x ^= x << 5
			return [4]byte{byte(x), byte(x >> 8), byte(x >> 16), byte(x >> 24)}
		}
		if !r.ev.WaitAttached(1, 5*time.Second) {
			stats.Fail(r.t, "C15:ws-subprotocol:"+r.tr, doc, "%s %s mangos-%ss: no pipe attached within 5 s after a correct upgrade", r.ctor, r.tr, roleName(r.dial))
			r.t.Fatalf("harness: no pipe")
		}
	}
	if ps := r.ev.PipeList(); len(ps) > 0 {
		l.pipe = ps[0].ID()
	} else {
		r.t.Fatalf("harness: no attached pipe after the control handshake")
	}
	return l
}

var boundaries = []int{0, 64, 125, 126, 127, 128, 256, 512, 1024, 4096, 8192, 65535, 65536}

func nearBoundary(n int) bool {
	for _, c := range boundaries {
		if d := n - c; d >= -1 && d <= 1 {
			return true
		}
	}
	return false
}

// genTotal draws the payload length on the wire (protocol header + body).
func genTotal(t *rapid.T, label string) int {
	switch rapid.IntRange(0, 9).Draw(t, label+"kind") {
	case 0, 1, 2, 3, 4:
		n := rapid.SampledFrom(boundaries).Draw(t, label+"bnd") + rapid.IntRange(-1, 1).Draw(t, label+"delta")
		if n < 0 {
			n = 0
		}
		return n
	case 5, 6:
		return rapid.IntRange(0, 300).Draw(t, label+"small")
	case 7:
		return rapid.IntRange(0, 9000).Draw(t, label+"mid")
	default:
		return rapid.IntRange(0, 70000).Draw(t, label+"uni")
	}
}

type xfer struct {
	Dir   string `json:"dir"` // out: mangos -> wire, in: wire -> mangos
	HLen  int    `json:"hlen"`
	Total int    `json:"total"`
	Key   uint64 `json:"key"`
	Hops  int    `json:"hops"`
}

func be32(v uint32) []byte { return []byte{byte(v >> 24), byte(v >> 16), byte(v >> 8), byte(v)} }

func firstDiff(a, b []byte) int {
	i := 0
	for i < len(a) && i < len(b) && a[i] == b[i] {
		i++
	}
	return i
}

type msgCase struct {
	t    *rapid.T
	r    *rig
	l    *link
	doc  map[string]interface{}
	last []byte // last request id seen from a cooked req/surveyor, or sent to a cooked rep/respondent
}

func (mc *msgCase) key(kind string) string {
	if isWS(mc.r.tr) {
		return "C15:ws-frame:" + mc.r.tr
	}
	return "C15:" + kind + ":" + mc.r.tr
}

// out makes mangos send (hdr, body) and checks the bytes on the wire against
// want; a nil want[i] ... see wantID.
func (mc *msgCase) out(hdr, body, want []byte, wantID bool) {
	r := mc.r
	who := fmt.Sprintf("%s %s mangos-%ss", r.ctor, r.tr, roleName(r.dial))
	var err error
	if isRaw(r.ctor) {
		m := mangos.NewMessage(len(body))
		m.Header = append(m.Header, hdr...)
		m.Body = append(m.Body, body...)
		err = r.sock.SendMsg(m)
	} else {
		err = r.sock.Send(body)
	}
	if err != nil {
		stats.Fail(mc.t, mc.key("send-error"), mc.doc, "%s: send of header %d + body %d bytes failed: %v", who, len(hdr), len(body), err)
		mc.t.Fatalf("harness: cannot continue after a failed send")
	}
	got, err := mc.l.read(mc.doc)
	if err != nil {
		stats.Fail(mc.t, mc.key("frame-bytes"), mc.doc, "%s: message (header %d + body %d bytes) not decodable by the independent codec: %v", who, len(hdr), len(body), err)
		mc.t.Fatalf("harness: cannot continue after an undecodable frame")
	}
	if wantID {
		// cooked req/surveyor: 4 byte id with the top bit set, chosen by mangos, then the body
		if len(got) < 4 || got[0]&0x80 == 0 {
			stats.Fail(mc.t, mc.key("frame-bytes"), mc.doc, "%s: payload starts with % x, want a 4 byte request id with the top bit set", who, got[:min(len(got), 4)])
			mc.t.Fatalf("harness: cannot continue without a request id")
		}
		mc.last = append([]byte(nil), got[:4]...)
		want = append(append([]byte(nil), got[:4]...), body...)
	}
	if !bytes.Equal(got, want) {
		stats.Fail(mc.t, mc.key("frame-bytes"), mc.doc, "%s: sent header %d + body %d bytes; wire payload has %d bytes, want %d (header||body), first difference at offset %d (got % x..., want % x...)",
			who, len(hdr), len(body), len(got), len(want), firstDiff(got, want), head(got, firstDiff(got, want)), head(want, firstDiff(got, want)))
	}
}

func head(b []byte, at int) []byte {
	if at > len(b) {
		at = len(b)
	}
	b = b[at:]
	if len(b) > 8 {
		b = b[:8]
	}
	return b
}

// in writes payload as one frame and checks what RecvMsg returns.
func (mc *msgCase) in(payload, wantHdr, wantBody []byte) {
	r := mc.r
	who := fmt.Sprintf("%s %s mangos-%ss", r.ctor, r.tr, roleName(r.dial))
	if err := mc.l.write(payload); err != nil {
		// the connection is established and the frame is well-formed: if the write fails, mangos
		// has hung up in the middle of it
		stats.Fail(mc.t, mc.key("frame-not-delivered"), mc.doc, "%s: while a well-formed frame of %d bytes was being written (in pieces of %d bytes; 0 = one write) mangos closed the connection: %v", who, len(payload), mc.l.split, err)
		mc.t.Fatalf("harness: cannot continue after a lost frame")
	}
	m, err := r.sock.RecvMsg()
	if err != nil {
		stats.Fail(mc.t, mc.key("frame-not-delivered"), mc.doc, "%s: frame of %d bytes (% x...) written by the independent codec was not delivered: %v", who, len(payload), head(payload, 0), err)
		mc.t.Fatalf("harness: cannot continue after a lost frame")
	}
	gh, gb := append([]byte(nil), m.Header...), append([]byte(nil), m.Body...)
	m.Free()
	if !isRaw(r.ctor) {
		gh, wantHdr = nil, nil
	}
	if !bytes.Equal(gh, wantHdr) || !bytes.Equal(gb, wantBody) {
		stats.Fail(mc.t, mc.key("frame-delivered-changed"), mc.doc, "%s: frame of %d bytes delivered as header % x (want % x) + body of %d bytes (want %d), first body difference at offset %d",
			who, len(payload), gh, wantHdr, len(gb), len(wantBody), firstDiff(gb, wantBody))
	}
}

func cat(parts ...[]byte) []byte {
	var out []byte
	for _, p := range parts {
		out = append(out, p...)
	}
	return out
}

// transfer performs one drawn step for the constructor; it returns false when
// the direction is not available.
func (mc *msgCase) transfer(x xfer) {
	ctor := mc.r.ctor
	pid := be32(mc.l.pipe)
	rnd := func(salt uint64, n int) []byte { return fixture.Payload(x.Key*4+salt, n) }
	split := func(h int) (int, int) { // header and body length for a total on the wire
		if h > x.Total {
			h = x.Total
		}
		return h, x.Total - h
	}
	hops := byte(x.Hops)
	switch {
	case !isRaw(ctor):
		body := rnd(0, x.Total)
		id := cat([]byte{0x80 | byte(x.Key>>8)}, rnd(1, 3))
		switch base(ctor) {
		case "pair", "bus", "pub", "push", "sub", "pull":
			if x.Dir == "out" {
				mc.out(nil, body, body, false)
			} else {
				mc.in(body, nil, body)
			}
		case "pair1", "star":
			if x.Dir == "out" {
				mc.out(nil, body, cat([]byte{0, 0, 0, 0}, body), false)
			} else {
				mc.in(cat([]byte{0, 0, 0, hops}, body), nil, body)
			}
		case "req", "surveyor": // request out, reply in
			mc.out(nil, body, nil, true)
			reply := rnd(2, x.HLen*7)
			mc.in(cat(mc.last, reply), nil, reply)
		case "rep", "respondent": // request in, reply out
			mc.in(cat(id, body), nil, body)
			reply := rnd(2, x.HLen*7)
			mc.out(nil, reply, cat(id, reply), false)
		}
	case x.Dir == "out":
		switch ctor {
		case "xpair", "xpub", "xpush", "xreq", "xsurveyor":
			h, b := split(x.HLen)
			hdr, body := rnd(1, h), rnd(0, b)
			mc.out(hdr, body, cat(hdr, body), false)
		case "xbus":
			h, b := split(x.HLen)
			hdr, body := rnd(1, h), rnd(0, b)
			if h == 4 { // a 4 byte header names the pipe to skip and is not transmitted
				hdr = []byte{0, 0, 0, 0}
				mc.out(hdr, body, body, false)
			} else {
				mc.out(hdr, body, cat(hdr, body), false)
			}
		case "xstar":
			hdr := cat([]byte{0, 0, 0}, []byte{hops})
			if x.HLen%2 == 1 {
				hdr = rnd(1, 4) // xstar transmits any 4 byte header as is
			}
			body := rnd(0, max(x.Total-4, 0))
			mc.out(hdr, body, cat(hdr, body), false)
		case "xpair1":
			h := max(x.HLen, 4)
			hdr := cat([]byte{0, 0, 0}, rnd(1, h-3))
			body := rnd(0, max(x.Total-h, 0))
			mc.out(hdr, body, cat(hdr, body), false)
		case "xrep", "xrespondent": // first header word selects the pipe and is consumed
			h := x.HLen &^ 3
			rest := rnd(1, h)
			body := rnd(0, max(x.Total-h, 0))
			mc.out(cat(pid, rest), body, cat(rest, body), false)
		}
	default: // raw, in
		switch ctor {
		case "xpair", "xsub", "xpull":
			p := rnd(0, x.Total)
			mc.in(p, nil, p)
		case "xbus":
			p := rnd(0, x.Total)
			mc.in(p, pid, p)
		case "xreq", "xsurveyor":
			body := rnd(0, max(x.Total-4, 0))
			id := rnd(1, 4)
			mc.in(cat(id, body), id, body)
		case "xrep", "xrespondent":
			k := 1 + x.Hops%3
			var bt []byte
			for i := 0; i < k; i++ {
				w := rnd(uint64(1+i)%4+4*uint64(i), 4)
				w[0] &= 0x7f
				if i == k-1 {
					w[0] |= 0x80
				}
				bt = append(bt, w...)
			}
			body := rnd(0, max(x.Total-len(bt), 0))
			mc.in(cat(bt, body), cat(pid, bt), body)
		case "xstar", "xpair1":
			body := rnd(0, max(x.Total-4, 0))
			mc.in(cat([]byte{0, 0, 0, hops}, body), []byte{0, 0, 0, hops + 1}, body)
		}
	}
}

func dirsOf(ctor string) []string {
	switch base(ctor) {
	case "pub", "push":
		return []string{"out"}
	case "sub", "pull":
		return []string{"in"}
	}
	if !isRaw(ctor) {
		switch base(ctor) {
		case "req", "surveyor":
			return []string{"out"} // each step is request out + reply in
		case "rep", "respondent":
			return []string{"in"} // each step is request in + reply out
		}
	}
	return []string{"out", "in"}
}

func messagesCase(t *rapid.T, tr string, dial bool) {
	ctor := drawCtor(t)
	n := rapid.IntRange(1, 5).Draw(t, "n")
	dirs := dirsOf(ctor)
	steps := make([]xfer, n)
	for i := range steps {
		lb := fmt.Sprintf("m%d.", i)
		steps[i] = xfer{
			Dir:   rapid.SampledFrom(dirs).Draw(t, lb+"dir"),
			HLen:  rapid.SampledFrom([]int{0, 0, 1, 3, 4, 4, 5, 8, 12, 16, 31, 32}).Draw(t, lb+"hlen"),
			Total: genTotal(t, lb),
			Key:   rapid.Uint64Range(0, 1<<40).Draw(t, lb+"key"),
			Hops:  rapid.IntRange(0, 6).Draw(t, lb+"hops"),
		}
	}
	maskSeed := rapid.Uint32().Draw(t, "mask")
	split := rapid.SampledFrom([]int{0, 0, 1, 3, 4, 7, 8, 9}).Draw(t, "writeSplit")

	r := newRig(t, ctor, tr, dial)
	defer r.close()
	doc := r.doc("TestC15Messages")
	doc["steps"] = steps
	doc["mask"] = maskSeed
	doc["write_split"] = split
	mc := &msgCase{t: t, r: r, doc: doc}
	mc.l = r.connect(doc, maskSeed)
	mc.l.split = split
	if split > 0 {
		stats.Class("msg:frames-written-in-pieces")
		if tc, ok := mc.l.c.(*net.TCPConn); ok {
			_ = tc.SetNoDelay(true)
		}
	}
	for _, x := range steps {
		mc.transfer(x)
	}
	// sentinel in each available one-way direction: stray bytes after the last
	// message would garble it
	for _, d := range dirs {
		mc.transfer(xfer{Dir: d, HLen: 4, Total: 13, Key: 0x5e47, Hops: 1})
	}

	stats.Eval()
	stats.Class("msg:tr:" + tr)
	stats.Class("msg:role:" + roleName(dial))
	stats.Class(fmt.Sprintf("proto:%#x", r.info.self))
	if isRaw(ctor) {
		stats.Class("msg:raw")
	} else {
		stats.Class("msg:cooked")
	}
	for _, x := range steps {
		stats.Eval() // every transfer is an executed probe
		hdr := isRaw(ctor) && x.HLen > 0 && x.Dir == "out"
		if hdr {
			stats.Class("msg:nonempty-header")
		}
		if nearBoundary(x.Total) {
			stats.Class("msg:boundary-length")
		}
		if x.Total > 4096 {
			stats.Class("msg:over-4096")
		}
		if hdr || nearBoundary(x.Total) {
			tot := -1
			if nearBoundary(x.Total) {
				tot = x.Total
			}
			stats.NonTrivial(fmt.Sprintf("msg|%s|%v|%s|%s|%d|%d", tr, dial, ctor, x.Dir, x.HLen, tot))
		}
	}
	stats.Sample(doc)
}

func TestC15Messages(t *testing.T) {
	t.Parallel()
	for i, tr := range allTransports {
		for j, dial := range []bool{false, true} {
			tr, dial := tr, dial
			subtest(t, 6+2*i+j, tr+"/"+roleName(dial), func(rt *rapid.T) { messagesCase(rt, tr, dial) })
		}
	}
}

// ---------------------------------------------------------------------------
// WebSocket subprotocol negotiation

type offer struct {
	Kind string   `json:"kind"`
	List []string `json:"list"`
}

func genOffer(t *rapid.T, label string, info spInfo) offer {
	right := info.selfName + spSuffix
	var otherNames []string
	for n := range spTable {
		if n != info.selfName {
			otherNames = append(otherNames, n)
		}
	}
	// map order must not leak into the case
	for i := range otherNames {
		for j := i + 1; j < len(otherNames); j++ {
			if otherNames[j] < otherNames[i] {
				otherNames[i], otherNames[j] = otherNames[j], otherNames[i]
			}
		}
	}
	other := rapid.SampledFrom(otherNames).Draw(t, label+"other") + spSuffix
	kind := rapid.SampledFrom([]string{"peername", "none", "other", "case", "suffix", "bare", "prefix", "trailing", "multi-wrong", "multi-right"}).Draw(t, label+"kind")
	o := offer{Kind: kind}
	switch kind {
	case "peername":
		o.List = []string{info.peerName + spSuffix}
	case "none":
	case "other":
		o.List = []string{other}
	case "case":
		o.List = []string{strings.ToUpper(info.selfName) + spSuffix}
	case "suffix":
		o.List = []string{info.selfName + rapid.SampledFrom([]string{".sp.nanomsg.com", ".nanomsg.org", ".sp.nanomsg.orgx", ".sp"}).Draw(t, label+"sfx")}
	case "bare":
		o.List = []string{info.selfName}
	case "prefix":
		o.List = []string{"x" + right}
	case "trailing":
		o.List = []string{right + "."}
	case "multi-wrong":
		o.List = []string{other, info.selfName, "x" + right}
	case "multi-right":
		o.List = []string{other, right}
		if rapid.Bool().Draw(t, label+"first") {
			o.List = []string{right, other}
		}
	}
	return o
}

func contains(l []string, s string) bool {
	for _, x := range l {
		if x == s {
			return true
		}
	}
	return false
}

func subprotoListenCase(t *rapid.T, tr string) {
	ctor := drawCtor(t)
	info := infoOf(ctor)
	right := info.selfName + spSuffix
	n := rapid.IntRange(1, 4).Draw(t, "n")
	offers := make([]offer, n)
	for i := range offers {
		offers[i] = genOffer(t, fmt.Sprintf("o%d.", i), info)
	}
	originOpt := rapid.SampledFrom([]string{"", "", "before-true", "before-false", "after-true", "after-false"}).Draw(t, "checkOriginOption")
	rigOriginOpt = originOpt
	r := newRig(t, ctor, tr, false)
	defer r.close()
	doc := r.doc("TestC15WSSubprotocol")
	doc["offers"] = offers
	doc["checkorigin_option"] = originOpt
	if originOpt != "" {
		stats.Class("ws_listener_with_checkorigin_set")
	}
	who := fmt.Sprintf("%s %s listener", ctor, tr)

	attached := 0
	for _, o := range offers {
		expect := contains(o.List, right)
		c := r.conn()
		ws, sel, err := wire.WSDial(c, r.host, r.path, o.List)
		var se *wire.StatusError
		switch {
		case err == nil && !expect:
			stats.Fail(t, "C15:ws-subprotocol:"+tr, doc, "%s: upgrade offering %q (%s) was accepted (selected %q); only an offer containing %q may be", who, o.List, o.Kind, sel, right)
		case err == nil:
			if sel != right {
				stats.Fail(t, "C15:ws-subprotocol:"+tr, doc, "%s: offered %q, server selected %q, want %q", who, o.List, sel, right)
			}
			attached++
			if !r.ev.WaitAttached(attached, 5*time.Second) {
				stats.Fail(t, "C15:ws-subprotocol:"+tr, doc, "%s: offer %q upgraded but no pipe attached within 5 s", who, o.List)
			}
			_ = ws.Close()
			if !r.ev.WaitDetached(attached, 5*time.Second) { // pair accepts one peer at a time
				t.Fatalf("harness: pipe did not detach within 5 s after the websocket was closed")
			}
		case errors.As(err, &se):
			if expect {
				stats.Fail(t, "C15:ws-subprotocol:"+tr, doc, "%s: upgrade offering %q refused with %q", who, o.List, se.Line)
			}
		case expect:
			stats.Fail(t, "C15:ws-subprotocol:"+tr, doc, "%s: upgrade offering %q failed: %v", who, o.List, err)
		default:
			// refused by other means (connection closed): acceptable as a refusal
		}
		_ = c.Close()
	}
	time.Sleep(settle())
	if a := r.ev.Attached(); a != attached {
		stats.Fail(t, "C15:ws-subprotocol:"+tr, doc, "%s: %d pipes Attached, but only %d offers contained %q: %v", who, a, attached, right, offers)
	}
	// control
	c := r.conn()
	ws, sel, err := wire.WSDial(c, r.host, r.path, []string{right})
	if err != nil || sel != right {
		stats.Fail(t, "C15:ws-subprotocol:"+tr, doc, "%s: control upgrade offering %q: selected %q, err %v", who, right, sel, err)
	} else if !r.ev.WaitAttached(attached+1, 5*time.Second) {
		stats.Fail(t, "C15:ws-subprotocol:"+tr, doc, "%s: control upgrade offering %q did not attach a pipe within 5 s", who, right)
	}
	if ws != nil {
		_ = ws.Close()
	}

	stats.Eval()
	stats.Class("sub:tr:" + tr)
	stats.Class("sub:role:listen")
	stats.Class(fmt.Sprintf("proto:%#x", info.self))
	for _, o := range offers {
		stats.Eval() // every offer is an executed probe
		stats.Class("offer:" + o.Kind)
		stats.NonTrivial(fmt.Sprintf("sub|%s|listen|%s|%s|%q", tr, ctor, o.Kind, o.List))
	}
	stats.Sample(doc)
}

func subprotoDialCase(t *rapid.T, tr string) {
	ctor := drawCtor(t)
	info := infoOf(ctor)
	want := info.peerName + spSuffix
	refusals := rapid.IntRange(0, 3).Draw(t, "refusals")
	codes := make([]bool, refusals)
	for i := range codes {
		codes[i] = rapid.Bool().Draw(t, fmt.Sprintf("drop%d", i))
	}
	r := newRig(t, ctor, tr, true)
	defer r.close()
	doc := r.doc("TestC15WSSubprotocol")
	doc["refusals"] = codes
	who := fmt.Sprintf("%s %s dialer", ctor, tr)

	check := func(offered []string, path string) {
		if len(offered) != 1 || offered[0] != want || path != r.path {
			stats.Fail(t, "C15:ws-subprotocol:"+tr, doc, "%s: upgrade request for %q offers subprotocols %q, want exactly [%q] on %q", who, path, offered, want, r.path)
		}
	}
	for i := 0; i < refusals; i++ {
		c := r.conn()
		if codes[i] {
			// the server goes away without an answer
			_ = c.Close()
			continue
		}
		_, offered, err := wire.WSAccept(c, func(o []string) (string, bool) { return "", false })
		if !errors.Is(err, wire.ErrRefused) {
			t.Fatalf("harness: reading the upgrade request: %v", err)
		}
		check(offered, r.path) // the path of a refused request is not reported; the accepted one below checks it
		_ = c.Close()
	}
	if refusals > 0 {
		time.Sleep(settle())
		if a := r.ev.Attached(); a != 0 {
			stats.Fail(t, "C15:ws-subprotocol:"+tr, doc, "%s: %d pipes Attached although every upgrade so far was refused", who, a)
		}
	}
	c := r.conn()
	ws, offered, err := wire.WSAccept(c, func(o []string) (string, bool) {
		if len(o) > 0 {
			return o[0], true
		}
		return "", true
	})
	if err != nil {
		t.Fatalf("harness: WSAccept: %v", err)
	}
	check(offered, ws.Path)
	if !r.ev.WaitAttached(1, 5*time.Second) {
		stats.Fail(t, "C15:ws-subprotocol:"+tr, doc, "%s: no pipe attached within 5 s after the server selected %q", who, offered)
	}

	stats.Eval()
	stats.Class("sub:tr:" + tr)
	stats.Class("sub:role:dial")
	stats.Class(fmt.Sprintf("proto:%#x", info.self))
	if refusals > 0 {
		stats.NonTrivial(fmt.Sprintf("sub|%s|dial|%s|%v", tr, ctor, codes))
	}
	stats.Sample(doc)
}

func TestC15WSSubprotocol(t *testing.T) {
	t.Parallel()
	for i, tr := range []string{"ws", "wss"} {
		tr := tr
		subtest(t, 16+2*i, tr+"/listen", func(rt *rapid.T) { subprotoListenCase(rt, tr) })
		subtest(t, 17+2*i, tr+"/dial", func(rt *rapid.T) { subprotoDialCase(rt, tr) })
	}
}

// ---------------------------------------------------------------------------
// Native fuzz target: arbitrary bytes as the peer of a tcp listener.

const fuzzMaxRecv = 4096

// FuzzStreamPeer plays data as everything the peer ever sends (header, then
// frames, then half close) to an xpair tcp listener and compares mangos'
// decisions (attach? which messages delivered?) with what wire's parser
// derives from the same bytes.
func FuzzStreamPeer(f *testing.F) {
	good := wire.Header(0x10)
	frame := func(p []byte) []byte {
		var b bytes.Buffer
		_ = wire.WriteFrame(&b, p, false)
		return b.Bytes()
	}
	f.Add(good[:])
	f.Add(good[:5])
	f.Add([]byte{})
	f.Add(cat(good[:], frame([]byte("hello")), frame(nil), frame(fixture.Payload(1, 300))))
	f.Add(cat(good[:], frame([]byte("hello"))[:10]))
	f.Add(cat(good[:], []byte{0, 0, 0, 0, 0, 0, 0x10, 0x01}, fixture.Payload(2, 100)))
	f.Add(cat(good[:], []byte{0xff, 0xff, 0xff, 0xff, 0xff, 0xff, 0xff, 0xff}, frame([]byte("after"))))
	f.Add(cat(good[:], frame(fixture.Payload(3, fuzzMaxRecv)), frame(fixture.Payload(4, fuzzMaxRecv+1)), frame([]byte("x"))))
	bad := wire.Header(0x11)
	f.Add(cat(bad[:], frame([]byte("hello"))))
	f.Add(cat([]byte{0, 'S', 'P', 1, 0, 0x10, 0, 0}, frame([]byte("v1"))))
	f.Add(cat([]byte{0, 'S', 'P', 0, 0x10, 0, 0, 0}, frame([]byte("le"))))
	f.Add(cat([]byte{0, 'S', 'P', 0, 0, 0x10, 0, 1}, frame([]byte("rsvd"))))

	f.Fuzz(func(t *testing.T, data []byte) {
		if len(data) > 1<<16 {
			return
		}
		// oracle
		wantAttach := false
		var wantMsgs [][]byte
		if len(data) >= 8 {
			if p, ok := wire.ParseHeader(data[:8]); ok && p == 0x10 {
				wantAttach = true
				rd := bytes.NewReader(data[8:])
				for {
					m, err := wire.ReadFrame(rd, false, fuzzMaxRecv)
					if err != nil {
						break
					}
					wantMsgs = append(wantMsgs, m)
				}
			}
		}
		doc := map[string]interface{}{"test": "FuzzStreamPeer", "data": hex.EncodeToString(data)}

		sock := fixture.New("xpair")
		defer sock.Close()
		ev := fixture.Hook(sock)
		_ = sock.SetOption(mangos.OptionMaxRecvSize, fuzzMaxRecv)
		_ = sock.SetOption(mangos.OptionReadQLen, 4)
		a, _, err := fixture.Listen(sock, "tcp")
		if err != nil {
			t.Fatalf("harness: listen: %v", err)
		}
		host, _ := splitURL(a)
		c, err := net.DialTimeout("tcp", host, 5*time.Second)
		if err != nil {
			t.Fatalf("harness: dial: %v", err)
		}
		defer c.Close()
		var hdr [8]byte
		_ = c.SetDeadline(time.Now().Add(10 * time.Second))
		if _, err := io.ReadFull(c, hdr[:]); err != nil || hdr != good {
			stats.Fail(t, "C15:handshake-bytes:tcp", doc, "fuzz: mangos header % x, %v", hdr, err)
		}
		// the peer's bytes are written while the messages are received, so that
		// back-pressure cannot block the writer
		werr := make(chan error, 1)
		go func() {
			_, err := c.Write(data)
			halfClose(c)
			werr <- err
		}()
		if wantAttach {
			if !ev.WaitAttached(1, 5*time.Second) {
				stats.Fail(t, "C15:rejected-good-header:tcp", doc, "fuzz: header % x did not attach", data[:8])
				return
			}
			_ = sock.SetOption(mangos.OptionRecvDeadline, 5*time.Second)
			for i, w := range wantMsgs {
				m, err := sock.RecvMsg()
				if err != nil {
					stats.Fail(t, "C15:fuzz-deliver", doc, "fuzz: message %d of %d (%d bytes) not delivered: %v", i, len(wantMsgs), len(w), err)
					return
				}
				if !bytes.Equal(m.Body, w) || len(m.Header) != 0 {
					stats.Fail(t, "C15:fuzz-deliver", doc, "fuzz: message %d delivered as header % x + %d bytes, want %d bytes, first difference at %d", i, m.Header, len(m.Body), len(w), firstDiff(m.Body, w))
				}
				m.Free()
			}
		}
		closed, _ := awaitClose(c, 5*time.Second)
		if !closed {
			stats.Fail(t, "C15:fuzz-not-closed", doc, "fuzz: connection not closed 5 s after the peer's half close (attach expected: %v)", wantAttach)
		}
		<-werr
		if wantAttach {
			if !ev.WaitDetached(1, 5*time.Second) {
				t.Fatalf("harness: pipe not detached after close")
			}
			_ = sock.SetOption(mangos.OptionRecvDeadline, 10*time.Millisecond)
			if m, err := sock.RecvMsg(); err == nil {
				stats.Fail(t, "C15:fuzz-deliver", doc, "fuzz: extra message of %d bytes (% x...) delivered after the %d well-formed frames", len(m.Body), head(m.Body, 0), len(wantMsgs))
			}
		} else {
			time.Sleep(20 * time.Millisecond)
			if ev.Attached() != 0 {
				stats.Fail(t, "C15:accepted-bad-header:tcp", doc, "fuzz: pipe attached for peer bytes % x", head(data, 0))
			}
		}
		stats.Eval()
		stats.Class("fuzz")
		if wantAttach {
			stats.Class("fuzz:attach")
		}
	})
}
