// C06 — SUB delivers exactly the matching messages; PUB reaches every subscriber.
//
// (A) State machine on a real SUB socket (1-3 contexts, receive queue length 4 so
// that overflow is part of the model) fed by 1-2 virtual-transport publisher pipes,
// over a 4-letter alphabet {00,'a','b',ff} so that equal / prefix / empty / non-UTF8
// topics are frequent; reference model = per-context prefix set + candidate queue.
// (B) Real PUB sockets with 1-4 SUB sockets (1-2 contexts each) over inproc/tcp:
// every context receives exactly the matching subsequence of each publisher's
// stream, once, in order, unmodified, and mutating a received message is not
// visible to any other context.
package c06

import (
	"bytes"
	"fmt"
	"os"
	"sync"
	"testing"
	"time"

	"go.nanomsg.org/mangos/v3"
	"go.nanomsg.org/mangos/v3/protocol/sub"
	"go.nanomsg.org/mangos/v3/verifharness/fixture"
	"go.nanomsg.org/mangos/v3/verifharness/stats"
	"go.nanomsg.org/mangos/v3/verifharness/vt"
	"pgregory.net/rapid"
)

func TestMain(m *testing.M) {
	stats.Init("C06")
	stats.Rule("(A) rapid state machine on SUB (1-3 contexts, queue 4) with 1-2 vt publisher pipes; topics/bodies over {00,'a','b',ff}^0..4; actions subscribe/unsubscribe(present|absent)/publish/recv/openCtx/closeCtx. (B) 1-2 real PUB x 1-4 SUB x 1-2 contexts over inproc/tcp/ipc/ws/tls+tcp, <=100 publications. Also: a Recv already waiting while a subscription is added/removed; (C) one stalled subscriber next to healthy ones; (D) WRITEQ-LEN 0/1 with publications one at a time to idle subscribers. Non-trivial: two topics in prefix relation, an empty topic, an unsubscribe with matching messages queued, or >=2 contexts with different subscriptions; distinct by action/outcome sequence resp. topology+subscriptions")
	stats.Assume("on queue overflow the statement allows any loss; the model then only requires order-preserving delivery of candidates (exact FIFO is required while no overflow happened)")
	rc := m.Run()
	stats.Flush()
	fixture.Cleanup()
	os.Exit(rc)
}

var alphabet = []byte{0x00, 'a', 'b', 0xff}

func genBytes(t *rapid.T, label string, maxLen int) []byte {
	n := rapid.IntRange(0, maxLen).Draw(t, label+"len")
	b := make([]byte, n)
	for i := range b {
		b[i] = alphabet[rapid.IntRange(0, len(alphabet)-1).Draw(t, label)]
	}
	return b
}

type mctx struct {
	c      mangos.Context
	isSock bool
	closed bool
	subs   [][]byte
	cands  [][]byte
	over   bool
}

func (c *mctx) matches(b []byte) bool {
	for _, s := range c.subs {
		if bytes.HasPrefix(b, s) {
			return true
		}
	}
	return false
}

const qlen = 4

func TestC06Sub(t *testing.T) {
	rapid.Check(t, func(t *rapid.T) {
		sock, err := sub.NewSocket()
		if err != nil {
			t.Fatalf("harness: %v", err)
		}
		defer sock.Close()
		if err := sock.SetOption(mangos.OptionReadQLen, qlen); err != nil {
			t.Fatalf("harness: %v", err)
		}
		ep, err := vt.Attach(sock)
		if err != nil {
			t.Fatalf("harness: %v", err)
		}
		defer ep.Forget()
		var trace []string
		logf := func(f string, a ...interface{}) { trace = append(trace, fmt.Sprintf(f, a...)) }
		doc := func() interface{} {
			return map[string]interface{}{"test": "TestC06Sub", "trace": trace, "rseed": os.Getenv("VERIF_RSEED")}
		}
		fail := func(key, f string, a ...interface{}) {
			stats.Fail(t, "C06:"+key, doc(), f+" — history: %v", append(a, trace)...)
		}
		var pipes []*vt.Pipe
		for i, n := 0, rapid.IntRange(1, 2).Draw(t, "npipes"); i < n; i++ {
			p, ok := ep.ConnectWait(5 * time.Second)
			if !ok {
				t.Fatalf("harness: no pipe")
			}
			pipes = append(pipes, p)
		}
		ctxs := []*mctx{{c: sock, isSock: true}}
		canon := ""
		prefixRel, emptyTopic, unsubQueued := false, false, false
		serial := 0
		pick := func(label string) (int, *mctx) {
			i := rapid.IntRange(0, len(ctxs)-1).Draw(t, label)
			if ctxs[i].closed && rapid.IntRange(0, 3).Draw(t, label+"k") != 0 {
				i = 0
			}
			return i, ctxs[i]
		}
		acts := map[string]func(*rapid.T){
			"subscribe": func(t *rapid.T) {
				ci, c := pick("ctx")
				if c.closed {
					t.Skip("closed context: option calls are not constrained by the property")
				}
				topic := genBytes(t, "topic", 3)
				var v interface{} = topic
				if rapid.Bool().Draw(t, "asString") {
					v = string(topic)
				}
				err := c.c.SetOption(mangos.OptionSubscribe, v)
				logf("subscribe(ctx%d,%x)=%v", ci, topic, err)
				canon += fmt.Sprintf("s%d", len(topic))
				if err != nil {
					fail("subscribe-error", "Subscribe(%x) on ctx %d: %v", topic, ci, err)
					return
				}
				if c.closed {
					return
				}
				dup := false
				for _, s := range c.subs {
					if bytes.Equal(s, topic) {
						dup = true
					} else if bytes.HasPrefix(s, topic) || bytes.HasPrefix(topic, s) {
						prefixRel = true
					}
				}
				if len(topic) == 0 {
					emptyTopic = true
				}
				if !dup {
					c.subs = append(c.subs, append([]byte{}, topic...))
				}
				// the caller's buffer must not be retained
				for i := range topic {
					topic[i] ^= 0x55
				}
			},
			"unsubscribe": func(t *rapid.T) {
				ci, c := pick("ctx")
				if c.closed {
					t.Skip("closed context")
				}
				var topic []byte
				if len(c.subs) > 0 && rapid.IntRange(0, 3).Draw(t, "present") != 0 {
					topic = append([]byte{}, c.subs[rapid.IntRange(0, len(c.subs)-1).Draw(t, "which")]...)
				} else {
					topic = genBytes(t, "topic", 3)
				}
				present := -1
				for i, s := range c.subs {
					if bytes.Equal(s, topic) {
						present = i
					}
				}
				err := c.c.SetOption(mangos.OptionUnsubscribe, topic)
				logf("unsubscribe(ctx%d,%x)=%v", ci, topic, err)
				canon += "u"
				if present < 0 {
					if err != mangos.ErrBadValue {
						fail("unsubscribe-absent", "Unsubscribe of absent topic %x on ctx %d returned %v, want ErrBadValue", topic, ci, err)
					}
					return
				}
				if err != nil {
					fail("unsubscribe-error", "Unsubscribe(%x) on ctx %d: %v", topic, ci, err)
					return
				}
				c.subs = append(c.subs[:present], c.subs[present+1:]...)
				var keep [][]byte
				for _, m := range c.cands {
					if c.matches(m) {
						keep = append(keep, m)
					} else {
						unsubQueued = true
					}
				}
				c.cands = keep
				canon += "!"
			},
			"publish": func(t *rapid.T) {
				pi := rapid.IntRange(0, len(pipes)-1).Draw(t, "pipe")
				serial++
				body := append(genBytes(t, "body", 4), []byte(fmt.Sprintf("|%d", serial))...)
				if rapid.IntRange(0, 9).Draw(t, "bare") == 0 {
					body = genBytes(t, "barebody", 2) // may be empty or equal to a topic
					body = append(body, byte(serial)|0x80)
				}
				res := pipes[pi].Inject(body, 3*time.Second)
				logf("publish(pipe%d,%x)=%d", pi, body, res)
				if res != vt.InjProcessed {
					fail("receiver-stalled", "SUB receiver did not process a publication within 3s (result %d)", res)
					return
				}
				for _, c := range ctxs {
					if !c.closed && c.matches(body) {
						c.cands = append(c.cands, body)
						if len(c.cands) > qlen {
							c.over = true
						}
					}
				}
				canon += "p"
			},
			"recv": func(t *rapid.T) {
				ci, c := pick("ctx")
				d := 3 * time.Second
				if c.closed {
					d = time.Second
				} else if len(c.cands) == 0 {
					d = 30 * time.Millisecond
				} else if c.over {
					d = 300 * time.Millisecond
				}
				if err := c.c.SetOption(mangos.OptionRecvDeadline, d); err != nil {
					t.Fatalf("harness: %v", err)
				}
				start := time.Now()
				b, err := c.c.Recv()
				el := time.Since(start)
				logf("recv(ctx%d)=(%x,%v)", ci, b, err)
				canon += "R"
				if c.closed {
					// a closed context fails with ErrClosed or hands out a message that was already queued
					queued := false
					for i, m := range c.cands {
						if err == nil && bytes.Equal(m, b) {
							queued = true
							c.cands = c.cands[i+1:]
							break
						}
					}
					if err != mangos.ErrClosed && !queued {
						fail("recv-closed", "Recv on closed ctx %d: (%x,%v), want ErrClosed or an already queued message", ci, b, err)
					}
					return
				}
				if err != nil {
					if err != mangos.ErrRecvTimeout {
						fail("recv-error", "Recv on ctx %d: %v", ci, err)
					} else if el < d {
						fail("timeout-early", "Recv timed out after %v < %v", el, d)
					} else if len(c.cands) > 0 && !c.over {
						fail("message-lost", "ctx %d (subscriptions %x) timed out although %d matching messages were queued without overflow; next expected %x", ci, c.subs, len(c.cands), c.cands[0])
					}
					c.cands, c.over = nil, false
					canon += "t"
					return
				}
				idx := -1
				for i, m := range c.cands {
					if bytes.Equal(m, b) {
						idx = i
						break
					}
				}
				switch {
				case idx < 0:
					if !c.matches(b) {
						fail("non-matching-delivered", "ctx %d (subscriptions %x) received %x, which matches none of its current subscriptions", ci, c.subs, b)
					} else {
						fail("unexpected-delivered", "ctx %d received %x, which is not a pending matching publication (duplicate, invented or already pruned)", ci, b)
					}
					return
				case idx > 0 && !c.over:
					fail("order", "ctx %d received %x but the older matching publication %x is still undelivered (no overflow happened)", ci, b, c.cands[0])
				}
				c.cands = c.cands[idx+1:]
				if len(c.cands) == 0 {
					c.over = false
				}
			},
			"openCtx": func(t *rapid.T) {
				if len(ctxs) >= 3 {
					t.Skip("enough")
				}
				c, err := sock.OpenContext()
				if err != nil {
					fail("opencontext", "OpenContext: %v", err)
					return
				}
				if err := c.SetOption(mangos.OptionReadQLen, qlen); err != nil {
					t.Fatalf("harness: %v", err)
				}
				ctxs = append(ctxs, &mctx{c: c})
				logf("openCtx")
				canon += "O"
			},
			"closeCtx": func(t *rapid.T) {
				ci, c := pick("ctx")
				if c.isSock || c.closed {
					t.Skip("n/a")
				}
				if err := c.c.Close(); err != nil {
					fail("ctx-close", "close: %v", err)
				}
				c.closed = true
				logf("closeCtx(%d)", ci)
				canon += "C"
			},
		}
		// A Recv that is already waiting on an empty queue must see publications that match the
		// subscriptions in force when they arrive — also when the set changed while it waited.
		acts["recvBlockedAcrossChange"] = func(t *rapid.T) {
			ci, c := pick("ctx")
			if c.closed || len(c.cands) > 0 || c.over || len(c.subs) == 0 {
				t.Skip("needs an open context with subscriptions and an empty queue")
			}
			change := rapid.SampledFrom([]string{"unsubscribe", "unsubscribe", "subscribe", "none"}).Draw(t, "change")
			if change == "unsubscribe" && len(c.subs) < 2 {
				change = "subscribe"
			}
			if err := c.c.SetOption(mangos.OptionRecvDeadline, 3*time.Second); err != nil {
				t.Fatalf("harness: %v", err)
			}
			type rr struct {
				b   []byte
				err error
			}
			ch := make(chan rr, 1)
			before := fixture.CountGoroutines("protocol/sub.(*context).RecvMsg")
			go func() { b, err := c.c.Recv(); ch <- rr{b, err} }()
			// wait until the Recv is really waiting inside the library
			fixture.WaitGoroutines(before+1, time.Second, "protocol/sub.(*context).RecvMsg")
			switch change {
			case "unsubscribe":
				i := rapid.IntRange(0, len(c.subs)-1).Draw(t, "which")
				topic := append([]byte{}, c.subs[i]...)
				if err := c.c.SetOption(mangos.OptionUnsubscribe, topic); err != nil {
					fail("unsubscribe-error", "Unsubscribe(%x) on ctx %d while a Recv waits: %v", topic, ci, err)
					return
				}
				c.subs = append(c.subs[:i], c.subs[i+1:]...)
				logf("recvAsync(ctx%d) unsubscribe(ctx%d,%x)", ci, ci, topic)
			case "subscribe":
				topic := genBytes(t, "topic", 3)
				if err := c.c.SetOption(mangos.OptionSubscribe, topic); err != nil {
					fail("subscribe-error", "Subscribe(%x) on ctx %d while a Recv waits: %v", topic, ci, err)
					return
				}
				dup := false
				for _, s := range c.subs {
					if bytes.Equal(s, topic) {
						dup = true
					}
				}
				if !dup {
					c.subs = append(c.subs, append([]byte{}, topic...))
				}
				logf("recvAsync(ctx%d) subscribe(ctx%d,%x)", ci, ci, topic)
			default:
				logf("recvAsync(ctx%d)", ci)
			}
			serial++
			body := append(append([]byte{}, c.subs[rapid.IntRange(0, len(c.subs)-1).Draw(t, "match")]...), []byte(fmt.Sprintf("|%d", serial))...)
			pi := rapid.IntRange(0, len(pipes)-1).Draw(t, "pipe")
			res := pipes[pi].Inject(body, 3*time.Second)
			logf("publish(pipe%d,%x)=%d", pi, body, res)
			if res != vt.InjProcessed {
				fail("receiver-stalled", "SUB receiver did not process a publication within 3s (result %d)", res)
				return
			}
			for _, o := range ctxs {
				if o != c && !o.closed && o.matches(body) {
					o.cands = append(o.cands, body)
					if len(o.cands) > qlen {
						o.over = true
					}
				}
			}
			canon += "B" + change[:1]
			select {
			case r := <-ch:
				logf("  waiting recv(ctx%d)=(%x,%v)", ci, r.b, r.err)
				if r.err != nil || !bytes.Equal(r.b, body) {
					fail("blocked-recv-wrong", "ctx %d (subscriptions %x): a Recv that was waiting while the subscriptions changed (%s) returned (%x,%v), want the matching publication %x", ci, c.subs, change, r.b, r.err, body)
				}
			case <-time.After(4 * time.Second):
				fail("blocked-recv-missed", "ctx %d (subscriptions %x): a Recv that was waiting while the subscriptions changed (%s) did not return the matching publication %x", ci, c.subs, change, body)
			}
			stats.Class("recv_blocked_across_" + change)
		}
		acts["publish2"] = acts["publish"]
		acts["publish3"] = acts["publish"]
		acts["publish4"] = acts["publish"]
		acts["recv2"] = acts["recv"]
		acts["recv3"] = acts["recv"]
		acts["subscribe2"] = acts["subscribe"]
		t.Repeat(acts)

		stats.Eval()
		diff := 0
		for _, c := range ctxs {
			if len(c.subs) > 0 {
				diff++
			}
		}
		nt := prefixRel || emptyTopic || unsubQueued || diff >= 2
		for k, v := range map[string]bool{"prefix_related_topics": prefixRel, "empty_topic": emptyTopic, "unsubscribe_pruned_queue": unsubQueued, "multi_context_subs": diff >= 2} {
			if v {
				stats.Class(k)
			}
		}
		if nt {
			stats.NonTrivial(canon)
		}
		stats.Sample(map[string]interface{}{"trace": trace})
	})
}

// ---------------------------------------------------------------------------

func TestC06PubFanout(t *testing.T) {
	stats.ScaledChecks(4, 5, func() { rapid.Check(t, fanoutProp) })
}

func fanoutProp(t *rapid.T) {
	tr := rapid.SampledFrom([]string{"inproc", "inproc", "tcp", "ipc", "ws", "tls+tcp"}).Draw(t, "transport")
	npub := rapid.IntRange(1, 2).Draw(t, "npub")
	nsub := rapid.IntRange(1, 4).Draw(t, "nsub")
	rawPub := rapid.Bool().Draw(t, "rawPub")
	nmsg := rapid.IntRange(1, 40).Draw(t, "nmsg")
	topics := [][]byte{{}, {'a'}, {'a', 'b'}, {'b'}, {0xff}, {0x00}, {'a', 0x00}}
	type ctxSpec struct {
		subs [][]byte
	}
	specs := make([][]ctxSpec, nsub)
	for i := range specs {
		nc := rapid.IntRange(1, 2).Draw(t, "nctx")
		specs[i] = make([]ctxSpec, nc)
		for j := range specs[i] {
			k := rapid.IntRange(0, 3).Draw(t, "nsubs")
			for x := 0; x < k; x++ {
				specs[i][j].subs = append(specs[i][j].subs, topics[rapid.IntRange(0, len(topics)-1).Draw(t, "topic")])
			}
		}
	}
	bodies := make([][]byte, nmsg)
	for i := range bodies {
		bodies[i] = append(append([]byte{}, topics[rapid.IntRange(0, len(topics)-1).Draw(t, "btopic")]...), genBytes(t, "tail", 2)...)
	}
	doc := map[string]interface{}{"test": "TestC06PubFanout", "transport": tr, "npub": npub, "nsub": nsub, "nmsg": nmsg, "rawPub": rawPub, "specs": fmt.Sprint(specs), "rseed": os.Getenv("VERIF_RSEED")}
	var fmu sync.Mutex
	var failures [][2]string
	fail := func(k, f string, a ...interface{}) {
		fmu.Lock()
		failures = append(failures, [2]string{k, fmt.Sprintf(f, a...)})
		fmu.Unlock()
	}
	defer func() {
		fmu.Lock()
		defer fmu.Unlock()
		if len(failures) > 0 {
			stats.Fail(t, "C06:fanout-"+failures[0][0], doc, "%s", failures[0][1])
		}
	}()

	var all []mangos.Socket
	defer func() {
		for _, s := range all {
			_ = s.Close()
		}
	}()
	pubName := "pub"
	if rawPub {
		pubName = "xpub"
	}
	pubs := make([]mangos.Socket, npub)
	addrs := make([]string, npub)
	pev := make([]*fixture.Events, npub)
	for i := range pubs {
		pubs[i] = fixture.New(pubName)
		all = append(all, pubs[i])
		pev[i] = fixture.Hook(pubs[i])
		a, _, err := fixture.Listen(pubs[i], tr)
		if err != nil {
			t.Fatalf("harness: %v", err)
		}
		addrs[i] = a
	}
	endTopic := []byte{0xfe, 'E', 'N', 'D'}
	type rctx struct {
		c    mangos.Context
		subs [][]byte
		name string
	}
	var rctxs []*rctx
	for i := 0; i < nsub; i++ {
		s := fixture.New("sub")
		all = append(all, s)
		sev := fixture.Hook(s)
		for j, sp := range specs[i] {
			var c mangos.Context = s
			if j > 0 {
				var err error
				if c, err = s.OpenContext(); err != nil {
					t.Fatalf("harness: %v", err)
				}
			}
			for _, tp := range sp.subs {
				if err := c.SetOption(mangos.OptionSubscribe, tp); err != nil {
					t.Fatalf("harness: %v", err)
				}
			}
			if err := c.SetOption(mangos.OptionSubscribe, endTopic); err != nil {
				t.Fatalf("harness: %v", err)
			}
			_ = c.SetOption(mangos.OptionRecvDeadline, 5*time.Second)
			rctxs = append(rctxs, &rctx{c, sp.subs, fmt.Sprintf("sub%d/ctx%d", i, j)})
		}
		for k, a := range addrs {
			if _, err := fixture.Dial(s, a); err != nil {
				t.Fatalf("harness: dial: %v", err)
			}
			if !sev.WaitAttached(k+1, 5*time.Second) || !pev[k].WaitAttached(i+1, 5*time.Second) {
				t.Fatalf("harness: attach timeout")
			}
		}
	}
	// publish: publisher k sends tagged copies of every body, then its END marker
	mk := func(k, i int) []byte {
		return append(append([]byte{}, bodies[i]...), []byte(fmt.Sprintf("|pub%d|%d", k, i))...)
	}
	var wg sync.WaitGroup
	for k := range pubs {
		wg.Add(1)
		go func(k int) {
			defer wg.Done()
			for i := range bodies {
				if err := pubs[k].Send(mk(k, i)); err != nil {
					fail("send-error", "publisher %d: %v", k, err)
					return
				}
			}
			if err := pubs[k].Send(append(append([]byte{}, endTopic...), byte(k))); err != nil {
				fail("send-error", "publisher %d: %v", k, err)
			}
		}(k)
	}
	wg.Wait()
	match := func(subs [][]byte, b []byte) bool {
		for _, s := range subs {
			if bytes.HasPrefix(b, s) {
				return true
			}
		}
		return false
	}
	// receive: each context, in turn; mutate what was received so a shared buffer would show
	for _, rc := range rctxs {
		next := make([]int, npub) // next index to expect per publisher
		ends := 0
		for ends < npub {
			m, err := rc.c.RecvMsg()
			if err != nil {
				fail("missing", "%s (subscriptions %x) stopped receiving (%v) before the END markers of all %d publishers arrived", rc.name, rc.subs, err, npub)
				return
			}
			b := append([]byte{}, m.Body...)
			for i := range m.Body {
				m.Body[i] ^= 0xA5 // we own it: nobody else may see this
			}
			m.Free()
			if bytes.HasPrefix(b, endTopic) {
				k := int(b[len(endTopic)])
				// everything matching from publisher k must have arrived before
				for i := next[k]; i < nmsg; i++ {
					if match(rc.subs, mk(k, i)) {
						fail("missing", "%s (subscriptions %x) never received matching publication %x of publisher %d", rc.name, rc.subs, mk(k, i), k)
						return
					}
				}
				next[k] = nmsg
				ends++
				continue
			}
			// identify publisher and index from the tag
			var k, i int
			bar := bytes.LastIndexByte(b, '|')
			bar2 := bytes.LastIndexByte(b[:max(bar, 0)], '|')
			if bar < 0 || bar2 < 0 {
				fail("garbled", "%s received %x, not a publication", rc.name, b)
				return
			}
			if _, err := fmt.Sscanf(string(b[bar2:]), "|pub%d|%d", &k, &i); err != nil || k < 0 || k >= npub || i < 0 || i >= nmsg || !bytes.Equal(b, mk(k, i)) {
				fail("modified", "%s received %x, which is not byte-identical to any publication", rc.name, b)
				return
			}
			if !match(rc.subs, b) {
				fail("non-matching", "%s (subscriptions %x) received non-matching publication %x", rc.name, rc.subs, b)
				return
			}
			if i < next[k] {
				fail("duplicate-or-reordered", "%s received publication %d of publisher %d after publication %d", rc.name, i, k, next[k]-1)
				return
			}
			for j := next[k]; j < i; j++ {
				if match(rc.subs, mk(k, j)) {
					fail("missing", "%s skipped matching publication %x of publisher %d (no overflow possible: %d messages < queue 128)", rc.name, mk(k, j), k, nmsg)
					return
				}
			}
			next[k] = i + 1
		}
	}
	stats.Eval()
	stats.Class("fanout:" + tr)
	stats.NonTrivial(fmt.Sprintf("B|%s|%d|%d|%v|%v", tr, npub, nsub, rawPub, specs))
	stats.Sample(doc)
}

// TestC06StalledSubscriber: a subscriber that stops reading (its pipe back-pressures, its
// per-pipe queue overflows) must not cost the other subscribers anything: publishing in lock-step
// with the healthy subscribers, whose queues therefore never overflow, every one of them must
// receive every publication.
func TestC06StalledSubscriber(t *testing.T) {
	stats.ScaledChecks(6, 4, func() {
		rapid.Check(t, func(t *rapid.T) {
			pubName := rapid.SampledFrom([]string{"pub", "xpub"}).Draw(t, "pub")
			tr := rapid.SampledFrom([]string{"inproc", "tcp", "ipc"}).Draw(t, "transport")
			wq := rapid.SampledFrom([]int{1, 2, 4}).Draw(t, "writeq")
			nhealthy := rapid.IntRange(1, 3).Draw(t, "healthy")
			nstalled := rapid.IntRange(1, 2).Draw(t, "stalled")
			nmsg := rapid.IntRange(20, 150).Draw(t, "nmsg")
			size := rapid.SampledFrom([]int{10, 100, 5000, 60000}).Draw(t, "size")
			key := rapid.Uint64().Draw(t, "key")
			doc := map[string]interface{}{"test": "TestC06StalledSubscriber", "pub": pubName, "transport": tr, "writeq": wq, "healthy": nhealthy, "stalled": nstalled, "nmsg": nmsg, "size": size, "rseed": os.Getenv("VERIF_RSEED")}
			p := fixture.New(pubName)
			defer p.Close()
			if err := p.SetOption(mangos.OptionWriteQLen, wq); err != nil {
				t.Fatalf("harness: %v", err)
			}
			pe := fixture.Hook(p)
			addr, _, err := fixture.Listen(p, tr)
			if err != nil {
				t.Skip("port busy")
			}
			// stalled subscribers: virtual-transport pipes that never take data
			for i := 0; i < nstalled; i++ {
				ep := vt.New()
				defer ep.Forget()
				bp := ep.NewPipe()
				bp.SetMode(vt.ModeBlock, nil)
				defer bp.Close()
				ep.SetDial(func(n int) (*vt.Pipe, error) {
					if n == 0 {
						return bp, nil
					}
					return nil, mangos.ErrConnRefused
				})
				if err := p.DialOptions(ep.Addr, map[string]interface{}{mangos.OptionDialAsynch: true, mangos.OptionReconnectTime: time.Hour}); err != nil {
					t.Fatalf("harness: %v", err)
				}
				if !pe.WaitAttached(i+1, 3*time.Second) {
					t.Fatalf("harness: stalled pipe not attached")
				}
			}
			var subs []mangos.Socket
			for i := 0; i < nhealthy; i++ {
				s := fixture.New("sub")
				defer s.Close()
				_ = s.SetOption(mangos.OptionSubscribe, "")
				_ = s.SetOption(mangos.OptionRecvDeadline, 5*time.Second)
				se := fixture.Hook(s)
				if _, err := fixture.Dial(s, addr); err != nil {
					t.Fatalf("harness: %v", err)
				}
				if !se.WaitAttached(1, 5*time.Second) || !pe.WaitAttached(nstalled+i+1, 5*time.Second) {
					t.Fatalf("harness: attach timeout")
				}
				subs = append(subs, s)
			}
			for i := 0; i < nmsg; i++ {
				body := append([]byte(fmt.Sprintf("%06d|", i)), fixture.Payload(key+uint64(i), size)...)
				if err := p.Send(body); err != nil {
					stats.Fail(t, "C06:stalled-send-error", doc, "publish %d: %v", i, err)
					return
				}
				for si, s := range subs {
					got, err := s.Recv()
					if err != nil || !bytes.Equal(got, body) {
						stats.Fail(t, "C06:stalled-subscriber-affects-others", doc, "%s over %s, write queue %d: healthy subscriber %d did not receive publication %d (%v; got %d bytes) although only the %d stalled subscriber(s) had a full queue", pubName, tr, wq, si, i, err, len(got), nstalled)
						return
					}
				}
			}
			stats.Eval()
			stats.Class("stalled_subscriber:" + tr)
			stats.NonTrivial(fmt.Sprintf("S|%s|%s|%d|%d|%d|%d|%d", pubName, tr, wq, nhealthy, nstalled, nmsg, size))
			stats.Sample(doc)
		})
	})
}

// TestC06IdleDelivery: every accepted write-queue length, 0 included, lets a publication through
// to a subscriber whose connection is idle ("queue space permitting" can only excuse a loss when
// something is queued or in transmission).  Publications go out one at a time and are repeated,
// with pauses, until every subscriber has them (at most 60 times); a loss counts only if it shows
// in three consecutive executions of the same case.
func TestC06IdleDelivery(t *testing.T) {
	stats.ScaledChecks(12, 4, func() {
		rapid.Check(t, func(t *rapid.T) {
			pubName := rapid.SampledFrom([]string{"pub", "xpub"}).Draw(t, "pub")
			tr := rapid.SampledFrom([]string{"inproc", "tcp", "ipc"}).Draw(t, "transport")
			wq := rapid.SampledFrom([]int{0, 0, 1}).Draw(t, "writeq")
			nsub := rapid.IntRange(1, 3).Draw(t, "subscribers")
			nmsg := rapid.IntRange(5, 20).Draw(t, "nmsg")
			doc := map[string]interface{}{"test": "TestC06IdleDelivery", "pub": pubName, "transport": tr, "writeq": wq, "subscribers": nsub, "nmsg": nmsg, "rseed": os.Getenv("VERIF_RSEED")}
			attempt := func() (string, bool) {
				p := fixture.New(pubName)
				defer p.Close()
				if err := p.SetOption(mangos.OptionWriteQLen, wq); err != nil {
					t.Fatalf("harness: %v", err)
				}
				pe := fixture.Hook(p)
				addr, _, err := fixture.Listen(p, tr)
				if err != nil {
					t.Skip("port busy")
				}
				var subs []mangos.Socket
				for i := 0; i < nsub; i++ {
					s := fixture.New("sub")
					defer s.Close()
					_ = s.SetOption(mangos.OptionSubscribe, "")
					_ = s.SetOption(mangos.OptionRecvDeadline, time.Second)
					se := fixture.Hook(s)
					if _, err := fixture.Dial(s, addr); err != nil {
						t.Fatalf("harness: %v", err)
					}
					if !se.WaitAttached(1, 5*time.Second) || !pe.WaitAttached(i+1, 5*time.Second) {
						t.Fatalf("harness: attach timeout")
					}
					subs = append(subs, s)
				}
				time.Sleep(5 * time.Millisecond)
				// Whether a connection is idle at the instant of a Send cannot be observed (its sender
				// goroutine may not have come back to the queue yet), so each publication is repeated,
				// with pauses, until every subscriber has it: an implementation that can deliver to an
				// idle connection gets through within a few tries, one that drops everything never does.
				for _, s := range subs {
					_ = s.SetOption(mangos.OptionRecvDeadline, 20*time.Millisecond)
				}
				for i := 0; i < nmsg; i++ {
					body := []byte(fmt.Sprintf("idle-%04d", i))
					have := make([]bool, len(subs))
					missing := len(subs)
					for try := 0; try < 60 && missing > 0; try++ {
						if err := p.Send(body); err != nil {
							return fmt.Sprintf("publish %d: %v", i, err), false
						}
						for si, s := range subs {
							for !have[si] {
								got, err := s.Recv()
								if err != nil {
									break
								}
								if bytes.Equal(got, body) {
									have[si] = true
									missing--
								}
							}
						}
						if missing > 0 {
							time.Sleep(3 * time.Millisecond)
						}
					}
					if missing > 0 {
						return fmt.Sprintf("publication %d, sent 60 times with pauses, never reached %d of the %d subscribers although their connections were idle", i, missing, nsub), false
					}
					// drain repeats
					for _, s := range subs {
						for {
							if _, err := s.Recv(); err != nil {
								break
							}
						}
					}
				}
				return "", true
			}
			var msg string
			ok := false
			for k := 0; k < 3 && !ok; k++ {
				msg, ok = attempt()
			}
			if !ok {
				stats.Fail(t, "C06:idle-delivery", doc, "%s over %s with WRITEQ-LEN %d (3 of 3 executions): %s", pubName, tr, wq, msg)
				return
			}
			stats.Eval()
			stats.Class(fmt.Sprintf("idle_delivery_wq%d", wq))
			stats.NonTrivial(fmt.Sprintf("I|%s|%s|%d|%d|%d", pubName, tr, wq, nsub, nmsg))
			stats.Sample(doc)
		})
	})
}
