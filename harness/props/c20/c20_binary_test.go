package c20

// The built macat binary (macat/macat) as a subprocess: exit status and the stdout/stderr split.
// Complements the in-process checks of c20_test.go, which cannot see main()'s behaviour.

import (
	"bytes"
	"fmt"
	"os"
	"os/exec"
	"path/filepath"
	"strings"
	"testing"
	"time"

	"go.nanomsg.org/mangos/v3"
	"go.nanomsg.org/mangos/v3/verifharness/fixture"
	"go.nanomsg.org/mangos/v3/verifharness/stats"
	"pgregory.net/rapid"
)

func buildMacat(t *testing.T) string {
	repo := os.Getenv("VERIF_REPO_DIR")
	if repo == "" {
		repo = "/repo"
	}
	out := filepath.Join(fixture.ScratchDir(), "macat.bin")
	cmd := exec.Command("go", "build", "-o", out, "./macat/macat")
	cmd.Dir = repo
	cmd.Env = append(os.Environ(), "GOFLAGS=-mod=mod", "GOPROXY=off", "GOSUMDB=off", "GOTOOLCHAIN=local")
	if b, err := cmd.CombinedOutput(); err != nil {
		t.Fatalf("harness: building macat: %v\n%s", err, b)
	}
	return out
}

func runBin(bin string, timeout time.Duration, args ...string) (stdout, stderr []byte, code int, hung bool) {
	cmd := exec.Command(bin, args...)
	var so, se bytes.Buffer
	cmd.Stdout, cmd.Stderr = &so, &se
	if err := cmd.Start(); err != nil {
		return nil, nil, -1, false
	}
	done := make(chan error, 1)
	go func() { done <- cmd.Wait() }()
	select {
	case err := <-done:
		code = 0
		if ee, ok := err.(*exec.ExitError); ok {
			code = ee.ExitCode()
		} else if err != nil {
			code = -1
		}
	case <-time.After(timeout):
		_ = cmd.Process.Kill()
		<-done
		hung = true
	}
	return so.Bytes(), se.Bytes(), code, hung
}

func TestC20Binary(t *testing.T) {
	if s := os.Getenv("VERIF_SHARD"); s != "" && s != "0" {
		t.Skip("subprocess cases run in one shard only")
	}
	bin := buildMacat(t)
	stats.ScaledChecks(20, 12, func() {
		rapid.Check(t, func(t *rapid.T) {
			kind := rapid.SampledFrom([]string{"conflict", "conflict", "print", "send"}).Draw(t, "kind")
			doc := map[string]interface{}{"test": "TestC20Binary", "kind": kind}
			fail := func(k, f string, a ...interface{}) {
				stats.Fail(t, "C20:binary-"+k, doc, "%s", fmt.Sprintf(f, a...))
			}
			switch kind {
			case "conflict":
				args := rapid.SampledFrom([][]string{
					{},
					{"--pull"},
					{"--bind", "inproc://x"},
					{"--pull", "--push", "--bind", "inproc://x"},
					{"--pull", "--bind", "inproc://x", "--raw", "--ascii"},
					{"--push", "--bind", "inproc://x", "--data", "a", "--file", "/dev/null"},
					{"--pull", "--bind", "inproc://x", "--subscribe", "t"},
					{"--pull", "--bind", "inproc://x", "extra"},
					{"--pull", "--bind", "inproc://x", "--recv-timeout", "soon"},
					{"--pull", "--bind", "inproc://x", "--no-such-option"},
					{"--pull", "--bind", "bogus://x"},
					{"--push", "--connect", "tcp://127.0.0.1:1", "--file", "/nonexistent/file"},
					{"--pull", "--bind", "tls+tcp://127.0.0.1:0"},
				}).Draw(t, "args")
				doc["args"] = args
				so, se, code, hung := runBin(bin, 10*time.Second, args...)
				if hung {
					fail("conflict-ran", "macat %v kept running instead of rejecting the options", args)
					return
				}
				if code != 1 {
					fail("exit-status", "macat %v exited with status %d, want 1 (stderr: %s)", args, code, se)
				}
				if len(so) != 0 {
					fail("stdout-on-error", "macat %v wrote %q to stdout although it rejected its options", args, so)
				}
				if len(bytes.TrimSpace(se)) == 0 {
					fail("no-error-message", "macat %v exited %d without an error message", args, code)
				}
				stats.NonTrivial("bin|conflict|" + strings.Join(args, " "))
			case "print":
				// a PULL macat prints what a harness PUSH sends and ends by its receive timeout, exit 0 or 1?
				// (the timeout ends Run with an error: the status is not asserted, the output is)
				addr := fixture.Addr("tcp")
				format := rapid.SampledFrom([]string{"--raw", "--ascii", "--quoted"}).Draw(t, "format")
				n := rapid.IntRange(1, 4).Draw(t, "n")
				var bodies [][]byte
				for i := 0; i < n; i++ {
					b := rapid.SliceOfN(rapid.Byte(), 0, 40).Draw(t, "body")
					bodies = append(bodies, b)
				}
				doc["format"], doc["bodies"] = format, fmt.Sprintf("%x", bodies)
				done := make(chan struct{})
				var so []byte
				var hung bool
				go func() {
					so, _, _, hung = runBin(bin, 15*time.Second, "--pull", "--bind", addr, format, "--recv-timeout", "1")
					close(done)
				}()
				push := fixture.New("push")
				defer push.Close()
				_ = push.SetOption(mangos.OptionSendDeadline, 5*time.Second)
				opts := map[string]interface{}{mangos.OptionDialAsynch: true, mangos.OptionReconnectTime: 5 * time.Millisecond, mangos.OptionMaxReconnectTime: 5 * time.Millisecond}
				if err := push.DialOptions(addr, opts); err != nil {
					t.Fatalf("harness: %v", err)
				}
				for _, b := range bodies {
					if err := push.Send(b); err != nil {
						t.Skip("macat did not come up in time")
					}
				}
				<-done
				if hung {
					fail("hang", "macat --pull --recv-timeout 1 did not end within 15s")
					return
				}
				var want []byte
				for _, b := range bodies {
					switch format {
					case "--raw":
						want = append(want, b...)
					case "--ascii":
						for _, c := range b {
							if c >= 0x20 && c < 0x7f {
								want = append(want, c)
							} else if c >= 0x80 {
								want = append(want, '?') // either the byte or a dot: compared leniently below
							} else {
								want = append(want, '.')
							}
						}
						want = append(want, '\n')
					}
				}
				switch format {
				case "--raw":
					if !bytes.Equal(so, want) {
						fail("raw-bytes", "macat --raw printed %x, want %x", so, want)
					}
				case "--ascii":
					if len(so) != len(want) {
						fail("ascii-length", "macat --ascii printed %d bytes, want %d (%q)", len(so), len(want), so)
						break
					}
					for i := range want {
						if want[i] == '?' {
							continue
						}
						if so[i] != want[i] {
							fail("ascii-byte", "macat --ascii output byte %d is %q, want %q", i, so[i], want[i])
							break
						}
					}
				case "--quoted":
					if c := bytes.Count(so, []byte{'\n'}); c != n {
						fail("count", "macat --quoted printed %d records for %d messages", c, n)
					}
				}
				stats.NonTrivial(fmt.Sprintf("bin|print|%s|%x", format, bodies))
			case "send":
				addr := fixture.Addr("tcp")
				count := rapid.IntRange(1, 3).Draw(t, "count")
				data := rapid.StringMatching(`[a-zA-Z0-9 _.,:=-]{0,24}`).Draw(t, "data")
				doc["data"], doc["count"] = data, count
				pull := fixture.New("pull")
				defer pull.Close()
				if err := pull.Listen(addr); err != nil {
					t.Skip("port busy")
				}
				_ = pull.SetOption(mangos.OptionRecvDeadline, 5*time.Second)
				_, se, code, hung := runBin(bin, 15*time.Second, "--push", "--connect", addr, "--data", data, "--count", fmt.Sprint(count), "-i", "10ms")
				if hung {
					fail("hang", "macat --push --count %d did not end", count)
					return
				}
				if code != 0 {
					fail("exit-status", "macat --push --data %q --count %d exited %d (stderr %s)", data, count, code, se)
				}
				got := 0
				for {
					b, err := pull.Recv()
					if err != nil {
						break
					}
					if string(b) != data {
						fail("send-bytes", "peer received %q, want %q", b, data)
					}
					got++
					if got == count {
						_ = pull.SetOption(mangos.OptionRecvDeadline, 200*time.Millisecond)
					}
				}
				if got != count {
					fail("count", "macat --count %d delivered %d messages", count, got)
				}
				stats.NonTrivial(fmt.Sprintf("bin|send|%q|%d", data, count))
			}
			stats.Eval()
			stats.Class("binary:" + kind)
			stats.Sample(doc)
		})
	})
}
