// C20 — macat prints and sends exactly what crossed the socket.
//
// The macat application is driven in-process (macat.App, stdout captured through
// the verif hook VerifSetStdout) against harness peer sockets.
//
//	TestC20Print     peer -> macat: the captured output is decoded by independent
//	                 decoders (raw / ascii / quoted / msgpack / no) and compared with
//	                 the bodies that were sent; replies given with --data are compared
//	                 on the peer.
//	TestC20Send      macat -> peer: --data / --file bytes arrive unchanged, exactly
//	                 --count times, then nothing.
//	TestC20Duration  Duration.UnmarshalText: bare integer n = n seconds, Go duration
//	                 syntax accepted with its exact value, junk rejected.
//	TestC20Conflicts option sets built from a runnable base plus 0..2 injected
//	                 conflicts: any conflict => Run returns an error and prints
//	                 nothing; no conflict => Run returns nil.
//
// How a printing App is stopped without a timing assumption: the harness sends a
// sentinel message after the generated ones; the capturing writer recognises the
// sentinel record and panics with a private value, which unwinds App.Run through
// its deferred cleanup (socket closed) and is recovered in the harness goroutine.
// So the output is complete exactly when the sentinel was seen, however slow the
// machine is; --recv-timeout is only a generous backstop.  Checks that cannot be
// made independent of scheduling (macat closes its socket 20 ms after the last
// send; survey lifetime 1 s) are re-run up to three times and only a shortfall
// that reproduces every time is reported.
package c20

import (
	"bytes"
	"crypto/ecdsa"
	"crypto/x509"
	"encoding/binary"
	"encoding/hex"
	"encoding/pem"
	"fmt"
	"math/big"
	"os"
	"path/filepath"
	"regexp"
	"sort"
	"strconv"
	"strings"
	"sync"
	"sync/atomic"
	"testing"
	"time"

	"go.nanomsg.org/mangos/v3"
	"go.nanomsg.org/mangos/v3/macat"
	"go.nanomsg.org/mangos/v3/verifharness/fixture"
	"go.nanomsg.org/mangos/v3/verifharness/stats"
	"pgregory.net/rapid"
)

func TestMain(m *testing.M) {
	stats.Init("C20")
	stats.Rule("macat.App run in-process against harness peers. Print: role (pull, sub[+subscriptions], pair/bus/star with and without --data, rep/respondent with --data in lock step and without against raw peers, req, surveyor) x format (raw, ascii, quoted, msgpack, no/none, every flag spelling) x transport (inproc, ipc, tcp, ws; bind or connect, every address flag spelling) x 1-6 bodies: short bodies drawn byte by byte (biased to control bytes, quote, backslash, DEL, 0x80-0xff), long ones with length from {0,1,254..257,65534..65537} or uniform 0..70000 and PRF/fill/motif content. Send: push/pub (with and without interval), pair/bus/star/req/surveyor with interval; --data strings (ASCII, quotes, '=', '-', unicode) in every spelling or --file with arbitrary bytes; count 0..4. Duration: integers (signs, leading zeros, up to +-9223372036), structured Go durations, short junk strings classified by an independent grammar. Conflicts: runnable base + 0..2 injected conflicts, option groups shuffled. Non-trivial: a body has a byte outside 0x20-0x7e or a boundary length, or the option set is a conflict, or a duration text is not a plain small integer; distinct by (test, role, format, transport, byte classes, boundary lengths) / (conflict kinds, base) / duration text")
	stats.Assume("bytes >= 0x80 in ascii output may be printed as themselves or as '.'")
	stats.Assume("quoted records may or may not be surrounded by double quotes; \\xNN takes exactly two hex digits")
	stats.Assume("counts are asserted for push/pub (any) and pair/bus/star/req/surveyor with --send-interval; without interval those patterns send once (nanocat compatibility) and only the first message is compared")
	stats.Assume("a shortfall (fewer messages/records than expected) is reported only if it reproduces in 3 consecutive runs of the same case: macat closes 20 ms after its last send and a survey lives 1 s, so a single shortfall can be scheduling")
	stats.Assume("bare integers whose value in nanoseconds overflows int64 (|n| > 9223372036) are outside the domain")
	rc := m.Run()
	stats.Flush()
	fixture.Cleanup()
	os.Exit(rc)
}

// ---------------------------------------------------------------------------
// shared helpers

const token = "C20END-7f3a9c51d2e84b60-SENTINEL"
const tokenPrefix = "C20END-"

var boundaries = []int{0, 1, 254, 255, 256, 257, 65534, 65535, 65536, 65537}

func isBoundary(n int) bool {
	for _, b := range boundaries {
		if b == n && n > 1 {
			return true
		}
	}
	return false
}

type stopPanic struct{}

// capture is the stdout of the App.  With stopOnToken it panics (after storing the
// data) as soon as the sentinel token shows up in the stream.
type capture struct {
	mu          sync.Mutex
	buf         []byte
	stopOnToken bool
	seen        bool
}

func (c *capture) Write(p []byte) (int, error) {
	c.mu.Lock()
	from := len(c.buf) - len(token)
	if from < 0 {
		from = 0
	}
	c.buf = append(c.buf, p...)
	hit := c.stopOnToken && !c.seen && bytes.Contains(c.buf[from:], []byte(token))
	if hit {
		c.seen = true
	}
	c.mu.Unlock()
	if hit {
		panic(stopPanic{})
	}
	return len(p), nil
}

func (c *capture) bytes() []byte {
	c.mu.Lock()
	defer c.mu.Unlock()
	return append([]byte(nil), c.buf...)
}

func (c *capture) sawToken() bool {
	c.mu.Lock()
	defer c.mu.Unlock()
	return c.seen
}

type runResult struct {
	err      error
	stopped  bool   // ended by the sentinel
	panicked string // any other panic
	elapsed  time.Duration
}

// startApp runs a fresh App with args in a goroutine.
func startApp(out *capture, args []string) chan runResult {
	ch := make(chan runResult, 1)
	a := &macat.App{}
	a.Initialize()
	a.VerifSetStdout(out)
	cp := append([]string(nil), args...) // the option parser overwrites elements
	go func() {
		var r runResult
		start := time.Now()
		defer func() {
			if x := recover(); x != nil {
				if _, ok := x.(stopPanic); ok {
					r.stopped = true
				} else {
					r.panicked = fmt.Sprint(x)
				}
			}
			r.elapsed = time.Since(start)
			ch <- r
		}()
		r.err = a.Run(cp...)
	}()
	return ch
}

func waitRun(ch chan runResult, d time.Duration) (runResult, bool) {
	select {
	case r := <-ch:
		return r, true
	case <-time.After(d):
		return runResult{}, false
	}
}

var transports = []string{"inproc", "inproc", "ipc", "ipc", "tcp", "tcp", "ws"}

func formatArgs(t *rapid.T, f string) []string {
	var forms [][]string
	switch f {
	case "raw":
		forms = [][]string{{"--raw"}, {"--format", "raw"}, {"--format=raw"}}
	case "ascii":
		forms = [][]string{{"--ascii"}, {"-A"}, {"--format", "ascii"}, {"--format=ascii"}}
	case "quoted":
		forms = [][]string{{"--quoted"}, {"-Q"}, {"--format", "quoted"}, {"--format=quoted"}}
	case "msgpack":
		forms = [][]string{{"--msgpack"}, {"--format", "msgpack"}, {"--format=msgpack"}}
	case "no":
		forms = [][]string{{"--format", "no"}, {"--format=no"}, {}}
	}
	return forms[rapid.IntRange(0, len(forms)-1).Draw(t, "fmtForm")]
}

var dataRunes = []rune("abcxyzABC019 ._-=+/\\\"'`$%&*()[]{}<>|~#@!?,;:\t\n\ré€ü世界🙂")

func genDataString(t *rapid.T, label string, min int) string {
	return rapid.StringOfN(rapid.RuneFrom(dataRunes), min, 24, -1).Draw(t, label)
}

// dataArgs spells --data.
func dataArgs(t *rapid.T, v string) []string {
	forms := [][]string{{"--data", v}, {"--data=" + v}, {"-D", v}}
	if v != "" && v[0] != '=' {
		forms = append(forms, []string{"-D" + v})
	}
	return forms[rapid.IntRange(0, len(forms)-1).Draw(t, "dataForm")]
}

var fileSeq uint32

func writeScratch(content []byte) (string, error) {
	p := filepath.Join(fixture.ScratchDir(), fmt.Sprintf("c20f%d", atomic.AddUint32(&fileSeq, 1)))
	return p, os.WriteFile(p, content, 0o600)
}

// bodySpec describes a generated body compactly (replay files stay small).
type bodySpec struct {
	Len  int    `json:"len"`
	Mode string `json:"mode"` // direct | prf | fill | motif
	Key  uint64 `json:"key,omitempty"`
	Hex  string `json:"hex,omitempty"`
}

func (b bodySpec) bytes() []byte {
	switch b.Mode {
	case "direct":
		x, _ := hex.DecodeString(b.Hex)
		return x
	case "prf":
		return fixture.Payload(b.Key, b.Len)
	case "fill":
		return bytes.Repeat([]byte{byte(b.Key)}, b.Len)
	case "motif":
		m, _ := hex.DecodeString(b.Hex)
		out := make([]byte, b.Len)
		for i := range out {
			out[i] = m[i%len(m)]
		}
		return out
	}
	return nil
}

var specialBytes = []byte{0, 1, 7, 8, '\t', '\n', '\v', '\f', '\r', 0x1b, 0x1f, ' ', '!', '"', '\'', '.', '0', 'A', '\\', 'n', 'x', '~', 0x7f, 0x80, 0x9f, 0xa0, 0xa1, 0xad, 0xc3, 0xc4, 0xc5, 0xc6, 0xfe, 0xff}

func genByte() *rapid.Generator[byte] {
	return rapid.OneOf(rapid.SampledFrom(specialBytes), rapid.Byte(), rapid.ByteRange(0x20, 0x7e))
}

func genBody(t *rapid.T, label string, prefix []byte) bodySpec {
	var b bodySpec
	switch rapid.IntRange(0, 9).Draw(t, label+"kind") {
	case 0, 1, 2, 3, 4:
		x := rapid.SliceOfN(genByte(), 0, 40).Draw(t, label+"bytes")
		b = bodySpec{Mode: "direct", Hex: hex.EncodeToString(x), Len: len(x)}
	case 5, 6, 7:
		b.Len = rapid.SampledFrom(boundaries).Draw(t, label+"blen")
	case 8:
		b.Len = rapid.IntRange(0, 70000).Draw(t, label+"ulen")
	case 9:
		b.Len = rapid.IntRange(0, 300).Draw(t, label+"slen")
	}
	if b.Mode == "" {
		switch rapid.IntRange(0, 3).Draw(t, label+"content") {
		case 0, 1:
			b.Mode, b.Key = "prf", rapid.Uint64().Draw(t, label+"key")
		case 2:
			b.Mode, b.Key = "fill", uint64(genByte().Draw(t, label+"fill"))
		case 3:
			m := rapid.SliceOfN(genByte(), 1, 8).Draw(t, label+"motif")
			b.Mode, b.Hex = "motif", hex.EncodeToString(m)
		}
	}
	if len(prefix) > 0 {
		// used for SUB subscriptions: make the body start with the subscribed prefix
		x := append(append([]byte(nil), prefix...), b.bytes()...)
		if len(x) > 200 {
			x = x[:200]
		}
		b = bodySpec{Mode: "direct", Hex: hex.EncodeToString(x), Len: len(x)}
	}
	return b
}

// byteClasses summarises which interesting byte classes occur.
func byteClasses(bodies [][]byte) (classes []string, nonPrintable bool) {
	set := map[string]bool{}
	for _, b := range bodies {
		for _, c := range b {
			switch {
			case c == 0:
				set["nul"] = true
			case c == '\n':
				set["nl"] = true
			case c == '\r':
				set["cr"] = true
			case c < 0x20:
				set["ctrl"] = true
			case c == '"':
				set["quote"] = true
			case c == '\\':
				set["bslash"] = true
			case c == 0x7f:
				set["del"] = true
			case c >= 0x80 && c <= 0xa0:
				set["hi80"] = true
			case c > 0xa0:
				set["hiA1"] = true
			}
			if c < 0x20 || c > 0x7e {
				nonPrintable = true
			}
		}
	}
	for k := range set {
		classes = append(classes, k)
	}
	sort.Strings(classes)
	return
}

func short(b []byte) string {
	if len(b) <= 48 {
		return fmt.Sprintf("%q", b)
	}
	return fmt.Sprintf("%q...(%d bytes)", b[:48], len(b))
}

func firstDiff(a, b []byte) int {
	i := 0
	for i < len(a) && i < len(b) && a[i] == b[i] {
		i++
	}
	return i
}

func setDeadlines(s mangos.Socket, d time.Duration) {
	_ = s.SetOption(mangos.OptionRecvDeadline, d)
	_ = s.SetOption(mangos.OptionSendDeadline, d)
}

// ---------------------------------------------------------------------------
// independent decoders

type verdict struct {
	key    string // "" = ok
	detail string
}

func bad(key, format string, a ...interface{}) verdict {
	return verdict{"C20:" + key, fmt.Sprintf(format, a...)}
}

func checkRaw(exp [][]byte, out []byte) verdict {
	want := bytes.Join(exp, nil)
	if !bytes.Equal(want, out) {
		return bad("raw-bytes", "raw output differs from the concatenated bodies: want %d bytes, got %d, first difference at offset %d", len(want), len(out), firstDiff(want, out))
	}
	return verdict{}
}

// splitRecords splits line oriented output; every record must end in '\n'.
func splitRecords(kind string, n int, out []byte) ([][]byte, verdict) {
	if len(out) > 0 && out[len(out)-1] != '\n' {
		return nil, bad("count", "%s output does not end in a newline (%d bytes, tail %s)", kind, len(out), short(out[maxInt(0, len(out)-20):]))
	}
	var recs [][]byte
	if len(out) > 0 {
		recs = bytes.Split(out[:len(out)-1], []byte{'\n'})
	}
	if len(recs) != n {
		return nil, bad("count", "%s output has %d records (lines) for %d messages", kind, len(recs), n)
	}
	return recs, verdict{}
}

func maxInt(a, b int) int {
	if a > b {
		return a
	}
	return b
}

func checkASCII(exp [][]byte, out []byte) verdict {
	recs, v := splitRecords("ascii", len(exp), out)
	if v.key != "" {
		return v
	}
	for i, body := range exp {
		line := recs[i]
		if len(line) != len(body) {
			return bad("ascii-length", "ascii record %d has %d bytes for a body of %d bytes (body %s, line %s)", i, len(line), len(body), short(body), short(line))
		}
		for j, c := range body {
			g := line[j]
			switch {
			case c >= 0x20 && c <= 0x7e:
				if g != c {
					return bad("ascii-byte", "ascii record %d offset %d: printable byte 0x%02x printed as 0x%02x", i, j, c, g)
				}
			case c < 0x20 || c == 0x7f:
				if g != '.' {
					return bad("ascii-byte", "ascii record %d offset %d: non-printable byte 0x%02x printed as 0x%02x, want '.'", i, j, c, g)
				}
			default:
				if g != c && g != '.' {
					return bad("ascii-byte", "ascii record %d offset %d: byte 0x%02x printed as 0x%02x, want itself or '.'", i, j, c, g)
				}
			}
		}
	}
	return verdict{}
}

func hexVal(c byte) int {
	switch {
	case c >= '0' && c <= '9':
		return int(c - '0')
	case c >= 'a' && c <= 'f':
		return int(c-'a') + 10
	case c >= 'A' && c <= 'F':
		return int(c-'A') + 10
	}
	return -1
}

// unquote decodes one quoted record.
func unquote(line []byte) ([]byte, string) {
	if len(line) >= 2 && line[0] == '"' && line[len(line)-1] == '"' {
		// optional surrounding quotes; the closing one must not be an escaped quote
		bs := 0
		for k := len(line) - 2; k >= 1 && line[k] == '\\'; k-- {
			bs++
		}
		if bs%2 == 0 {
			line = line[1 : len(line)-1]
		}
	}
	var out []byte
	for i := 0; i < len(line); i++ {
		c := line[i]
		switch {
		case c < 0x20 || c == 0x7f:
			return nil, fmt.Sprintf("raw control byte 0x%02x at offset %d", c, i)
		case c == '"':
			return nil, fmt.Sprintf("unescaped quote at offset %d", i)
		case c != '\\':
			out = append(out, c)
		default:
			if i+1 >= len(line) {
				return nil, "dangling backslash at end of record"
			}
			i++
			switch line[i] {
			case 'n':
				out = append(out, '\n')
			case 'r':
				out = append(out, '\r')
			case 't':
				out = append(out, '\t')
			case 'a':
				out = append(out, 7)
			case 'b':
				out = append(out, 8)
			case 'f':
				out = append(out, 12)
			case 'v':
				out = append(out, 11)
			case '0':
				out = append(out, 0)
			case '\\':
				out = append(out, '\\')
			case '"':
				out = append(out, '"')
			case '\'':
				out = append(out, '\'')
			case 'x':
				if i+2 > len(line)-1 {
					return nil, fmt.Sprintf("short \\x escape at offset %d", i-1)
				}
				h, l := hexVal(line[i+1]), hexVal(line[i+2])
				if h < 0 || l < 0 {
					return nil, fmt.Sprintf("bad \\x escape at offset %d", i-1)
				}
				out = append(out, byte(h<<4|l))
				i += 2
			default:
				return nil, fmt.Sprintf("unknown escape \\%c at offset %d", line[i], i-1)
			}
		}
	}
	return out, ""
}

func checkQuoted(exp [][]byte, out []byte) verdict {
	recs, v := splitRecords("quoted", len(exp), out)
	if v.key != "" {
		return v
	}
	for i, body := range exp {
		dec, problem := unquote(recs[i])
		if problem != "" {
			return bad("quoted-escape", "quoted record %d: %s (body %s, record %s)", i, problem, short(body), short(recs[i]))
		}
		if !bytes.Equal(dec, body) {
			return bad("quoted-roundtrip", "quoted record %d decodes to %s (%d bytes), body was %s (%d bytes), first difference at %d; record %s", i, short(dec), len(dec), short(body), len(body), firstDiff(dec, body), short(recs[i]))
		}
	}
	return verdict{}
}

func checkMsgpack(exp [][]byte, out []byte) verdict {
	rest := out
	n := 0
	for len(rest) > 0 {
		var ln, hdr int
		switch rest[0] {
		case 0xc4:
			hdr = 2
		case 0xc5:
			hdr = 3
		case 0xc6:
			hdr = 5
		default:
			return bad("msgpack-tag", "msgpack object %d starts with 0x%02x at offset %d, want bin8/16/32 (0xc4..0xc6)", n, rest[0], len(out)-len(rest))
		}
		if len(rest) < hdr {
			return bad("msgpack-length", "msgpack object %d: truncated header", n)
		}
		switch hdr {
		case 2:
			ln = int(rest[1])
		case 3:
			ln = int(binary.BigEndian.Uint16(rest[1:]))
		case 5:
			ln = int(binary.BigEndian.Uint32(rest[1:]))
		}
		if n >= len(exp) {
			return bad("count", "msgpack output has more than %d objects (extra object of length %d)", len(exp), ln)
		}
		body := exp[n]
		if ln != len(body) {
			return bad("msgpack-length", "msgpack object %d: length field %d (tag 0x%02x), body has %d bytes", n, ln, rest[0], len(body))
		}
		wantHdr := 5
		if len(body) < 256 {
			wantHdr = 2
		} else if len(body) < 65536 {
			wantHdr = 3
		}
		if hdr != wantHdr {
			return bad("msgpack-width", "msgpack object %d: tag 0x%02x used for a body of %d bytes (not the minimal bin width)", n, rest[0], len(body))
		}
		if len(rest) < hdr+ln {
			return bad("msgpack-payload", "msgpack object %d: payload truncated (%d of %d bytes)", n, len(rest)-hdr, ln)
		}
		if !bytes.Equal(rest[hdr:hdr+ln], body) {
			return bad("msgpack-payload", "msgpack object %d: payload differs from the body at offset %d (length %d)", n, firstDiff(rest[hdr:hdr+ln], body), ln)
		}
		rest = rest[hdr+ln:]
		n++
	}
	if n != len(exp) {
		return bad("count", "msgpack output has %d objects for %d messages", n, len(exp))
	}
	return verdict{}
}

func checkOutput(format string, exp [][]byte, out []byte) verdict {
	switch format {
	case "raw":
		return checkRaw(exp, out)
	case "ascii":
		return checkASCII(exp, out)
	case "quoted":
		return checkQuoted(exp, out)
	case "msgpack":
		return checkMsgpack(exp, out)
	case "no":
		if len(out) != 0 {
			return bad("no-output", "format no/none printed %d bytes: %s", len(out), short(out))
		}
	}
	return verdict{}
}

// ---------------------------------------------------------------------------
// TestC20Print

type prole struct {
	Name        string // macat protocol flag (without --)
	Peer        string // fixture constructor of the harness peer
	Data        bool   // macat is given --data
	Style       string // oneway | duplex | lockstep | rawreq | natural | rawresp
	ConnectOnly bool
}

var proles = []prole{
	{"pull", "push", false, "oneway", false},
	{"sub", "pub", false, "oneway", false},
	{"pair", "pair", false, "oneway", false},
	{"bus", "bus", false, "oneway", false},
	{"star", "star", false, "oneway", false},
	{"pair", "pair", true, "duplex", true},
	{"bus", "bus", true, "duplex", true},
	{"star", "star", true, "duplex", true},
	{"rep", "req", true, "lockstep", false},
	{"rep", "xreq", false, "rawreq", false},
	{"respondent", "surveyor", true, "lockstep", false},
	{"respondent", "xsurveyor", false, "rawreq", false},
	{"req", "rep", true, "natural", false},
	{"surveyor", "xrespondent", true, "rawresp", true},
}

type printCase struct {
	Test      string     `json:"test"`
	Role      prole      `json:"role"`
	Format    string     `json:"format"`
	Transport string     `json:"transport"`
	Bind      bool       `json:"macat_binds"`
	Bodies    []bodySpec `json:"bodies"`
	Subs      []string   `json:"subscriptions,omitempty"`
	Data      string     `json:"data,omitempty"`
	Args      []string   `json:"args"` // "<addr>" stands for the address option
	RSeed     string     `json:"rseed"`
	bodies    [][]byte
	pre, post []string
	addrForm  int
}

func (pc *printCase) args(addr string) []string {
	a := append([]string{}, pc.pre...)
	a = append(a, spellAddr(addr, pc.Bind, pc.addrForm)...)
	return append(a, pc.post...)
}

type printOutcome struct {
	out       []byte
	sawToken  bool
	res       runResult
	returned  bool
	peerNote  string // peer-side failure (reply mismatch, send error ...)
	peerKey   string
	harness   string // harness trouble: retry / fatal
	addrInUse bool
}

func hasPrefixAny(b []byte, subs []string) bool {
	for _, s := range subs {
		if bytes.HasPrefix(b, []byte(s)) {
			return true
		}
	}
	return false
}

// connectPeer establishes the link and returns the args spelling the address.
// When macat binds, the App has to be started first (start callback).
func dialUntil(peer mangos.Socket, addr string, ch chan runResult, d time.Duration) (early *runResult, err error) {
	deadline := time.Now().Add(d)
	for {
		if _, err = fixture.Dial(peer, addr); err == nil {
			return nil, nil
		}
		select {
		case r := <-ch:
			return &r, err
		default:
		}
		if time.Now().After(deadline) {
			return nil, err
		}
		time.Sleep(time.Millisecond)
	}
}

func rawHeader(i int) []byte {
	id := uint32(i+1) | 0x80000000
	return []byte{byte(id >> 24), byte(id >> 16), byte(id >> 8), byte(id)}
}

func runPrint(pc *printCase) (o printOutcome) {
	useToken := pc.Format != "no" && pc.Role.Style != "natural"
	peer := fixture.New(pc.Role.Peer)
	defer peer.Close()
	setDeadlines(peer, 5*time.Second)
	if pc.Role.Peer == "surveyor" {
		_ = peer.SetOption(mangos.OptionSurveyTime, 5*time.Second)
	}
	ev := fixture.Hook(peer)

	out := &capture{stopOnToken: useToken}
	var ch chan runResult
	var addr string
	if pc.Bind {
		addr = fixture.Addr(pc.Transport)
		ch = startApp(out, pc.args(addr))
		early, err := dialUntil(peer, addr, ch, 5*time.Second)
		if early != nil {
			o.res, o.returned = *early, true
			if early.err != nil && strings.Contains(early.err.Error(), "in use") {
				o.addrInUse = true
				return
			}
			o.harness = fmt.Sprintf("macat returned before the peer could connect to %s: err=%v panic=%q (dial: %v)", addr, early.err, early.panicked, err)
			return
		}
		if err != nil {
			o.harness = fmt.Sprintf("cannot dial macat at %s: %v", addr, err)
			return
		}
	} else {
		a, _, err := fixture.Listen(peer, pc.Transport)
		if err != nil {
			o.harness = fmt.Sprintf("peer listen %s: %v", pc.Transport, err)
			return
		}
		addr = a
		ch = startApp(out, pc.args(addr))
	}
	if !ev.WaitAttached(1, 5*time.Second) {
		select {
		case r := <-ch:
			o.res, o.returned = r, true
			o.harness = fmt.Sprintf("no connection; macat returned err=%v panic=%q", r.err, r.panicked)
		default:
			o.harness = "no connection within 5 s on " + addr
		}
		return
	}

	peerFail := func(key, format string, a ...interface{}) {
		if o.peerKey == "" {
			o.peerKey, o.peerNote = "C20:"+key, fmt.Sprintf(format, a...)
		}
	}
	data := []byte(pc.Data)
	all := pc.bodies
	if useToken {
		all = append(append([][]byte{}, pc.bodies...), []byte(token))
	}

	switch pc.Role.Style {
	case "oneway":
		for i, b := range all {
			if err := peer.Send(b); err != nil {
				peerFail("missing-output", "peer could not send message %d: %v", i, err)
				break
			}
		}
	case "duplex":
		got, err := peer.Recv()
		if err != nil {
			peerFail("missing-output", "peer did not receive macat's --data message: %v", err)
			break
		}
		if !bytes.Equal(got, data) {
			peerFail("send-bytes", "peer received %s, --data was %s", short(got), short(data))
		}
		for i, b := range all {
			if err := peer.Send(b); err != nil {
				peerFail("missing-output", "peer could not send message %d: %v", i, err)
				break
			}
		}
	case "lockstep":
		for i, b := range all {
			if err := peer.Send(b); err != nil {
				peerFail("missing-output", "peer could not send request %d: %v", i, err)
				break
			}
			if i >= len(pc.bodies) {
				break // the sentinel is not answered
			}
			got, err := peer.Recv()
			if err != nil {
				peerFail("missing-output", "no reply to request %d: %v", i, err)
				break
			}
			if !bytes.Equal(got, data) {
				peerFail("reply-bytes", "reply %d is %s, --data was %s", i, short(got), short(data))
			}
		}
	case "rawreq":
		for i, b := range all {
			m := mangos.NewMessage(len(b))
			m.Header = append(m.Header, rawHeader(i)...)
			m.Body = append(m.Body, b...)
			if err := peer.SendMsg(m); err != nil {
				peerFail("missing-output", "peer could not send raw request %d: %v", i, err)
				break
			}
		}
	case "natural":
		got, err := peer.Recv()
		if err != nil {
			peerFail("missing-output", "peer did not receive macat's request: %v", err)
			break
		}
		if !bytes.Equal(got, data) {
			peerFail("send-bytes", "peer received request %s, --data was %s", short(got), short(data))
		}
		if err := peer.Send(all[0]); err != nil {
			peerFail("missing-output", "peer could not reply: %v", err)
		}
	case "rawresp":
		m, err := peer.RecvMsg()
		if err != nil {
			peerFail("missing-output", "peer did not receive macat's survey: %v", err)
			break
		}
		if !bytes.Equal(m.Body, data) {
			peerFail("send-bytes", "peer received survey %s, --data was %s", short(m.Body), short(data))
		}
		hdr := append([]byte(nil), m.Header...)
		m.Free()
		for i, b := range all {
			r := mangos.NewMessage(len(b))
			r.Header = append(r.Header, hdr...)
			r.Body = append(r.Body, b...)
			if err := peer.SendMsg(r); err != nil {
				peerFail("missing-output", "peer could not send response %d: %v", i, err)
				break
			}
		}
	}

	o.res, o.returned = waitRun(ch, 15*time.Second)
	o.out = out.bytes()
	o.sawToken = out.sawToken()
	return
}

func (pc *printCase) expected() [][]byte {
	var exp [][]byte
	for _, b := range pc.bodies {
		if pc.Role.Name == "sub" && len(pc.Subs) > 0 && !hasPrefixAny(b, pc.Subs) && !bytes.HasPrefix(b, []byte(tokenPrefix)) {
			continue
		}
		exp = append(exp, b)
	}
	if pc.Format != "no" && pc.Role.Style != "natural" {
		exp = append(exp, []byte(token))
	}
	return exp
}

// judge returns the verdict for one attempt and whether it is of the kind that
// may be caused by scheduling (so that it has to reproduce).
func (pc *printCase) judge(o *printOutcome) (v verdict, retry bool) {
	useToken := pc.Format != "no" && pc.Role.Style != "natural"
	if !o.returned {
		return bad("hang", "macat %v did not stop within 15 s after the last message", pc.Args), false
	}
	if o.res.panicked != "" {
		return bad("panic", "macat %v panicked: %s", pc.Args, o.res.panicked), false
	}
	if o.peerKey != "" && o.peerKey != "C20:missing-output" {
		return verdict{o.peerKey, o.peerNote}, false
	}
	complete := !useToken || o.sawToken
	if v = checkOutput(pc.Format, pc.expected(), o.out); v.key != "" {
		return v, !complete || (pc.Role.Style == "natural")
	}
	if o.peerKey != "" {
		return verdict{o.peerKey, o.peerNote}, true
	}
	if !useToken && o.res.err != nil {
		return bad("run-error", "macat %v returned %v", pc.Args, o.res.err), true
	}
	return verdict{}, false
}

func TestC20Print(t *testing.T) {
	rapid.Check(t, func(t *rapid.T) {
		pc := &printCase{Test: "TestC20Print", RSeed: os.Getenv("VERIF_RSEED")}
		pc.Role = proles[rapid.IntRange(0, len(proles)-1).Draw(t, "role")]
		pc.Format = rapid.SampledFrom([]string{"raw", "ascii", "quoted", "msgpack", "ascii", "quoted", "msgpack", "no"}).Draw(t, "format")
		pc.Transport = rapid.SampledFrom(transports).Draw(t, "transport")
		pc.Bind = !pc.Role.ConnectOnly && rapid.Bool().Draw(t, "bind")
		n := rapid.IntRange(1, 6).Draw(t, "n")
		if pc.Role.Style == "natural" {
			n = 1
		}
		if pc.Role.Name == "sub" && rapid.Bool().Draw(t, "withSubs") {
			ns := rapid.IntRange(1, 2).Draw(t, "nsubs")
			for i := 0; i < ns; i++ {
				pc.Subs = append(pc.Subs, rapid.StringOfN(rapid.RuneFrom([]rune("ab\\\" =-é")), 0, 3, -1).Draw(t, fmt.Sprintf("sub%d", i)))
			}
		}
		for i := 0; i < n; i++ {
			var prefix []byte
			if len(pc.Subs) > 0 && rapid.Bool().Draw(t, fmt.Sprintf("b%dmatch", i)) {
				prefix = []byte(rapid.SampledFrom(pc.Subs).Draw(t, fmt.Sprintf("b%dsub", i)))
			}
			b := genBody(t, fmt.Sprintf("b%d", i), prefix)
			pc.Bodies = append(pc.Bodies, b)
			pc.bodies = append(pc.bodies, b.bytes())
		}
		// option groups, shuffled
		groups := [][]string{{"--" + pc.Role.Name}}
		if fa := formatArgs(t, pc.Format); len(fa) > 0 {
			groups = append(groups, fa)
		}
		if pc.Role.Data {
			pc.Data = genDataString(t, "data", 0)
			groups = append(groups, dataArgs(t, pc.Data))
		}
		for _, s := range pc.Subs {
			if rapid.Bool().Draw(t, "subForm") {
				groups = append(groups, []string{"--subscribe", s})
			} else {
				groups = append(groups, []string{"--subscribe=" + s})
			}
		}
		if len(pc.Subs) > 0 && pc.Format != "no" {
			groups = append(groups, []string{"--subscribe", tokenPrefix})
		}
		if pc.Format == "no" && pc.Role.Style != "natural" {
			groups = append(groups, []string{"--recv-timeout", "150ms"})
		} else {
			groups = append(groups, rapid.SampledFrom([][]string{{"--recv-timeout", "4"}, {"--recv-timeout=4s"}, {"--recv-timeout", "4000ms"}}).Draw(t, "rto"))
		}
		if rapid.IntRange(0, 3).Draw(t, "verbose") == 0 {
			groups = append(groups, []string{"-v"})
		}
		addrPos := rapid.IntRange(0, len(groups)).Draw(t, "addrPos")
		perm := rapid.Permutation(groups).Draw(t, "order")
		for i, g := range perm {
			if i < addrPos {
				pc.pre = append(pc.pre, g...)
			} else {
				pc.post = append(pc.post, g...)
			}
		}
		// the address is only known at run time; its spelling and position are drawn now
		pc.addrForm = rapid.IntRange(0, 4).Draw(t, "addrForm")
		pc.Args = append(append(append([]string{}, pc.pre...), "<addr>"), pc.post...)

		var v verdict
		for attempt := 0; attempt < 3; attempt++ {
			var o printOutcome
			for try := 0; try < 4; try++ {
				o = runPrint(pc)
				if !o.addrInUse {
					break
				}
			}
			if o.addrInUse || o.harness != "" {
				// connection trouble before anything was exchanged: retry once more, then give up
				if attempt < 2 {
					continue
				}
				t.Fatalf("harness: %s (role %s/%s %s bind=%v)", o.harness, pc.Role.Name, pc.Role.Peer, pc.Transport, pc.Bind)
			}
			var retry bool
			v, retry = pc.judge(&o)
			if v.key == "" || !retry {
				break
			}
			stats.Class("print_retry")
		}
		if v.key != "" {
			stats.Fail(t, v.key, pc, "macat --%s %s over %s (bind=%v, %d bodies): %s", pc.Role.Name, pc.Format, pc.Transport, pc.Bind, len(pc.bodies), v.detail)
			return
		}

		stats.Eval()
		stats.Class("print")
		stats.Class("fmt:" + pc.Format)
		stats.Class("role:" + pc.Role.Name + "<-" + pc.Role.Peer)
		stats.Class("tr:" + pc.Transport)
		classes, np := byteClasses(pc.bodies)
		var bl []string
		for _, b := range pc.bodies {
			if isBoundary(len(b)) {
				bl = append(bl, strconv.Itoa(len(b)))
			}
		}
		if len(bl) > 0 {
			stats.Class("boundary_length")
		}
		if np {
			stats.Class("non_printable_bytes")
		}
		if np || len(bl) > 0 {
			sort.Strings(bl)
			stats.NonTrivial(fmt.Sprintf("print|%s|%s|%s|%s|%v|%v|%v|%d", pc.Role.Name, pc.Role.Peer, pc.Format, pc.Transport, pc.Bind, classes, bl, len(pc.Subs)))
		}
		stats.Sample(pc)
	})
}

// spellAddr is addrArgs with a pre-drawn form index (the address itself is only
// known when the case runs).
func spellAddr(addr string, bind bool, form int) []string {
	long := "--connect"
	if bind {
		long = "--bind"
	}
	forms := [][]string{{long, addr}, {long + "=" + addr}}
	switch fixture.TransportOf(addr) {
	case "ipc":
		p := strings.TrimPrefix(addr, "ipc://")
		if bind {
			forms = append(forms, []string{"-X", p}, []string{"--bind-ipc", p}, []string{"-X" + p})
		} else {
			forms = append(forms, []string{"-x", p}, []string{"--connect-ipc=" + p}, []string{"-x" + p})
		}
	case "tcp":
		p := strings.TrimPrefix(addr, "tcp://127.0.0.1:")
		if bind {
			forms = append(forms, []string{"-L", p}, []string{"--bind-local", p}, []string{"-L" + p})
		} else {
			forms = append(forms, []string{"-l", p}, []string{"--connect-local=" + p}, []string{"-l" + p})
		}
	}
	return forms[form%len(forms)]
}

// ---------------------------------------------------------------------------
// TestC20Send

type srole struct {
	Name        string
	Peer        string
	Interval    string // "required" | "optional"
	ConnectOnly bool
}

var sroles = []srole{
	{"push", "pull", "optional", false},
	{"push", "pull", "optional", false},
	{"pub", "sub", "optional", true},
	{"pub", "sub", "optional", true},
	{"pair", "pair", "required", false},
	{"bus", "bus", "required", true},
	{"star", "star", "required", true},
	{"req", "rep", "required", false},
	{"surveyor", "respondent", "required", true},
}

type sendCase struct {
	Test      string    `json:"test"`
	Role      srole     `json:"role"`
	Transport string    `json:"transport"`
	Bind      bool      `json:"macat_binds"`
	Count     int       `json:"count"`
	CountArg  bool      `json:"count_given"`
	Interval  string    `json:"interval,omitempty"`
	DataStr   *string   `json:"data,omitempty"`
	File      *bodySpec `json:"file,omitempty"`
	Args      []string  `json:"args"`
	RSeed     string    `json:"rseed"`
	payload   []byte
	addrForm  int
	filePath  string
}

type sendOutcome struct {
	got       [][]byte
	res       runResult
	returned  bool
	harness   string
	addrInUse bool
}

func runSend(sc *sendCase) (o sendOutcome) {
	peer := fixture.New(sc.Role.Peer)
	defer peer.Close()
	_ = peer.SetOption(mangos.OptionRecvDeadline, 25*time.Millisecond)
	if sc.Role.Peer == "sub" {
		if err := peer.SetOption(mangos.OptionSubscribe, []byte{}); err != nil {
			o.harness = "subscribe: " + err.Error()
			return
		}
	}
	ev := fixture.Hook(peer)
	out := &capture{}
	var ch chan runResult
	if sc.Bind {
		addr := fixture.Addr(sc.Transport)
		ch = startApp(out, append(append([]string{}, sc.Args...), spellAddr(addr, true, sc.addrForm)...))
		early, err := dialUntil(peer, addr, ch, 5*time.Second)
		if early != nil {
			o.res, o.returned = *early, true
			if early.err != nil && strings.Contains(early.err.Error(), "in use") {
				o.addrInUse = true
				return
			}
			if sc.Count > 0 || early.err != nil {
				o.harness = fmt.Sprintf("macat returned before the peer could connect: err=%v (dial: %v)", early.err, err)
			}
			return
		}
		if err != nil {
			o.harness = fmt.Sprintf("cannot dial macat at %s: %v", addr, err)
			return
		}
	} else {
		addr, _, err := fixture.Listen(peer, sc.Transport)
		if err != nil {
			o.harness = fmt.Sprintf("peer listen %s: %v", sc.Transport, err)
			return
		}
		ch = startApp(out, append(append([]string{}, sc.Args...), spellAddr(addr, false, sc.addrForm)...))
	}

	// Receive until macat has returned, its pipe is gone (everything in flight
	// was delivered) and one more receive deadline passed quietly.
	start := time.Now()
	var doneAt time.Time
	confirmed := false
	for {
		m, err := peer.RecvMsg()
		if err == nil {
			o.got = append(o.got, append([]byte(nil), m.Body...))
			m.Free()
			if len(o.got) > sc.Count+8 {
				break // runaway sender; enough evidence
			}
			continue
		}
		if err != mangos.ErrRecvTimeout {
			o.harness = "peer receive: " + err.Error()
			return
		}
		if !o.returned {
			select {
			case r := <-ch:
				o.res, o.returned, doneAt = r, true, time.Now()
				continue // one more round after the return
			default:
			}
			if time.Since(start) > 20*time.Second {
				return // hang
			}
			continue
		}
		if ev.Attached() > ev.Detached() && time.Since(doneAt) < 2*time.Second {
			continue // pipe still open: data may be in flight
		}
		if !confirmed {
			confirmed = true // one more quiet round after the pipe was seen closed
			continue
		}
		break
	}
	if !o.returned {
		o.res, o.returned = waitRun(ch, 5*time.Second)
	}
	return
}

func TestC20Send(t *testing.T) {
	rapid.Check(t, func(t *rapid.T) {
		sc := &sendCase{Test: "TestC20Send", RSeed: os.Getenv("VERIF_RSEED")}
		sc.Role = sroles[rapid.IntRange(0, len(sroles)-1).Draw(t, "role")]
		sc.Transport = rapid.SampledFrom(transports).Draw(t, "transport")
		sc.Bind = !sc.Role.ConnectOnly && rapid.IntRange(0, 3).Draw(t, "bind") == 0
		sc.Count = rapid.IntRange(0, 4).Draw(t, "count")
		withInterval := sc.Role.Interval == "required" || rapid.Bool().Draw(t, "withInterval")
		sc.CountArg = withInterval || sc.Count != 1 || rapid.Bool().Draw(t, "countArg")
		sc.addrForm = rapid.IntRange(0, 4).Draw(t, "addrForm")

		groups := [][]string{{"--" + sc.Role.Name}}
		if rapid.Bool().Draw(t, "useFile") {
			f := genBody(t, "file", nil)
			sc.File = &f
			sc.payload = f.bytes()
			p, err := writeScratch(sc.payload)
			if err != nil {
				t.Fatalf("harness: cannot write scratch file: %v", err)
			}
			sc.filePath = p
			defer os.Remove(p)
			groups = append(groups, rapid.SampledFrom([][]string{{"--file", p}, {"--file=" + p}, {"-F", p}, {"-F" + p}}).Draw(t, "fileForm"))
		} else {
			s := genDataString(t, "data", 0)
			sc.DataStr = &s
			sc.payload = []byte(s)
			groups = append(groups, dataArgs(t, s))
		}
		var ordered [][]string // count and interval keep their relative order (both orders are drawn)
		if sc.CountArg {
			c := strconv.Itoa(sc.Count)
			ordered = append(ordered, rapid.SampledFrom([][]string{{"--count", c}, {"--count=" + c}}).Draw(t, "countForm"))
		}
		if withInterval {
			sc.Interval = rapid.SampledFrom([]string{"5ms", "10ms", "15ms", "0.01s", "20000us"}).Draw(t, "interval")
			iv := rapid.SampledFrom([][]string{{"--send-interval", sc.Interval}, {"-i", sc.Interval}, {"-i" + sc.Interval}, {"--send-interval=" + sc.Interval}}).Draw(t, "intervalForm")
			if rapid.Bool().Draw(t, "intervalFirst") {
				ordered = append([][]string{iv}, ordered...)
			} else {
				ordered = append(ordered, iv)
			}
		}
		if sc.Bind && sc.Role.Name != "req" {
			// give the peer time to connect before the (non-blocking) sends start
			groups = append(groups, rapid.SampledFrom([][]string{{"--send-delay", "120ms"}, {"-d", "120ms"}, {"-d120ms"}}).Draw(t, "delayForm"))
		} else if rapid.IntRange(0, 3).Draw(t, "delay") == 0 {
			groups = append(groups, rapid.SampledFrom([][]string{{"--send-delay", "0"}, {"-d", "3ms"}, {"-d=2ms"}}).Draw(t, "delayForm"))
		}
		if rapid.IntRange(0, 3).Draw(t, "fmt") == 0 {
			groups = append(groups, formatArgs(t, rapid.SampledFrom([]string{"raw", "ascii", "quoted", "msgpack"}).Draw(t, "format")))
		}
		perm := rapid.Permutation(groups).Draw(t, "order")
		at := rapid.IntRange(0, len(perm)).Draw(t, "orderedAt")
		for i, g := range perm {
			if i == at {
				for _, og := range ordered {
					sc.Args = append(sc.Args, og...)
				}
			}
			sc.Args = append(sc.Args, g...)
		}
		if at == len(perm) {
			for _, og := range ordered {
				sc.Args = append(sc.Args, og...)
			}
		}

		var v verdict
		for attempt := 0; attempt < 3; attempt++ {
			var o sendOutcome
			for try := 0; try < 4; try++ {
				o = runSend(sc)
				if !o.addrInUse {
					break
				}
			}
			if o.addrInUse || o.harness != "" {
				if attempt < 2 {
					continue
				}
				t.Fatalf("harness: %s (%v)", o.harness, sc.Args)
			}
			retry := false
			v = verdict{}
			switch {
			case !o.returned:
				v = bad("hang", "macat %v did not return within 20 s", sc.Args)
			case o.res.panicked != "":
				v = bad("panic", "macat %v panicked: %s", sc.Args, o.res.panicked)
			}
			if v.key == "" {
				for i, g := range o.got {
					if !bytes.Equal(g, sc.payload) {
						v = bad("send-bytes", "message %d received from macat --%s is %s (%d bytes), payload was %s (%d bytes), first difference at %d", i, sc.Role.Name, short(g), len(g), short(sc.payload), len(sc.payload), firstDiff(g, sc.payload))
						break
					}
				}
			}
			if v.key == "" && len(o.got) > sc.Count {
				v = bad("count", "macat --%s with count %d sent at least %d messages", sc.Role.Name, sc.Count, len(o.got))
			}
			if v.key == "" && len(o.got) < sc.Count {
				v = bad("count", "macat --%s with count %d: peer received %d messages (run returned %v)", sc.Role.Name, sc.Count, len(o.got), o.res.err)
				retry = true
			}
			if v.key == "" && o.res.err != nil {
				v = bad("run-error", "macat %v returned %v", sc.Args, o.res.err)
				retry = true
			}
			if v.key == "" || !retry {
				break
			}
			stats.Class("send_retry")
		}
		if v.key != "" {
			stats.Fail(t, v.key, sc, "%s over %s (bind=%v) args %q: %s", sc.Role.Name, sc.Transport, sc.Bind, sc.Args, v.detail)
			return
		}
		stats.Eval()
		stats.Class("send")
		stats.Class("send:" + sc.Role.Name)
		stats.Class(fmt.Sprintf("count:%d", sc.Count))
		if sc.File != nil {
			stats.Class("send_file")
		} else {
			stats.Class("send_data")
		}
		classes, np := byteClasses([][]byte{sc.payload})
		if np || isBoundary(len(sc.payload)) {
			bl := ""
			if isBoundary(len(sc.payload)) {
				bl = strconv.Itoa(len(sc.payload))
			}
			stats.NonTrivial(fmt.Sprintf("send|%s|%s|%v|%d|%v|%v|%s|%s", sc.Role.Name, sc.Transport, sc.Bind, sc.Count, sc.File != nil, classes, bl, sc.Interval))
		}
		stats.Sample(sc)
	})
}

// ---------------------------------------------------------------------------
// TestC20Duration

var (
	reInt   = regexp.MustCompile(`^[+-]?[0-9]+$`)
	reGoDur = regexp.MustCompile(`^[+-]?(0|((([0-9]+(\.[0-9]*)?)|(\.[0-9]+))(ns|us|µs|μs|ms|s|m|h))+)$`)
	reComp  = regexp.MustCompile(`(([0-9]+(\.[0-9]*)?)|(\.[0-9]+))(ns|us|µs|μs|ms|s|m|h)`)
)

var unitNs = map[string]int64{"ns": 1, "us": 1000, "µs": 1000, "μs": 1000, "ms": 1000000, "s": 1000000000, "m": 60000000000, "h": 3600000000000}

// goDurExact returns the exact value of a text matching reGoDur as a rational
// number of nanoseconds and the number of components.
func goDurExact(s string) (*big.Rat, int) {
	neg := false
	if s != "" && (s[0] == '+' || s[0] == '-') {
		neg = s[0] == '-'
		s = s[1:]
	}
	total := new(big.Rat)
	if s == "0" {
		return total, 1
	}
	comps := reComp.FindAllStringSubmatch(s, -1)
	for _, c := range comps {
		num := c[1]
		if strings.HasPrefix(num, ".") {
			num = "0" + num
		}
		if strings.HasSuffix(num, ".") {
			num += "0"
		}
		r, ok := new(big.Rat).SetString(num)
		if !ok {
			return nil, 0
		}
		r.Mul(r, new(big.Rat).SetInt64(unitNs[c[5]]))
		total.Add(total, r)
	}
	if neg {
		total.Neg(total)
	}
	return total, len(comps)
}

type durCase struct {
	Test  string `json:"test"`
	Kind  string `json:"kind"`
	Text  string `json:"text"`
	RSeed string `json:"rseed"`
}

func TestC20Duration(t *testing.T) {
	rapid.Check(t, func(t *rapid.T) {
		dc := durCase{Test: "TestC20Duration", RSeed: os.Getenv("VERIF_RSEED")}
		var wantOK, lenient bool
		var want int64
		tol := int64(0)
		switch rapid.IntRange(0, 9).Draw(t, "kind") {
		case 0, 1, 2:
			dc.Kind = "integer"
			var n int64
			switch rapid.IntRange(0, 3).Draw(t, "mag") {
			case 0:
				n = rapid.Int64Range(-5, 120).Draw(t, "n")
			case 1:
				n = rapid.Int64Range(-100000, 100000).Draw(t, "n")
			case 2:
				n = rapid.Int64Range(-9223372036, 9223372036).Draw(t, "n")
			case 3:
				n = rapid.SampledFrom([]int64{0, 1, -1, 60, 3600, 86400, 2147483647, 2147483648, -2147483648, 4294967296, 9223372036, -9223372036}).Draw(t, "n")
			}
			abs := n
			sign := ""
			if n < 0 {
				abs, sign = -n, "-"
			} else if rapid.IntRange(0, 4).Draw(t, "plus") == 0 {
				sign = "+"
			}
			zeros := strings.Repeat("0", rapid.SampledFrom([]int{0, 0, 0, 1, 3}).Draw(t, "zeros"))
			dc.Text = sign + zeros + strconv.FormatInt(abs, 10)
			wantOK, want = true, n*1000000000
		case 3, 4, 5:
			dc.Kind = "go-duration"
			sign := rapid.SampledFrom([]string{"", "", "+", "-"}).Draw(t, "sign")
			nc := rapid.IntRange(1, 3).Draw(t, "ncomp")
			var total int64
			var sb strings.Builder
			sb.WriteString(sign)
			for i := 0; i < nc; i++ {
				u := rapid.SampledFrom([]string{"h", "m", "s", "ms", "us", "µs", "μs", "ns"}).Draw(t, fmt.Sprintf("u%d", i))
				ip := rapid.Int64Range(0, 999).Draw(t, fmt.Sprintf("i%d", i))
				sb.WriteString(strconv.FormatInt(ip, 10))
				total += ip * unitNs[u]
				if u != "ns" && rapid.Bool().Draw(t, fmt.Sprintf("hasf%d", i)) {
					digits := rapid.IntRange(1, 3).Draw(t, fmt.Sprintf("fd%d", i))
					scale := int64(1)
					for k := 0; k < digits; k++ {
						scale *= 10
					}
					f := rapid.Int64Range(0, scale-1).Draw(t, fmt.Sprintf("f%d", i))
					sb.WriteString(fmt.Sprintf(".%0*d", digits, f))
					total += f * (unitNs[u] / scale)
				}
				sb.WriteString(u)
			}
			if sign == "-" {
				total = -total
			}
			dc.Text = sb.String()
			wantOK, want = true, total
		default:
			dc.Kind = "junk"
			dc.Text = rapid.StringOfN(rapid.RuneFrom([]rune("0123456789+-. hmsuµμnxe_,")), 0, 8, -1).Draw(t, "text")
			switch {
			case reInt.MatchString(dc.Text):
				n, err := strconv.ParseInt(dc.Text, 10, 64)
				if err != nil {
					t.Fatalf("harness: classifier: %v", err)
				}
				wantOK, want = true, n*1000000000
				dc.Kind = "junk-integer"
			case reGoDur.MatchString(dc.Text):
				r, nc := goDurExact(dc.Text)
				if r == nil {
					t.Fatalf("harness: classifier cannot evaluate %q", dc.Text)
				}
				lim := new(big.Rat).SetInt64(4000000000000000000)
				if r.Cmp(lim) > 0 || r.Cmp(new(big.Rat).Neg(lim)) < 0 {
					lenient = true // near or beyond the int64 range: either outcome
				} else {
					f, _ := r.Float64()
					wantOK, want, tol = true, int64(f), int64(nc)+1+int64(f/1e15)
					if f < 0 {
						tol = int64(nc) + 1 + int64(-f/1e15)
					}
				}
				dc.Kind = "junk-go-duration"
			default:
				wantOK = false
			}
		}

		fail := func(key, format string, a ...interface{}) {
			stats.Fail(t, "C20:"+key, dc, "Duration.UnmarshalText(%q): %s", dc.Text, fmt.Sprintf(format, a...))
		}
		const sentinelDur = macat.Duration(-987654321)
		d := sentinelDur
		err := d.UnmarshalText([]byte(dc.Text))
		switch {
		case lenient:
		case wantOK && err != nil:
			fail("duration-rejected", "valid %s rejected: %v", dc.Kind, err)
			return
		case wantOK:
			diff := int64(d) - want
			if diff < 0 {
				diff = -diff
			}
			if diff > tol {
				key := "duration-value"
				if strings.HasSuffix(dc.Kind, "integer") {
					key = "duration-seconds"
				}
				fail(key, "%s parsed as %v (%d ns), want %v (%d ns)", dc.Kind, time.Duration(d), int64(d), time.Duration(want), want)
				return
			}
		case err == nil:
			fail("duration-junk-accepted", "junk accepted as %v", time.Duration(d))
			return
		}

		// Through the command line: junk must make Run fail; occasionally a bare
		// "1" as receive timeout must last a second (lower bound only).
		if !wantOK && !lenient && rapid.IntRange(0, 3).Draw(t, "viaRun") == 0 {
			opt := rapid.SampledFrom([]string{"--recv-timeout", "--send-timeout", "--send-delay", "--send-interval", "-d", "-i"}).Draw(t, "durOpt")
			out := &capture{}
			ch := startApp(out, []string{"--pull", "--bind", fixture.Addr("inproc"), "--recv-timeout", "20ms", opt, dc.Text})
			r, ok := waitRun(ch, 10*time.Second)
			if !ok {
				fail("hang", "macat with %s %q did not return within 10 s", opt, dc.Text)
				return
			}
			if r.panicked != "" {
				fail("panic", "macat with %s %q panicked: %s", opt, dc.Text, r.panicked)
				return
			}
			if r.err == nil {
				fail("conflict-accepted", "macat accepted junk duration for %s", opt)
				return
			}
			stats.Class("junk_duration_via_run")
		}
		if dc.Kind == "integer" && rapid.IntRange(0, 39).Draw(t, "e2e") == 0 {
			out := &capture{}
			form := rapid.SampledFrom([][]string{{"--recv-timeout", "1"}, {"--recv-timeout=1"}, {"--recv-timeout", "+1"}, {"--recv-timeout", "01"}}).Draw(t, "e2eForm")
			ch := startApp(out, append([]string{"--pull", "--bind", fixture.Addr("inproc")}, form...))
			r, ok := waitRun(ch, 15*time.Second)
			if !ok {
				fail("hang", "macat --pull %v did not return within 15 s", form)
				return
			}
			if r.err != nil || r.panicked != "" {
				fail("run-error", "macat --pull %v returned %v %s", form, r.err, r.panicked)
				return
			}
			if r.elapsed < time.Second {
				fail("duration-seconds", "macat --pull %v returned after %v: a bare 1 is not one second", form, r.elapsed)
				return
			}
			stats.Class("e2e_one_second")
		}

		stats.Eval()
		stats.Class("duration")
		stats.Class("dur:" + dc.Kind)
		if !(dc.Kind == "integer" && len(dc.Text) <= 2) {
			stats.NonTrivial("dur|" + dc.Text)
		}
		stats.Sample(dc)
	})
}

// ---------------------------------------------------------------------------
// TestC20Conflicts

var (
	tlsOnce           sync.Once
	tlsCert, tlsKey   string
	tlsBoth, tlsSetup string
)

func tlsFiles() (cert, key, both string, err string) {
	tlsOnce.Do(func() {
		cfg := fixture.TLSServer()
		c := cfg.Certificates[0]
		k, ok := c.PrivateKey.(*ecdsa.PrivateKey)
		if !ok {
			tlsSetup = "unexpected key type"
			return
		}
		kb, e := x509.MarshalECPrivateKey(k)
		if e != nil {
			tlsSetup = e.Error()
			return
		}
		cp := pem.EncodeToMemory(&pem.Block{Type: "CERTIFICATE", Bytes: c.Certificate[0]})
		kp := pem.EncodeToMemory(&pem.Block{Type: "EC PRIVATE KEY", Bytes: kb})
		var e1, e2, e3 error
		tlsCert, e1 = writeScratch(cp)
		tlsKey, e2 = writeScratch(kp)
		tlsBoth, e3 = writeScratch(append(append([]byte{}, cp...), kp...))
		for _, e := range []error{e1, e2, e3} {
			if e != nil {
				tlsSetup = e.Error()
			}
		}
	})
	return tlsCert, tlsKey, tlsBoth, tlsSetup
}

var allProtos = []string{"push", "pull", "pub", "sub", "req", "rep", "surveyor", "respondent", "bus", "pair", "star"}
var formatFlags = [][]string{{"--raw"}, {"--ascii"}, {"-A"}, {"--quoted"}, {"-Q"}, {"--msgpack"}, {"--format", "no"}, {"--format=raw"}, {"--format", "ascii"}, {"--format=quoted"}, {"--format", "msgpack"}}
var junkDurations = []string{"abc", "", "1x", "s", "1.5", "1 s", "--1", "5 5", "1e3", "0x10", "ms1", "1,5s", "++2", "1h30"}

// keyLoneDash: a lone "-" argument makes the option parser index an empty slice.
const keyLoneDash = "C20:panic-lone-dash"

type confCase struct {
	Test      string   `json:"test"`
	Base      string   `json:"base"`
	Proto     string   `json:"proto"`
	Conflicts []string `json:"conflicts"`
	Args      []string `json:"args"`
	RSeed     string   `json:"rseed"`
}

func TestC20Conflicts(t *testing.T) {
	rapid.Check(t, func(t *rapid.T) {
		cc := confCase{Test: "TestC20Conflicts", RSeed: os.Getenv("VERIF_RSEED")}
		cert, key, both, terr := tlsFiles()
		if terr != "" {
			t.Fatalf("harness: TLS material: %s", terr)
		}
		var cleanup []string
		defer func() {
			for _, p := range cleanup {
				_ = os.Remove(p)
			}
		}()

		// ---- a runnable base -------------------------------------------------
		cc.Base = rapid.SampledFrom([]string{"recv", "recv", "send", "tls"}).Draw(t, "base")
		var groups [][]string // shuffled
		protoIdx, addrIdx, tlsIdx, dataIdx := -1, -1, -1, -1
		tr := rapid.SampledFrom([]string{"inproc", "inproc", "ipc", "tcp"}).Draw(t, "transport")
		nFormats := 0
		switch cc.Base {
		case "recv":
			cc.Proto = rapid.SampledFrom([]string{"pull", "sub", "pair", "bus", "star", "rep", "respondent"}).Draw(t, "proto")
		case "send":
			cc.Proto = rapid.SampledFrom([]string{"push", "pub"}).Draw(t, "proto")
		case "tls":
			cc.Proto = "pull"
			tr = "tls+tcp"
		}
		protoIdx = len(groups)
		groups = append(groups, []string{"--" + cc.Proto})
		addr := fixture.Addr(tr)
		addrIdx = len(groups)
		if tr == "tls+tcp" {
			groups = append(groups, []string{"--bind", addr})
			tlsIdx = len(groups)
			switch rapid.IntRange(0, 2).Draw(t, "tlsForm") {
			case 0:
				groups = append(groups, []string{"--cert", cert, "--key", key})
			case 1:
				groups = append(groups, []string{"--key=" + key, "-E", cert})
			case 2:
				groups = append(groups, []string{"--cert", both})
			}
		} else {
			groups = append(groups, spellAddr(addr, true, rapid.IntRange(0, 4).Draw(t, "addrForm")))
		}
		if cc.Base == "send" {
			dataIdx = len(groups)
			if rapid.Bool().Draw(t, "baseFile") {
				p, err := writeScratch([]byte("file payload"))
				if err != nil {
					t.Fatalf("harness: scratch file: %v", err)
				}
				cleanup = append(cleanup, p)
				groups = append(groups, []string{"--file", p})
			} else {
				groups = append(groups, dataArgs(t, genDataString(t, "data", 0)))
			}
			groups = append(groups, []string{"--count", strconv.Itoa(rapid.IntRange(0, 2).Draw(t, "count"))})
		} else {
			groups = append(groups, rapid.SampledFrom([][]string{{"--recv-timeout", "20ms"}, {"--recv-timeout=0.02s"}, {"--recv-timeout", "20000us"}}).Draw(t, "rto"))
		}
		// harmless extras
		if rapid.Bool().Draw(t, "withFormat") {
			groups = append(groups, rapid.SampledFrom(formatFlags).Draw(t, "format"))
			nFormats++
		}
		for i, extra := range [][]string{{"-v"}, {"-q"}, {"-vq"}, {"--verbose", "--silent"}, {"--send-timeout", "1"}, {"-d", "0"}, {"--insecure"}, {"-k"}} {
			if rapid.IntRange(0, 5).Draw(t, fmt.Sprintf("extra%d", i)) == 0 {
				groups = append(groups, extra)
			}
		}
		if cc.Base != "send" && rapid.IntRange(0, 3).Draw(t, "recvCount") == 0 {
			groups = append(groups, []string{"--count", "3"})
		}
		if cc.Proto == "sub" && rapid.Bool().Draw(t, "subscribe") {
			groups = append(groups, []string{"--subscribe", genDataString(t, "topic", 0)})
		}

		// ---- injected conflicts ----------------------------------------------
		kinds := []string{"no-protocol", "two-protocols", "no-address", "two-formats", "bad-format", "data-and-file", "data-twice", "file-twice", "file-missing", "subscribe-non-sub", "extra-argument", "tls-no-material", "bad-address", "junk-duration", "unknown-option", "missing-value", "bad-count", "dup-cert-or-key", "cacert-missing", "bogus-transport", "no-data"}
		nConf := rapid.SampledFrom([]int{0, 0, 1, 1, 1, 1, 2}).Draw(t, "nconf")
		removed := map[int]bool{}
		addedProtos := 0
		var tail []string     // must stay at the very end
		var extraPos []string // positional argument, inserted anywhere
		for c := 0; c < nConf; c++ {
			k := rapid.SampledFrom(kinds).Draw(t, fmt.Sprintf("conf%d", c))
			applied := true
			switch k {
			case "no-protocol":
				if addedProtos > 0 {
					applied = false // would leave exactly one protocol
				} else {
					removed[protoIdx] = true
				}
			case "two-protocols":
				addedProtos++
				groups = append(groups, []string{"--" + rapid.SampledFrom(allProtos).Draw(t, fmt.Sprintf("proto2_%d", c))})
				if removed[protoIdx] {
					// the base protocol was taken away before: add a second one
					groups = append(groups, []string{"--" + rapid.SampledFrom(allProtos).Draw(t, fmt.Sprintf("proto3_%d", c))})
					for i, k0 := range cc.Conflicts {
						if k0 == "no-protocol" {
							cc.Conflicts = append(cc.Conflicts[:i], cc.Conflicts[i+1:]...)
							break
						}
					}
				}
			case "no-address":
				removed[addrIdx] = true
			case "two-formats":
				for nFormats < 2 {
					groups = append(groups, rapid.SampledFrom(formatFlags).Draw(t, fmt.Sprintf("format%d", nFormats+1)))
					nFormats++
				}
			case "bad-format":
				f := rapid.SampledFrom([]string{"wrong", "", "RAW", "hex", "none", "json", "msgpack "}).Draw(t, "badFormat")
				groups = append(groups, rapid.SampledFrom([][]string{{"--format", f}, {"--format=" + f}}).Draw(t, "badFormatForm"))
			case "data-and-file", "data-twice", "file-twice":
				p, err := writeScratch([]byte("second"))
				if err != nil {
					t.Fatalf("harness: scratch file: %v", err)
				}
				cleanup = append(cleanup, p)
				d1, d2 := []string{"--data", "one"}, []string{"-D", "two"}
				f1, f2 := []string{"--file", p}, []string{"-F", p}
				if dataIdx >= 0 {
					removed[dataIdx] = true
				}
				switch k {
				case "data-and-file":
					if rapid.Bool().Draw(t, "dfOrder") {
						groups = append(groups, append(append([]string{}, d1...), f1...))
					} else {
						groups = append(groups, append(append([]string{}, f2...), d2...))
					}
				case "data-twice":
					groups = append(groups, d1, d2)
				case "file-twice":
					groups = append(groups, f1, f2)
				}
			case "file-missing":
				if dataIdx >= 0 {
					removed[dataIdx] = true
				}
				groups = append(groups, []string{"--file", filepath.Join(fixture.ScratchDir(), "c20-no-such-file")})
			case "subscribe-non-sub":
				if cc.Proto == "sub" {
					applied = false
				} else {
					groups = append(groups, rapid.SampledFrom([][]string{{"--subscribe", "topic"}, {"--subscribe="}, {"--subscribe", ""}}).Draw(t, "subForm"))
				}
			case "extra-argument":
				extraPos = []string{rapid.SampledFrom([]string{"extra", "pull", "x", "tcp://127.0.0.1:1", "1"}).Draw(t, "extraArg")}
			case "tls-no-material":
				if tlsIdx >= 0 {
					removed[tlsIdx] = true
				} else {
					a := fixture.Addr(rapid.SampledFrom([]string{"tls+tcp", "wss"}).Draw(t, "tlsTr"))
					removed[addrIdx] = true
					if rapid.Bool().Draw(t, "tlsBind") {
						groups = append(groups, []string{"--bind", a})
					} else {
						groups = append(groups, []string{"--connect", a})
					}
				}
			case "bad-address":
				removed[addrIdx] = true
				bad := rapid.SampledFrom([]string{"junk", "127.0.0.1:5555", "tcp:/x", "", "inproc:name"}).Draw(t, "badAddr")
				groups = append(groups, rapid.SampledFrom([][]string{{"--bind", bad}, {"--connect", bad}, {"--bind=" + bad}}).Draw(t, "badAddrForm"))
			case "junk-duration":
				j := rapid.SampledFrom(junkDurations).Draw(t, "junk")
				o := rapid.SampledFrom([]string{"--recv-timeout", "--send-timeout", "--send-delay", "--send-interval", "-d", "-i"}).Draw(t, "junkOpt")
				groups = append(groups, []string{o, j})
			case "unknown-option":
				u := rapid.SampledFrom([]string{"--bogus", "-", "--pul", "-Z", "--Pull", "--recv-timeout2=1", "--raw=1", "-vZ"}).Draw(t, "unknown")
				if u == "-" && stats.Known(keyLoneDash) {
					stats.Excluded(keyLoneDash)
					u = "--bogus"
				}
				groups = append(groups, []string{u})
			case "missing-value":
				tail = []string{rapid.SampledFrom([]string{"--bind", "--connect", "--data", "-D", "--file", "--count", "--recv-timeout", "-i", "--format", "--subscribe", "-X", "-l", "--cert"}).Draw(t, "missing")}
			case "bad-count":
				groups = append(groups, []string{"--count", rapid.SampledFrom([]string{"x", "", "1.5", "two", "1e2", "99999999999"}).Draw(t, "badCount")})
			case "dup-cert-or-key":
				if rapid.Bool().Draw(t, "dupCert") {
					groups = append(groups, []string{"--cert", cert}, []string{"-E", both})
				} else {
					groups = append(groups, []string{"--key", key}, []string{"--key=" + key})
				}
			case "cacert-missing":
				groups = append(groups, []string{"--cacert", filepath.Join(fixture.ScratchDir(), "c20-no-such-ca")})
			case "bogus-transport":
				removed[addrIdx] = true
				groups = append(groups, []string{"--bind", "bogus://somewhere"})
			case "no-data":
				if dataIdx < 0 {
					applied = false
				} else {
					removed[dataIdx] = true
				}
			}
			if applied {
				cc.Conflicts = append(cc.Conflicts, k)
			}
		}
		var kept [][]string
		for i, g := range groups {
			if !removed[i] {
				kept = append(kept, g)
			}
		}
		var args []string
		if len(kept) > 0 {
			for _, g := range rapid.Permutation(kept).Draw(t, "order") {
				args = append(args, g...)
			}
		}
		if extraPos != nil {
			// a positional argument ends option parsing wherever it stands; keep whole
			// option groups intact by inserting it at a group boundary: rebuild
			at := rapid.IntRange(0, len(kept)).Draw(t, "extraAt")
			args = args[:0]
			perm := rapid.Permutation(kept).Draw(t, "order2")
			for i, g := range perm {
				if i == at {
					args = append(args, extraPos...)
				}
				args = append(args, g...)
			}
			if at == len(perm) {
				args = append(args, extraPos...)
			}
		} else if len(cc.Conflicts) == 0 && rapid.IntRange(0, 5).Draw(t, "dashdash") == 0 {
			args = append(args, "--") // a bare end-of-options marker with nothing after it is fine
		}
		args = append(args, tail...)
		cc.Args = args

		// ---- run ----------------------------------------------------------------
		var r runResult
		var ok bool
		var out *capture
		for try := 0; try < 4; try++ {
			out = &capture{}
			r, ok = waitRun(startApp(out, args), 10*time.Second)
			if ok && r.err != nil && strings.Contains(r.err.Error(), "in use") && len(cc.Conflicts) == 0 {
				// port collision with another process: not a property matter
				if try == 3 {
					t.Fatalf("harness: address in use four times: %v", r.err)
				}
				time.Sleep(5 * time.Millisecond)
				continue
			}
			break
		}
		fail := func(key, format string, a ...interface{}) {
			stats.Fail(t, "C20:"+key, cc, "args %q (base %s, conflicts %v): %s", args, cc.Base, cc.Conflicts, fmt.Sprintf(format, a...))
		}
		switch {
		case !ok:
			fail("hang", "Run did not return within 10 s")
			return
		case r.panicked != "":
			key := "panic"
			for _, a := range args {
				if a == "-" {
					key = "panic-lone-dash"
				}
			}
			fail(key, "Run panicked instead of returning an error: %s", r.panicked)
			return
		case len(cc.Conflicts) > 0 && r.err == nil:
			fail("conflict-accepted", "conflicting/missing options accepted: Run returned nil")
			return
		case len(cc.Conflicts) == 0 && r.err != nil:
			fail("valid-rejected", "valid option set rejected: %v", r.err)
			return
		}
		if b := out.bytes(); len(b) != 0 {
			fail("no-output", "Run printed %d bytes without receiving anything: %s", len(b), short(b))
			return
		}
		stats.Eval()
		stats.Class("options")
		if len(cc.Conflicts) == 0 {
			stats.Class("options_valid:" + cc.Base)
		} else {
			for _, k := range cc.Conflicts {
				stats.Class("conflict:" + k)
			}
			ks := append([]string{}, cc.Conflicts...)
			sort.Strings(ks)
			stats.NonTrivial(fmt.Sprintf("conf|%s|%s|%v|%d", cc.Base, cc.Proto, ks, len(args)))
		}
		stats.Sample(cc)
	})
}
