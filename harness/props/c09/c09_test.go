// C09 — devices forward transparently and the hop limit is exact.
//
// (A) Hop-limit boundary: a virtual-transport peer injects, into each TTL-enforcing
// receiver, messages that have crossed k connections (k routing words for the
// REQ/SURVEY family, hop byte k-1 for PAIR1/STAR), each followed by an in-limit
// sentinel, and checks delivered <=> k <= TTL (PAIR1: k <= TTL+1), identically
// in cooked and raw mode.  Quick: generated (TTL,k) with boundary bias; thorough:
// every TTL 1..255 x k in TTL-1..TTL+2 (exhaustive for that axis).
// (B) Real Device chains of length 0..4 between concurrent cooked clients and a
// server with a chosen TTL: payloads unchanged, replies reach the asking client,
// answered <=> chain length+1 <= TTL.
package c09

import (
	"bytes"
	"fmt"
	"os"
	"strconv"
	"sync"
	"testing"
	"time"

	"go.nanomsg.org/mangos/v3"
	"go.nanomsg.org/mangos/v3/verifharness/fixture"
	"go.nanomsg.org/mangos/v3/verifharness/stats"
	"go.nanomsg.org/mangos/v3/verifharness/vt"
	"pgregory.net/rapid"
)

func TestMain(m *testing.M) {
	stats.Init("C09")
	stats.Rule("(A) receiver in {rep,xrep,respondent,xrespondent,pair1,xpair1,star,xstar} x TTL (boundary-biased 1..255; thorough: all) x hop count k in TTL-1..TTL+2 (plus uniform), random routing-word content, each probe followed by an in-limit sentinel; (B) Device chains of 0..4 hops (req/rep, survey, pair1, pipeline) over inproc/tcp with 1-3 concurrent clients and server TTL near the chain length. Also: (C) raw senders with TTL t given hop information t-1..t+2. Non-trivial: k in {TTL, TTL+1} (PAIR1: TTL+1, TTL+2), or chain length>=2 with >=2 clients; distinct by (receiver,TTL,k) resp. (pattern,transport,chain,clients,TTL). Round 5: loop-back devices written Device(s,s) / Device(s,nil) / Device(nil,s) on raw pair, pair1, bus with an order oracle over 200-3000 pipelined messages")
	rc := m.Run()
	stats.Flush()
	fixture.Cleanup()
	os.Exit(rc)
}

var receivers = []string{"rep", "xrep", "respondent", "xrespondent", "pair1", "xpair1", "star", "xstar"}

func family(recv string) string {
	switch recv {
	case "pair1", "xpair1":
		return "pair1"
	case "star", "xstar":
		return "star"
	}
	return "route"
}

// encode builds the wire message of a message that crossed k connections.
func encode(recv string, k int, words []uint32, body []byte) []byte {
	var w []byte
	switch family(recv) {
	case "route":
		for i := 0; i < k-1; i++ {
			x := words[i%len(words)] & 0x7fffffff
			w = append(w, byte(x>>24), byte(x>>16), byte(x>>8), byte(x))
		}
		x := words[(k-1)%len(words)] | 0x80000000
		w = append(w, byte(x>>24), byte(x>>16), byte(x>>8), byte(x))
	default:
		w = append(w, 0, 0, 0, byte(k-1))
	}
	return append(w, body...)
}

func shouldDeliver(recv string, ttl, k int) bool {
	switch family(recv) {
	case "pair1":
		return k <= ttl+1 && k-1 < 255
	}
	return k <= ttl
}

type probeDoc struct {
	Test  string   `json:"test"`
	Recv  string   `json:"receiver"`
	TTL   int      `json:"ttl"`
	Ks    []int    `json:"hop_counts"`
	Words []uint32 `json:"words"`
	RSeed string   `json:"rseed"`
}

// probe runs one (receiver, ttl) socket against a list of hop counts.  fail is called with key,msg.
func probe(recv string, ttl int, ks []int, words []uint32, fail func(key, msg string), harness func(msg string)) {
	sock := fixture.New(recv)
	defer sock.Close()
	if ttl != 8 || true {
		if err := sock.SetOption(mangos.OptionTTL, ttl); err != nil {
			fail("ttl-rejected", fmt.Sprintf("SetOption(TTL,%d) on %s: %v", ttl, recv, err))
			return
		}
	}
	if v, err := sock.GetOption(mangos.OptionTTL); err != nil || v != ttl {
		fail("ttl-readback", fmt.Sprintf("GetOption(TTL) on %s = (%v,%v), want %d", recv, v, err, ttl))
	}
	ep, err := vt.Attach(sock)
	if err != nil {
		harness(err.Error())
		return
	}
	defer ep.Forget()
	p, ok := ep.ConnectWait(5 * time.Second)
	if !ok {
		harness("pipe not attached")
		return
	}
	_ = sock.SetOption(mangos.OptionRecvDeadline, 4*time.Second)
	_ = sock.SetOption(mangos.OptionSendDeadline, 4*time.Second)
	// raw reply sockets hand the routing header to the application, which returns it with its answer
	rawRoute := recv == "xrep" || recv == "xrespondent"
	recvOne := func() (hdr, body []byte, err error) {
		if !rawRoute {
			body, err = sock.Recv()
			return nil, body, err
		}
		m, err := sock.RecvMsg()
		if err != nil {
			return nil, nil, err
		}
		hdr, body = append([]byte(nil), m.Header...), append([]byte(nil), m.Body...)
		m.Free()
		return hdr, body, nil
	}
	nsent := 0 // answers transmitted so far on the peer's connection
	for i, k := range ks {
		if family(recv) != "route" && k > 256 {
			continue
		}
		body := []byte(fmt.Sprintf("probe-%d-k%d", i, k))
		sent := []byte(fmt.Sprintf("sentinel-%d", i))
		pm := encode(recv, k, words, body)
		sm := encode(recv, 1, words, sent)
		done := make(chan bool, 1)
		go func() {
			ok := p.Handoff(pm, 5*time.Second) != vt.InjNotTaken
			ok = ok && p.Handoff(sm, 5*time.Second) != vt.InjNotTaken
			done <- ok
		}()
		want := shouldDeliver(recv, ttl, k)
		hdr, got, err := recvOne()
		if err != nil {
			fail("sentinel-lost", fmt.Sprintf("%s ttl=%d: nothing received after probe k=%d + in-limit sentinel: %v", recv, ttl, k, err))
			<-done
			return
		}
		delivered := false
		if bytes.Equal(got, body) {
			delivered = true
			if family(recv) == "route" {
				// the answer must go back on the connection the request came from, behind exactly the k
				// routing words the request carried, however many they are
				reply := []byte("re:" + string(body))
				n := nsent
				nsent++
				var serr error
				if rawRoute {
					m := mangos.NewMessage(len(reply))
					m.Header = append(m.Header, hdr...)
					m.Body = append(m.Body, reply...)
					serr = sock.SendMsg(m)
				} else {
					serr = sock.Send(reply)
				}
				wantWire := append(append([]byte(nil), pm[:4*k]...), reply...)
				switch {
				case serr != nil:
					fail("reply-error:"+recv, fmt.Sprintf("%s ttl=%d: answering a request that crossed %d connections failed: %v", recv, ttl, k, serr))
				case !p.WaitSent(n+1, 3*time.Second):
					fail("reply-lost:"+recv, fmt.Sprintf("%s ttl=%d: the answer to a delivered request that crossed %d connections was not transmitted on the connection it came from", recv, ttl, k))
				case !bytes.Equal(p.SentLog()[n].Data, wantWire):
					fail("reply-bytes:"+recv, fmt.Sprintf("%s ttl=%d k=%d: the answer went out as %x, want the request's %d routing words then the body: %x", recv, ttl, k, trunc(p.SentLog()[n].Data), k, trunc(wantWire)))
				default:
					stats.Class("reply_routed_back:" + recv)
				}
			}
			_, got, err = recvOne()
			if err != nil || !bytes.Equal(got, sent) {
				fail("sentinel-lost", fmt.Sprintf("%s ttl=%d: after delivering probe k=%d the sentinel did not follow: (%q,%v)", recv, ttl, k, got, err))
				<-done
				return
			}
		} else if !bytes.Equal(got, sent) {
			fail("payload-altered", fmt.Sprintf("%s ttl=%d k=%d: received %q, which is neither the probe body nor the sentinel", recv, ttl, k, got))
			<-done
			return
		}
		if !<-done {
			harness("handoff timeout")
			return
		}
		if delivered != want {
			verb := map[bool]string{true: "delivered", false: "dropped"}
			fail("hop-limit:"+recv, fmt.Sprintf("%s with TTL %d %s a message that crossed %d connections; it must be %s", recv, ttl, verb[delivered], k, verb[want]))
			return
		}
		// cooked sockets answer on the same path; make rep/respondent ready for the next request
		if recv == "rep" || recv == "respondent" {
			_ = sock.Send([]byte("ack"))
			nsent++
			if !p.WaitSent(nsent, 3*time.Second) {
				fail("reply-lost:"+recv, fmt.Sprintf("%s ttl=%d: the answer to the in-limit sentinel was not transmitted", recv, ttl))
				return
			}
		}
		stats.Eval()
		bnd := k == ttl || k == ttl+1
		if family(recv) == "pair1" {
			bnd = k == ttl+1 || k == ttl+2
		}
		if bnd {
			stats.Class("boundary")
			stats.NonTrivial(fmt.Sprintf("A|%s|%d|%d", recv, ttl, k))
		}
		stats.Class("recv:" + recv)
	}
}

func TestC09HopLimit(t *testing.T) {
	rapid.Check(t, func(t *rapid.T) {
		recv := rapid.SampledFrom(receivers).Draw(t, "receiver")
		var ttl int
		if rapid.IntRange(0, 2).Draw(t, "ttlkind") == 0 {
			ttl = rapid.IntRange(1, 255).Draw(t, "ttl")
		} else {
			ttl = rapid.SampledFrom([]int{1, 2, 3, 8, 8, 254, 255}).Draw(t, "ttlb")
		}
		n := rapid.IntRange(1, 4).Draw(t, "nk")
		ks := make([]int, n)
		for i := range ks {
			if rapid.IntRange(0, 4).Draw(t, "kkind") == 0 {
				ks[i] = rapid.IntRange(1, ttl+2).Draw(t, "kuni")
			} else {
				ks[i] = ttl + rapid.IntRange(-1, 2).Draw(t, "kd")
			}
			if ks[i] < 1 {
				ks[i] = 1
			}
		}
		words := rapid.SliceOfN(rapid.Uint32(), 1, 5).Draw(t, "words")
		doc := probeDoc{"TestC09HopLimit", recv, ttl, ks, words, os.Getenv("VERIF_RSEED")}
		probe(recv, ttl, ks, words,
			func(key, msg string) { stats.Fail(t, "C09:"+key, doc, "%s", msg) },
			func(msg string) { t.Fatalf("harness: %s", msg) })
		stats.Sample(doc)
	})
}

// TestC09TTLRange: the option accepts exactly 1..255, default 8.
func TestC09TTLRange(t *testing.T) {
	for _, recv := range receivers {
		s := fixture.New(recv)
		if v, err := s.GetOption(mangos.OptionTTL); err != nil || v != 8 {
			stats.Fail(t, "C09:ttl-default:"+recv, map[string]interface{}{"test": "TestC09TTLRange", "receiver": recv}, "%s default TTL = (%v,%v), want 8", recv, v, err)
		}
		for _, bad := range []interface{}{0, 256, -1, 1 << 20, "8", 8.0, nil} {
			if err := s.SetOption(mangos.OptionTTL, bad); err != mangos.ErrBadValue {
				stats.Fail(t, "C09:ttl-range:"+recv, map[string]interface{}{"test": "TestC09TTLRange", "receiver": recv, "value": fmt.Sprint(bad)}, "%s SetOption(TTL,%v) = %v, want ErrBadValue", recv, bad, err)
			}
			stats.Eval()
		}
		for _, good := range []int{1, 255} {
			if err := s.SetOption(mangos.OptionTTL, good); err != nil {
				stats.Fail(t, "C09:ttl-range:"+recv, map[string]interface{}{"test": "TestC09TTLRange", "receiver": recv, "value": good}, "%s SetOption(TTL,%d) = %v, want nil", recv, good, err)
			}
			stats.Eval()
		}
		_ = s.Close()
	}
}

// TestC09Exhaustive (thorough tier): every TTL x k in TTL-1..TTL+2 on every receiver.
func TestC09Exhaustive(t *testing.T) {
	if !stats.Thorough() {
		t.Skip("thorough tier only")
	}
	shard, _ := strconv.Atoi(os.Getenv("VERIF_SHARD"))
	nshards, _ := strconv.Atoi(os.Getenv("VERIF_NSHARDS"))
	if nshards <= 0 {
		nshards = 1
	}
	words := []uint32{0x01020304, 0x7fffffff, 0, 0x00ff00ff}
	n := 0
	for _, recv := range receivers {
		for ttl := 1; ttl <= 255; ttl++ {
			n++
			if n%nshards != shard {
				continue
			}
			ks := []int{}
			for k := ttl - 1; k <= ttl+2; k++ {
				if k >= 1 {
					ks = append(ks, k)
				}
			}
			doc := probeDoc{"TestC09Exhaustive", recv, ttl, ks, words, ""}
			probe(recv, ttl, ks, words,
				func(key, msg string) { stats.Fail(t, "C09:"+key, doc, "%s", msg) },
				func(msg string) { t.Fatalf("harness: %s", msg) })
		}
	}
	stats.Exhaustive(true)
	stats.Extra("exhaustive_axis", "receiver x TTL 1..255 x k in TTL-1..TTL+2")
}

// ---------------------------------------------------------------------------
// (B) real device chains

type chainPat struct {
	name           string
	client, server string
	devFront       string // faces the clients (listens for them)
	devBack        string // faces the server
	reply          bool
	ttlOn          string // which end enforces the TTL option we set ("server")
}

var chainPats = []chainPat{
	{"reqrep", "req", "rep", "xrep", "xreq", true, "server"},
	{"survey", "surveyor", "respondent", "xrespondent", "xsurveyor", true, "server"},
	{"pair1", "pair1", "pair1", "xpair1", "xpair1", false, "server"},
	{"pipeline", "push", "pull", "xpull", "xpush", false, ""},
}

func TestC09Chains(t *testing.T) {
	rapid.Check(t, func(t *rapid.T) {
		pat := rapid.SampledFrom(chainPats).Draw(t, "pattern")
		tr := rapid.SampledFrom([]string{"inproc", "inproc", "tcp"}).Draw(t, "transport")
		n := rapid.IntRange(0, 4).Draw(t, "chain")
		nclients := rapid.IntRange(1, 3).Draw(t, "clients")
		if pat.name == "pair1" {
			nclients = 1
		}
		// hops crossed by a request = n+1 connections; PAIR1 counts forwarders (n).
		crossed := n + 1
		ttl := crossed + rapid.IntRange(-1, 1).Draw(t, "ttlDelta")
		if rapid.IntRange(0, 3).Draw(t, "ttlDefault") == 0 {
			ttl = 8
		}
		if ttl < 1 {
			ttl = 1
		}
		nmsg := rapid.IntRange(1, 4).Draw(t, "nmsg")
		key := rapid.Uint64().Draw(t, "key")
		doc := map[string]interface{}{"test": "TestC09Chains", "pattern": pat.name, "transport": tr, "chain": n, "clients": nclients, "ttl": ttl, "nmsg": nmsg, "key": key, "rseed": os.Getenv("VERIF_RSEED")}
		// failures are collected (client goroutines must not call t.Fatalf) and reported at the end
		var fmu sync.Mutex
		var failures [][2]string
		fail := func(k, f string, a ...interface{}) {
			fmu.Lock()
			failures = append(failures, [2]string{k, fmt.Sprintf(f, a...)})
			fmu.Unlock()
		}
		report := func() {
			fmu.Lock()
			defer fmu.Unlock()
			if len(failures) > 0 {
				stats.Fail(t, "C09:"+failures[0][0]+":"+pat.name, doc, "%s chain=%d clients=%d ttl=%d over %s: %s", pat.name, n, nclients, ttl, tr, failures[0][1])
			}
		}
		defer report()
		var socks []mangos.Socket
		defer func() {
			for _, s := range socks {
				_ = s.Close()
			}
		}()
		mk := func(name string) mangos.Socket {
			s := fixture.New(name)
			socks = append(socks, s)
			return s
		}
		server := mk(pat.server)
		if pat.ttlOn != "" {
			if err := server.SetOption(mangos.OptionTTL, ttl); err != nil {
				t.Fatalf("harness: set ttl: %v", err)
			}
		}
		sev := fixture.Hook(server)
		addr, _, err := fixture.Listen(server, tr)
		if err != nil {
			t.Fatalf("harness: listen: %v", err)
		}
		// build devices from the server outwards
		upstream := addr
		upEv := sev
		for i := 0; i < n; i++ {
			back := mk(pat.devBack)
			front := mk(pat.devFront)
			bev := fixture.Hook(back)
			if _, err := fixture.Dial(back, upstream); err != nil {
				t.Fatalf("harness: dial: %v", err)
			}
			if !bev.WaitAttached(1, 5*time.Second) || !upEv.WaitAttached(1, 5*time.Second) {
				t.Fatalf("harness: device link not attached")
			}
			fev := fixture.Hook(front)
			a, _, err := fixture.Listen(front, tr)
			if err != nil {
				t.Fatalf("harness: listen: %v", err)
			}
			if err := mangos.Device(front, back); err != nil {
				fail("device-error", "Device(%s,%s): %v", pat.devFront, pat.devBack, err)
				return
			}
			upstream = a
			upEv = fev
		}
		clients := make([]mangos.Socket, nclients)
		for i := range clients {
			c := mk(pat.client)
			cev := fixture.Hook(c)
			if _, err := fixture.Dial(c, upstream); err != nil {
				t.Fatalf("harness: dial: %v", err)
			}
			if !cev.WaitAttached(1, 5*time.Second) || !upEv.WaitAttached(i+1, 5*time.Second) {
				t.Fatalf("harness: client link not attached")
			}
			clients[i] = c
		}
		var expectAnswered bool
		switch pat.name {
		case "pair1":
			expectAnswered = n <= ttl // PAIR1 counts forwarders
		case "pipeline":
			expectAnswered = true
		default:
			expectAnswered = crossed <= ttl
		}
		short := 250 * time.Millisecond
		long := 5 * time.Second
		payload := func(ci, j int) []byte {
			return append([]byte(fmt.Sprintf("c%d-m%d-", ci, j)), fixture.Payload(key+uint64(ci*100+j), 40+j*300)...)
		}

		if pat.reply {
			// server: echo with a server mark
			stop := make(chan struct{})
			var swg sync.WaitGroup
			swg.Add(1)
			_ = server.SetOption(mangos.OptionRecvDeadline, 100*time.Millisecond)
			var serverGot [][]byte
			var smu sync.Mutex
			go func() {
				defer swg.Done()
				for {
					select {
					case <-stop:
						return
					default:
					}
					b, err := server.Recv()
					if err != nil {
						continue
					}
					smu.Lock()
					serverGot = append(serverGot, b)
					smu.Unlock()
					_ = server.Send(append([]byte("ANS:"), b...))
				}
			}()
			var wg sync.WaitGroup
			for ci, c := range clients {
				wg.Add(1)
				go func(ci int, c mangos.Socket) {
					defer wg.Done()
					d := long
					if !expectAnswered {
						d = short
					}
					_ = c.SetOption(mangos.OptionRecvDeadline, d)
					if pat.name == "survey" {
						_ = c.SetOption(mangos.OptionSurveyTime, d)
					}
					for j := 0; j < nmsg; j++ {
						want := payload(ci, j)
						if err := c.Send(want); err != nil {
							fail("client-send", "client %d send: %v", ci, err)
							return
						}
						got, err := c.Recv()
						if expectAnswered {
							if err != nil {
								fail("not-answered", "client %d request %d crossing %d connections (server TTL %d) got no answer: %v", ci, j, crossed, ttl, err)
								return
							}
							if !bytes.Equal(got, append([]byte("ANS:"), want...)) {
								fail("wrong-reply", "client %d request %d received %q..., want the answer to its own request %q...", ci, j, trunc(got), trunc(want))
								return
							}
						} else if err == nil {
							fail("answered-beyond-ttl", "client %d request %d crossing %d connections was answered although the server TTL is %d", ci, j, crossed, ttl)
							return
						}
					}
				}(ci, c)
			}
			wg.Wait()
			close(stop)
			swg.Wait()
		} else {
			// one-way: client 0..n send, server receives everything (pipeline) / in order (pair1)
			_ = server.SetOption(mangos.OptionRecvDeadline, long)
			if !expectAnswered {
				_ = server.SetOption(mangos.OptionRecvDeadline, short)
			}
			want := map[string]bool{}
			for ci, c := range clients {
				_ = c.SetOption(mangos.OptionSendDeadline, long)
				for j := 0; j < nmsg; j++ {
					p := payload(ci, j)
					want[string(p)] = true
					if err := c.Send(p); err != nil {
						fail("client-send", "client %d send: %v", ci, err)
						return
					}
				}
			}
			for i := 0; i < nclients*nmsg; i++ {
				got, err := server.Recv()
				if expectAnswered {
					if err != nil {
						fail("not-delivered", "message %d of %d through %d forwarders (TTL %d) not delivered: %v", i, nclients*nmsg, n, ttl, err)
						return
					}
					if !want[string(got)] {
						fail("payload-altered", "server received %q..., not one of the sent payloads (or a duplicate)", trunc(got))
						return
					}
					delete(want, string(got))
				} else {
					if err == nil {
						fail("delivered-beyond-ttl", "message through %d forwarders delivered although TTL is %d", n, ttl)
					}
					break
				}
			}
		}
		stats.Eval()
		stats.Class("chain:" + pat.name)
		stats.Class(fmt.Sprintf("chainlen=%d", n))
		if n >= 2 && nclients >= 2 || crossed == ttl || crossed == ttl+1 {
			stats.NonTrivial(fmt.Sprintf("B|%s|%s|%d|%d|%d", pat.name, tr, n, nclients, ttl))
		}
		stats.Sample(doc)
	})
}

func trunc(b []byte) []byte {
	if len(b) > 24 {
		return b[:24]
	}
	return b
}
