package c09

import (
	"encoding/binary"
	"fmt"
	"os"
	"testing"
	"time"

	"go.nanomsg.org/mangos/v3"
	"go.nanomsg.org/mangos/v3/verifharness/fixture"
	"go.nanomsg.org/mangos/v3/verifharness/stats"
	"pgregory.net/rapid"
)

// TestC09LoopbackDevice: a one-socket device in each of its three spellings — Device(s, s),
// Device(s, nil), Device(nil, s) — must behave like one forwarder.  A PAIR or PAIR1 client that
// pipelines numbered messages through a raw loop-back device gets every one of them back exactly
// once and in the order sent ("as if directly connected": the echo of a directly connected peer
// cannot overtake); over a raw BUS loop-back device the second client receives each message of the
// first exactly once, in order, and the sender none.
func TestC09LoopbackDevice(t *testing.T) {
	stats.ScaledChecks(6, 3, func() {
		rapid.Check(t, func(t *rapid.T) {
			kind := rapid.SampledFrom([]string{"pair1", "pair1", "pair", "bus"}).Draw(t, "kind")
			form := rapid.SampledFrom([]string{"s,s", "s,nil", "nil,s"}).Draw(t, "form")
			tr := rapid.SampledFrom([]string{"inproc", "inproc", "tcp", "ipc"}).Draw(t, "transport")
			n := rapid.IntRange(200, 3000).Draw(t, "n")
			window := rapid.SampledFrom([]int{8, 32, 64}).Draw(t, "window")
			doc := map[string]interface{}{"test": "TestC09LoopbackDevice", "kind": kind, "form": form, "transport": tr, "n": n, "window": window, "rseed": os.Getenv("VERIF_RSEED")}
			fail := func(k, f string, a ...interface{}) {
				stats.Fail(t, "C09:loopback-"+k+":"+kind, doc, "Device(%s) on x%s over %s, %d messages pipelined %d at a time: %s", form, kind, tr, n, window, fmt.Sprintf(f, a...))
			}
			dev := fixture.New("x" + kind)
			defer dev.Close()
			_ = dev.SetOption(mangos.OptionReadQLen, 256)
			_ = dev.SetOption(mangos.OptionWriteQLen, 256)
			var err error
			switch form {
			case "s,s":
				err = mangos.Device(dev, dev)
			case "s,nil":
				err = mangos.Device(dev, nil)
			default:
				err = mangos.Device(nil, dev)
			}
			if err != nil {
				fail("refused", "Device returned %v for a raw socket", err)
				return
			}
			addr, _, err := fixture.Listen(dev, tr)
			if err != nil {
				t.Fatalf("harness: %v", err)
			}
			A := fixture.New(kind)
			defer A.Close()
			rcv := A
			if kind == "bus" {
				B := fixture.New(kind)
				defer B.Close()
				rcv = B
				_ = B.SetOption(mangos.OptionReadQLen, 256)
				if _, err := fixture.Dial(B, addr); err != nil {
					t.Fatalf("harness: %v", err)
				}
			}
			_ = A.SetOption(mangos.OptionReadQLen, 256)
			_ = A.SetOption(mangos.OptionWriteQLen, 256)
			if _, err := fixture.Dial(A, addr); err != nil {
				t.Fatalf("harness: %v", err)
			}
			_ = A.SetOption(mangos.OptionSendDeadline, 5*time.Second)
			_ = rcv.SetOption(mangos.OptionRecvDeadline, 5*time.Second)
			time.Sleep(20 * time.Millisecond) // both ends attached (bus: no handshake of its own to wait for)
			sent, got := 0, 0
			for got < n {
				for sent < n && sent-got < window {
					var b [8]byte
					binary.BigEndian.PutUint64(b[:], uint64(sent))
					if err := A.Send(b[:]); err != nil {
						fail("send", "Send %d: %v", sent, err)
						return
					}
					sent++
				}
				m, err := rcv.Recv()
				if err != nil {
					fail("lost", "message %d did not come through the device within 5s (%v); %d sent", got, err, sent)
					return
				}
				if len(m) != 8 {
					fail("altered", "received %x through the device, which nobody sent", m)
					return
				}
				idx := int(binary.BigEndian.Uint64(m))
				if idx != got {
					what := "overtook its predecessors"
					if idx < got {
						what = "arrived a second time"
					}
					fail("order", "expected message %d next, received %d: a message %s on its way through a single loop-back device", got, idx, what)
					return
				}
				got++
			}
			if kind == "bus" {
				// the sender must not have received anything of its own
				_ = A.SetOption(mangos.OptionRecvDeadline, 30*time.Millisecond)
				if m, err := A.Recv(); err == nil {
					fail("echo", "the sending BUS member received %x back through the device", m)
					return
				}
			}
			stats.Eval()
			stats.Class("loopback:" + kind + ":" + form)
			stats.NonTrivial(fmt.Sprintf("LB|%s|%s|%s|%d|%d", kind, form, tr, n/500, window))
			stats.Sample(doc)
		})
	})
}
