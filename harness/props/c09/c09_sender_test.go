package c09

import (
	"bytes"
	"fmt"
	"os"
	"testing"
	"time"

	"go.nanomsg.org/mangos/v3"
	"go.nanomsg.org/mangos/v3/verifharness/fixture"
	"go.nanomsg.org/mangos/v3/verifharness/stats"
	"go.nanomsg.org/mangos/v3/verifharness/vt"
	"pgregory.net/rapid"
)

// TestC09SenderIgnoresOwnTTL: the hop limit is the *receiver's*.  A raw socket (the sending half
// of a device) passes on a message whatever hop count it carries and whatever its own TTL is; it
// is for the next receiver to decide.  The scripted peer must see the message on the wire with
// the hop information unchanged.
func TestC09SenderIgnoresOwnTTL(t *testing.T) {
	stats.ScaledChecks(3, 20, func() {
		rapid.Check(t, func(t *rapid.T) {
			name := rapid.SampledFrom([]string{"xstar", "xstar", "xpair1", "xreq", "xsurveyor", "xrep", "xrespondent"}).Draw(t, "sender")
			ttl := rapid.SampledFrom([]int{1, 1, 2, 3, 8, 20, 254, 255}).Draw(t, "ttl")
			hops := ttl + rapid.IntRange(-1, 2).Draw(t, "delta")
			if hops < 0 {
				hops = 0
			}
			if hops > 254 {
				hops = 254
			}
			doc := map[string]interface{}{"test": "TestC09SenderIgnoresOwnTTL", "sender": name, "ttl": ttl, "hops": hops, "rseed": os.Getenv("VERIF_RSEED")}
			sock := fixture.New(name)
			defer sock.Close()
			if err := sock.SetOption(mangos.OptionTTL, ttl); err != nil && err != mangos.ErrBadOption {
				stats.Fail(t, "C09:ttl-rejected", doc, "SetOption(TTL,%d) on %s: %v", ttl, name, err)
				return
			}
			ev := fixture.Hook(sock)
			ep, err := vt.Attach(sock)
			if err != nil {
				t.Fatalf("harness: %v", err)
			}
			defer ep.Forget()
			p, ok := ep.ConnectWait(5 * time.Second)
			if !ok || !ev.WaitAttached(1, 5*time.Second) {
				t.Fatalf("harness: pipe not attached")
			}
			body := []byte(fmt.Sprintf("onward-%s-%d-%d", name, ttl, hops))
			m := mangos.NewMessage(len(body))
			m.Body = append(m.Body, body...)
			var wantHdr []byte
			switch name {
			case "xstar", "xpair1":
				wantHdr = []byte{0, 0, 0, byte(hops)}
				m.Header = append(m.Header, wantHdr...)
			default:
				// hops routing words collected so far, then the request id
				for i := 0; i < hops; i++ {
					wantHdr = append(wantHdr, 0, 0, byte(i>>8), byte(i)|1)
				}
				wantHdr = append(wantHdr, 0x80, 0, 0, 7)
				if name == "xrep" || name == "xrespondent" {
					id := ev.PipeList()[0].ID()
					m.Header = append(m.Header, byte(id>>24), byte(id>>16), byte(id>>8), byte(id))
				}
				m.Header = append(m.Header, wantHdr...)
			}
			_ = sock.SetOption(mangos.OptionSendDeadline, 2*time.Second)
			if err := sock.SendMsg(m); err != nil {
				m.Free()
				stats.Fail(t, "C09:forward-refused:"+name, doc, "%s with TTL %d: SendMsg of a message carrying hop information %d failed: %v", name, ttl, hops, err)
				return
			}
			if !p.WaitSent(1, 2*time.Second) {
				stats.Fail(t, "C09:sender-dropped:"+name, doc, "%s with TTL %d did not transmit a message carrying hop information %d: the limit is for the receiver to apply, not the sender", name, ttl, hops)
				return
			}
			got := p.SentLog()[0].Data
			if !bytes.Equal(got, append(append([]byte{}, wantHdr...), body...)) {
				stats.Fail(t, "C09:sender-altered:"+name, doc, "%s with TTL %d transmitted %x, want header %x followed by the body unchanged", name, ttl, trunc(got), trunc(wantHdr))
				return
			}
			stats.Eval()
			stats.Class("sender_transparent:" + name)
			if hops >= ttl {
				stats.NonTrivial(fmt.Sprintf("S|%s|%d|%d", name, ttl, hops))
			}
			stats.Sample(doc)
		})
	})
}
