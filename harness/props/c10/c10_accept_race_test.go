package c10

import (
	"fmt"
	"net"
	"os"
	"strings"
	"sync"
	"testing"
	"time"

	"go.nanomsg.org/mangos/v3/verifharness/fixture"
	"go.nanomsg.org/mangos/v3/verifharness/stats"
	"pgregory.net/rapid"
)

// TestC10CloseRacesAccept: raw peers that never speak keep connecting while the listening socket
// is closed at a drawn moment.  Every connection the listener still accepted must be closed by
// the library once Close has returned: nothing that belongs to the socket may outlive it.
func TestC10CloseRacesAccept(t *testing.T) {
	stats.ScaledChecks(8, 5, func() {
		rapid.Check(t, func(t *rapid.T) {
			tr := rapid.SampledFrom([]string{"tcp", "tcp", "ipc", "tls+tcp"}).Draw(t, "transport")
			rounds := rapid.IntRange(5, 15).Draw(t, "rounds")
			nconn := rapid.IntRange(2, 8).Draw(t, "connections")
			doc := map[string]interface{}{"test": "TestC10CloseRacesAccept", "transport": tr, "rounds": rounds, "connections": nconn, "rseed": os.Getenv("VERIF_RSEED")}
			leftOpen, accepted := 0, 0
			for r := 0; r < rounds; r++ {
				delayUs := rapid.IntRange(0, 400).Draw(t, "closeAfterUs")
				S := fixture.New("pull")
				addr, _, err := fixture.Listen(S, tr)
				if err != nil {
					_ = S.Close()
					t.Skip("port busy")
				}
				network, a := "tcp", addr[strings.Index(addr, "://")+3:]
				if tr == "ipc" {
					network = "unix"
				}
				var mu sync.Mutex
				var conns []net.Conn
				done := make(chan struct{})
				go func() {
					defer close(done)
					for i := 0; i < nconn; i++ {
						c, err := net.DialTimeout(network, a, time.Second)
						if err != nil {
							return // listener gone: refused
						}
						mu.Lock()
						conns = append(conns, c)
						mu.Unlock()
					}
				}()
				for t0 := time.Now(); time.Since(t0) < time.Duration(delayUs)*time.Microsecond; {
				}
				if !fixture.Within(3*time.Second, func() { _ = S.Close() }) {
					stats.Fail(t, "C10:close-hangs", doc, "%s: Socket.Close did not return within 3s while silent peers were connecting", tr)
					return
				}
				<-done
				mu.Lock()
				cs := append([]net.Conn(nil), conns...)
				mu.Unlock()
				for _, c := range cs {
					_ = c.SetReadDeadline(time.Now().Add(2 * time.Second))
					buf := make([]byte, 64)
					for {
						if _, err := c.Read(buf); err != nil {
							if ne, ok := err.(net.Error); ok && ne.Timeout() {
								leftOpen++
							}
							break
						}
					}
					_ = c.Close()
				}
				accepted += len(cs)
				if leftOpen > 0 && tr != "ipc" {
					// once the port was free an unrelated process may have taken it and accepted our
					// later dials: only a server-side connection held by this very process is a leak
					var pn int
					if i := strings.LastIndex(a, ":"); i >= 0 {
						_, _ = fmt.Sscanf(a[i+1:], "%d", &pn)
					}
					if !fixture.OwnsServerSideConnection(pn) {
						stats.Class("later_dials_reached_another_process")
						leftOpen = 0
					}
				}
				if leftOpen > 0 {
					stats.Fail(t, "C10:connection-leak:silent-peer", doc, "%s: %d of %d silent connections made while Socket.Close was running (close issued %dus after the first dial) are still open 2s after Close returned", tr, leftOpen, len(cs), delayUs)
					return
				}
			}
			stats.Eval()
			stats.Class("close_races_accept:" + tr)
			if accepted > 0 {
				stats.NonTrivial(fmt.Sprintf("CRA|%s|%d|%d", tr, rounds, nconn))
			}
			stats.Sample(doc)
		})
	})
}
