// C10 — Close unblocks everything, fails later calls and releases all resources.
//
// Generated cases: socket constructor (24) x transport x contexts x a set of
// activities in progress at the moment of Close (blocked Recv on socket and
// contexts, blocked Sends, an asynchronous dialer redialling an absent listener,
// a peer stuck in the handshake, a peer closing concurrently, device forwarders).
// Oracle: blocked calls return promptly with a closed error (Recv may return a
// queued message), Close returns, later calls fail fast, and after everything is
// closed no library goroutine, pipe id, pipe-list entry or bound address remains.
package c10

import (
	"fmt"
	"net"
	"os"
	"strconv"
	"strings"
	"sync"
	"sync/atomic"
	"testing"
	"time"

	"go.nanomsg.org/mangos/v3"
	"go.nanomsg.org/mangos/v3/internal/core"
	"go.nanomsg.org/mangos/v3/verifharness/fixture"
	"go.nanomsg.org/mangos/v3/verifharness/stats"
	"go.nanomsg.org/mangos/v3/verifharness/vt"
	"pgregory.net/rapid"
)

func TestMain(m *testing.M) {
	stats.Init("C10")
	stats.Rule("socket constructor (24) x transport {inproc,tcp,ipc,ws,tls+tcp,wss} x role x 0-2 contexts x activity set {blocked Recv (socket+contexts), blocked Sends (no peer / back-pressuring vt peer, small write queue), async redial to an absent listener, silent peer in handshake (listener and dialer side), peer closing concurrently, running Device}; then Close of the socket (optionally a context first). Also: 2-5 dialers parked on the socket's listener; REQ without peer with Send and Recv blocked on one context; Close racing the start of the activities; partial close incl. Pipe.Close from the socket's own Attaching/Attached callback; Close racing 2-8 silent raw peers that keep connecting (5-15 sockets per case). Non-trivial: >=1 call verified blocked, or a dial/handshake in flight, at the moment of Close; distinct by (constructor, transport, activities). Round 5: late server: the dialed server completes the handshake after (or around) Socket.Close; the connection must be closed by the library")
	stats.Assume("'promptly' = 3 s; resource quiescence is polled for up to 3 s; leaked timers are visible only through their effects")
	rc := m.Run()
	stats.Flush()
	fixture.Cleanup()
	os.Exit(rc)
}

const prompt = 3 * time.Second

const knownDialerHandshakeLeak = "C10:goroutine-leak:dialer-silent-server"

type callRes struct {
	what string
	err  error
	msg  bool
}

func allowedAfterClose(err error) bool {
	return err == mangos.ErrClosed || err == mangos.ErrProtoOp
}

func idsMinus(a, base []uint32) []uint32 {
	m := map[uint32]bool{}
	for _, x := range base {
		m[x] = true
	}
	var out []uint32
	for _, x := range a {
		if !m[x] {
			out = append(out, x)
		}
	}
	return out
}

func TestC10Close(t *testing.T) {
	rapid.Check(t, func(t *rapid.T) {
		p := fixture.Protos[rapid.IntRange(0, len(fixture.Protos)-1).Draw(t, "ctor")]
		tr := rapid.SampledFrom([]string{"inproc", "inproc", "tcp", "tcp", "ipc", "ws", "tls+tcp", "wss"}).Draw(t, "transport")
		listens := rapid.Bool().Draw(t, "listens")
		nctx := 0
		if p.Contexts {
			nctx = rapid.IntRange(0, 2).Draw(t, "nctx")
		}
		act := map[string]bool{}
		for _, a := range []string{"recv", "send", "redial", "silentPeer", "silentServer", "peerCloses", "device", "peer", "parked"} {
			act[a] = rapid.Bool().Draw(t, a)
		}
		if !act["peer"] {
			act["peerCloses"] = false
		}
		if !(tr == "tcp" || tr == "ipc") {
			act["silentPeer"], act["silentServer"] = false, false
		}
		if !listens {
			act["parked"] = false // dialers can only park on the socket's own listener
		}
		if act["silentServer"] && stats.Known(knownDialerHandshakeLeak) {
			stats.Excluded(knownDialerHandshakeLeak)
			act["silentServer"] = false
		}
		closeCtxFirst := nctx > 0 && rapid.Bool().Draw(t, "closeCtxFirst")
		raceStart := rapid.IntRange(0, 2).Draw(t, "raceStart") == 0
		raceDelayUs := rapid.SampledFrom([]int{0, 50, 500, 3000}).Draw(t, "raceDelayUs")
		var acts []string
		for k, v := range act {
			if v {
				acts = append(acts, k)
			}
		}
		doc := map[string]interface{}{"test": "TestC10Close", "ctor": p.Name, "transport": tr, "listens": listens, "nctx": nctx, "activities": fmt.Sprint(act), "closeCtxFirst": closeCtxFirst, "raceStart": raceStart, "raceDelayUs": raceDelayUs, "rseed": os.Getenv("VERIF_RSEED")}
		var fmu sync.Mutex
		var failures [][2]string
		fail := func(k, f string, a ...interface{}) {
			fmu.Lock()
			failures = append(failures, [2]string{k, fmt.Sprintf(f, a...)})
			fmu.Unlock()
		}
		defer func() {
			fmu.Lock()
			defer fmu.Unlock()
			if len(failures) > 0 {
				stats.Fail(t, "C10:"+failures[0][0], doc, "%s over %s (%v): %s", p.Name, tr, act, failures[0][1])
			}
		}()

		baseIDs := core.VerifPipeIDsInUse()
		// goroutines that an earlier case legitimately could not get rid of (a listed finding, e.g. a
		// dial stuck on a foreign silent server) are not this case's business
		fixture.WaitNoMangosGoroutines(500 * time.Millisecond)
		baseG := fixture.MangosGoroutineSet()
		S := fixture.New(p.Name)
		sClosed := false
		var others []mangos.Socket
		var rawConns []net.Conn
		var rawListeners []net.Listener
		cleanup := func() {
			if !sClosed {
				_ = S.Close()
			}
			for _, o := range others {
				_ = o.Close()
			}
			for _, c := range rawConns {
				_ = c.Close()
			}
			for _, l := range rawListeners {
				_ = l.Close()
			}
		}
		defer cleanup()
		// small write queue so that sends can block
		if act["send"] {
			_ = S.SetOption(mangos.OptionWriteQLen, 1)
		}
		if p.Name == "surveyor" {
			_ = S.SetOption(mangos.OptionSurveyTime, 30*time.Second)
		}
		if p.Name == "req" {
			_ = S.SetOption(mangos.OptionRetryTime, 20*time.Millisecond) // resend timers in flight at Close
		}
		// "parked": while the accept loop is held inside an Attaching callback, further dialers
		// queue up at the transport; closing the socket must release every one of them.
		var holdMu sync.Mutex
		holding := false
		hold := make(chan struct{})
		var holdOnce sync.Once
		releaseHold := func() { holdOnce.Do(func() { close(hold) }) }
		defer releaseHold()
		sev := fixture.HookWith(S, func(ev mangos.PipeEvent, _ mangos.Pipe) {
			if ev != mangos.PipeEventAttaching {
				return
			}
			holdMu.Lock()
			h := holding
			holdMu.Unlock()
			if h {
				<-hold
			}
		})
		var addr string
		if listens {
			a, _, err := fixture.Listen(S, tr)
			if err != nil {
				t.Fatalf("harness: listen: %v", err)
			}
			addr = a
		}
		// natural peer
		var P mangos.Socket
		if act["peer"] {
			P = fixture.New(p.PeerName)
			others = append(others, P)
			pev := fixture.Hook(P)
			if listens {
				if _, err := fixture.Dial(P, addr); err != nil {
					t.Fatalf("harness: dial: %v", err)
				}
			} else {
				a, _, err := fixture.Listen(P, tr)
				if err != nil {
					t.Fatalf("harness: listen: %v", err)
				}
				if _, err := fixture.Dial(S, a); err != nil {
					t.Fatalf("harness: dial: %v", err)
				}
			}
			if !pev.WaitAttached(1, 5*time.Second) || !sev.WaitAttached(1, 5*time.Second) {
				t.Fatalf("harness: attach timeout")
			}
		}
		inflight := 0
		// back-pressuring peer for blocked sends
		if act["send"] && p.CanSend {
			ep := vt.New()
			defer ep.Forget()
			bp := ep.NewPipe()
			bp.SetMode(vt.ModeBlock, nil)
			ep.SetDial(func(n int) (*vt.Pipe, error) {
				if n == 0 {
					return bp, nil
				}
				return nil, mangos.ErrConnRefused
			})
			if !act["peer"] || p.Name == "bus" || p.Name == "xbus" || p.Name == "star" || p.Name == "xstar" || p.Name == "pub" || p.Name == "xpub" || p.Name == "push" || p.Name == "xpush" || p.Name == "surveyor" || p.Name == "xsurveyor" || p.Name == "req" || p.Name == "xreq" {
				n0 := sev.Attached()
				if err := S.DialOptions(ep.Addr, map[string]interface{}{mangos.OptionDialAsynch: true, mangos.OptionReconnectTime: time.Hour}); err == nil {
					sev.WaitAttached(n0+1, 3*time.Second)
				}
			}
		}
		if act["redial"] {
			absent := fixture.Addr(tr)
			opts := fixture.DialOpts(tr)
			if opts == nil {
				opts = map[string]interface{}{}
			}
			opts[mangos.OptionDialAsynch] = true
			opts[mangos.OptionReconnectTime] = 3 * time.Millisecond
			opts[mangos.OptionMaxReconnectTime] = 6 * time.Millisecond
			if err := S.DialOptions(absent, opts); err != nil {
				fail("async-dial-error", "asynchronous Dial to an absent listener returned %v", err)
			}
			inflight++
		}
		netw := "tcp"
		if tr == "ipc" {
			netw = "unix"
		}
		if act["silentPeer"] && listens {
			c, err := net.Dial(netw, strings.TrimPrefix(strings.TrimPrefix(addr, "tcp://"), "ipc://"))
			if err != nil {
				t.Fatalf("harness: raw dial: %v", err)
			}
			rawConns = append(rawConns, c)
			inflight++
			time.Sleep(2 * time.Millisecond)
		} else {
			act["silentPeer"] = false
		}
		if act["silentServer"] {
			var l net.Listener
			var err error
			var a string
			if netw == "tcp" {
				l, err = net.Listen("tcp", "127.0.0.1:0")
				if err == nil {
					a = "tcp://" + l.Addr().String()
				}
			} else {
				path := strings.TrimPrefix(fixture.Addr("ipc"), "ipc://")
				l, err = net.Listen("unix", path)
				a = "ipc://" + path
			}
			if err != nil {
				t.Fatalf("harness: raw listen: %v", err)
			}
			rawListeners = append(rawListeners, l)
			go func() {
				for {
					c, err := l.Accept()
					if err != nil {
						return
					}
					fmu.Lock()
					rawConns = append(rawConns, c) // accepted and kept silent
					fmu.Unlock()
				}
			}()
			if err := S.DialOptions(a, map[string]interface{}{mangos.OptionDialAsynch: true, mangos.OptionReconnectTime: 5 * time.Millisecond}); err != nil {
				fail("async-dial-error", "asynchronous Dial returned %v", err)
			}
			inflight++
			time.Sleep(2 * time.Millisecond)
		}
		if act["device"] && p.Raw {
			D2 := fixture.New(p.PeerName)
			if p.Name == "xbus" || p.Name == "xpair" || p.Name == "xpair1" || p.Name == "xstar" {
				D2 = nil
			}
			if D2 != nil {
				others = append(others, D2)
			}
			if err := mangos.Device(S, D2); err != nil {
				fail("device-error", "Device: %v", err)
			}
			inflight++
		} else {
			act["device"] = false
		}

		parkedRes := make(chan error, 8)
		nparked := 0
		if act["parked"] {
			holdMu.Lock()
			holding = true
			holdMu.Unlock()
			nparked = rapid.IntRange(2, 5).Draw(t, "nparked")
			for i := 0; i < nparked; i++ {
				np := fixture.New(p.PeerName)
				others = append(others, np)
				go func() {
					dd, err := np.NewDialer(addr, fixture.DialOpts(tr))
					if err == nil {
						err = dd.Dial() // synchronous: the first one is held in the hook, the rest wait
					}
					parkedRes <- err
				}()
				time.Sleep(time.Millisecond)
			}
			inflight++
		}
		// handles: socket + contexts
		type handle struct {
			name string
			c    mangos.Context
		}
		handles := []handle{{"socket", S}}
		for i := 0; i < nctx; i++ {
			c, err := S.OpenContext()
			if err != nil {
				fail("opencontext", "OpenContext: %v", err)
				return
			}
			handles = append(handles, handle{fmt.Sprintf("ctx%d", i), c})
		}
		results := make(chan callRes, 64)
		pending := 0
		blockedVerified := 0
		// blocked receives
		if act["recv"] && p.CanRecv && !act["device"] {
			for _, h := range handles {
				h := h
				switch p.Name {
				case "req":
					if !act["peer"] {
						// no peer: Send waits for a connection, and a Recv started on the
						// same context meanwhile waits with it; Close must end both
						pending += 2
						stats.Class("req_recv_behind_blocked_send")
						go func() {
							err := h.c.Send([]byte("request"))
							results <- callRes{"Send on " + h.name, err, false}
						}()
						time.Sleep(20 * time.Millisecond)
						go func() {
							b, err := h.c.Recv()
							if err == mangos.ErrProtoState {
								err = mangos.ErrClosed // the Send had not started yet (scheduling): not under test
							}
							results <- callRes{"LateRecv on " + h.name, err, b != nil && err == nil}
						}()
						continue
					}
					_ = h.c.SetOption(mangos.OptionSendDeadline, time.Second)
					if err := h.c.Send([]byte("request")); err != nil {
						continue
					}
				case "surveyor":
					_ = h.c.SetOption(mangos.OptionSurveyTime, 30*time.Second)
					if err := h.c.Send([]byte("survey")); err != nil {
						continue
					}
				}
				pending++
				go func() {
					b, err := h.c.Recv()
					results <- callRes{"Recv on " + h.name, err, b != nil && err == nil}
				}()
			}
		}
		// blocked sends
		recvStarted := pending > 0
		if (p.Name == "req" || p.Name == "surveyor") && recvStarted {
			act["send"] = false // a new Send on the same context legitimately cancels its pending Recv
		}
		if act["send"] && p.CanSend && !act["device"] && p.Name != "rep" && p.Name != "respondent" && p.Name != "xrep" && p.Name != "xrespondent" {
			for i := 0; i < 6; i++ {
				h := handles[i%len(handles)]
				pending++
				i := i
				go func() {
					m := mangos.NewMessage(8)
					m.Body = append(m.Body, byte(i))
					switch p.Name {
					case "xreq", "xsurveyor":
						m.Header = append(m.Header, 0x80, 0, 0, byte(i))
					case "xpair1", "xstar":
						m.Header = append(m.Header, 0, 0, 0, 0)
					}
					err := h.c.SendMsg(m)
					if err != nil {
						m.Free()
					}
					results <- callRes{"Send on " + h.name, err, false}
				}()
			}
		}
		// Either let the calls block first (the ones that returned already are collected, the rest
		// is verified blocked), or race Close with the start of the activities.
		early := 0
		if raceStart {
			time.Sleep(time.Duration(raceDelayUs) * time.Microsecond)
			closeCtxFirst = false
		} else {
			time.Sleep(40 * time.Millisecond)
		drain:
			for {
				select {
				case r := <-results:
					early++
					if r.err != nil && strings.HasPrefix(r.what, "Recv") {
						fail("recv-early-error", "%s returned %v before Close although nothing was closed", r.what, r.err)
					}
				default:
					break drain
				}
			}
			blockedVerified = pending - early
		}
		pending -= early

		// close a context first: only that context's calls end
		if closeCtxFirst && len(handles) > 1 {
			h := handles[1]
			if !fixture.Within(prompt, func() { _ = h.c.Close() }) {
				fail("context-close-hangs", "Close of a context did not return within %v", prompt)
			}
			time.Sleep(20 * time.Millisecond)
			n := 0
		drain2:
			for {
				select {
				case r := <-results:
					n++
					pending--
					if !strings.HasSuffix(r.what, h.name) {
						fail("context-close-affects-sibling", "closing %s made %q return (%v)", h.name, r.what, r.err)
					} else if r.err != mangos.ErrClosed && !r.msg {
						fail("blocked-call-wrong-error", "%s returned %v after its context was closed, want ErrClosed", r.what, r.err)
					}
				default:
					break drain2
				}
			}
			_ = n
		}
		if act["peerCloses"] && P != nil {
			go func() { _ = P.Close() }()
		}
		// silent peers that connect at the very moment of Close: each is either refused or, if the
		// listener still accepted it, disconnected by Close like the earlier one
		var lateConns []net.Conn
		var lateMu sync.Mutex
		lateDone := make(chan struct{})
		nlate := 0
		if act["silentPeer"] && raceStart {
			nlate = rapid.IntRange(0, 6).Draw(t, "silentPeersDuringClose")
		}
		go func() {
			defer close(lateDone)
			for i := 0; i < nlate; i++ {
				c, err := net.DialTimeout(netw, strings.TrimPrefix(strings.TrimPrefix(addr, "tcp://"), "ipc://"), time.Second)
				if err == nil {
					lateMu.Lock()
					lateConns = append(lateConns, c)
					lateMu.Unlock()
				}
				for t0 := time.Now(); time.Since(t0) < 30*time.Microsecond; {
				}
			}
		}()
		defer func() {
			<-lateDone
			for _, c := range lateConns {
				_ = c.Close()
			}
		}()
		// Close
		closeErr := make(chan error, 1)
		t0 := time.Now()
		go func() { closeErr <- S.Close() }()
		select {
		case err := <-closeErr:
			sClosed = true
			if err != nil {
				fail("close-error", "Close returned %v", err)
			}
		case <-time.After(prompt):
			sClosed = true
			fail("close-hangs", "Socket.Close did not return within %v", prompt)
			return
		}
		releaseHold()
		for i := 0; i < nparked; i++ {
			select {
			case <-parkedRes: // any result: refused, closed, or even connected-then-dropped
			case <-time.After(time.Until(t0.Add(prompt + time.Second))):
				fail("parked-dial-not-released", "%d of %d synchronous Dial calls that were waiting on the socket's %s listener are still blocked %v after the socket was closed", nparked-i, nparked, tr, time.Since(t0).Round(time.Millisecond))
				i = nparked
			}
		}
		for i := 0; i < pending; i++ {
			select {
			case r := <-results:
				if r.err == nil && (r.msg || strings.HasPrefix(r.what, "Send")) {
					continue // a queued message, or a send that got through/was accepted
				}
				if r.err != mangos.ErrClosed {
					// with the peer closing concurrently some calls may legitimately end otherwise
					if act["peerCloses"] && (r.err == mangos.ErrCanceled || r.err == mangos.ErrProtoState) {
						continue
					}
					fail("blocked-call-wrong-error", "%s, blocked when the socket was closed, returned %v, want ErrClosed", r.what, r.err)
				}
			case <-time.After(time.Until(t0.Add(prompt + time.Second))):
				fail("blocked-call-not-released", "%d call(s) still blocked %v after Socket.Close", pending-i, time.Since(t0).Round(time.Millisecond))
				i = pending
			}
		}
		// later calls
		later := []struct {
			name string
			f    func() error
			any  bool
		}{
			{"Send", func() error {
				// raw sockets require a well-formed header from the application
				m := mangos.NewMessage(8)
				m.Body = append(m.Body, 'x')
				switch p.Name {
				case "xreq", "xsurveyor":
					m.Header = append(m.Header, 0x80, 0, 0, 1)
				case "xpair1", "xstar":
					m.Header = append(m.Header, 0, 0, 0, 0)
				case "xrep", "xrespondent":
					m.Header = append(m.Header, 0, 0, 0, 1, 0x80, 0, 0, 1)
				}
				err := S.SendMsg(m)
				if err != nil {
					m.Free()
				}
				return err
			}, false},
			{"Recv", func() error { _, err := S.Recv(); return err }, false},
			{"Dial", func() error { return S.Dial(fixture.Addr("inproc")) }, false},
			{"Listen", func() error { return S.Listen(fixture.Addr("inproc")) }, false},
			{"OpenContext", func() error { _, err := S.OpenContext(); return err }, false},
			{"Close", func() error { return S.Close() }, false},
			{"GetOption", func() error { _, err := S.GetOption(mangos.OptionRecvDeadline); return err }, true},
			{"SetOption", func() error { return S.SetOption(mangos.OptionRecvDeadline, time.Second) }, true},
		}
		for _, h := range handles[1:] {
			h := h
			later = append(later,
				struct {
					name string
					f    func() error
					any  bool
				}{"ctx.Send", func() error { return h.c.Send([]byte("x")) }, false},
				struct {
					name string
					f    func() error
					any  bool
				}{"ctx.Recv", func() error { _, err := h.c.Recv(); return err }, false},
				struct {
					name string
					f    func() error
					any  bool
				}{"ctx.Close", func() error { return h.c.Close() }, false})
		}
		for _, lc := range later {
			var err error
			gotMsg := false
			if !fixture.Within(prompt, func() { err = lc.f(); gotMsg = err == nil }) {
				fail("later-call-blocks:"+lc.name, "%s after Close did not return within %v", lc.name, prompt)
				return
			}
			if lc.any {
				continue
			}
			if strings.HasSuffix(lc.name, "Recv") && gotMsg {
				continue // an already-queued message
			}
			if !allowedAfterClose(err) {
				// a context's protocol-state answer is also a refusal; only nil or foreign errors are wrong
				if err == mangos.ErrProtoState && strings.HasPrefix(lc.name, "ctx.") {
					continue
				}
				fail("later-call-result:"+lc.name, "%s after Close returned %v, want a closed (or unsupported-operation) error", lc.name, err)
			}
		}
		// the silent raw peer must have been disconnected by Close
		if act["silentPeer"] {
			c := rawConns[0]
			_ = c.SetReadDeadline(time.Now().Add(prompt))
			buf := make([]byte, 64)
			for {
				_, err := c.Read(buf) // our header first, then EOF/reset
				if err != nil {
					if ne, ok := err.(net.Error); ok && ne.Timeout() {
						fail("connection-leak:silent-peer", "a connection whose peer never completed the handshake is still open %v after Socket.Close", prompt)
					}
					break
				}
			}
		}
		<-lateDone
		lateMu.Lock()
		late := append([]net.Conn(nil), lateConns...)
		lateMu.Unlock()
		for i, c := range late {
			_ = c.SetReadDeadline(time.Now().Add(prompt))
			buf := make([]byte, 64)
			for {
				_, err := c.Read(buf)
				if err != nil {
					if ne, ok := err.(net.Error); ok && ne.Timeout() {
						ours := true
						if netw == "tcp" {
							hp := strings.TrimPrefix(addr, "tcp://")
							var pn int
							if k := strings.LastIndex(hp, ":"); k >= 0 {
								_, _ = fmt.Sscanf(hp[k+1:], "%d", &pn)
							}
							ours = fixture.OwnsServerSideConnection(pn) // else: an unrelated process took the freed port
						}
						if ours {
							fail("connection-leak:silent-peer", "silent connection %d of %d made while Socket.Close was running was accepted and is still open %v after Close returned", i, len(late), prompt)
						}
					}
					break
				}
			}
		}
		if len(late) > 0 {
			stats.Class("silent_peers_connecting_during_close")
		}
		// close everything else that is a mangos socket
		for _, o := range others {
			_ = o.Close()
		}
		// resources
		if g := fixture.WaitNoNewMangosGoroutines(baseG, prompt); len(g) > 0 {
			top := fixture.TopFrame(g[0])
			key := "goroutine-leak:" + top
			dialerSide := act["silentServer"]
			for _, gs := range g {
				// a dialer stuck in its transport's Dial (handshake with a server that accepted the
				// connection but stays silent — possibly an unrelated process that happens to own
				// the "absent" port): the listed dialer-side finding, whatever the scenario was
				if strings.Contains(gs, "(*dialer).Dial") {
					dialerSide = true
				}
			}
			if dialerSide {
				key = "goroutine-leak:dialer-silent-server"
			}
			fail(key, "%d library goroutine(s) still running %v after all sockets were closed, e.g. in %s:\n%s", len(g), prompt, top, g[0])
			// unblock them so that later cases start clean
			cleanup()
			fixture.WaitNoMangosGoroutines(prompt)
			return
		}
		deadline := time.Now().Add(prompt)
		for {
			leaked := idsMinus(core.VerifPipeIDsInUse(), baseIDs)
			listed := core.VerifSocketPipes(S)
			if len(leaked) == 0 && len(listed) == 0 {
				break
			}
			if time.Now().After(deadline) {
				if len(leaked) > 0 {
					fail("pipe-id-leak", "%d pipe id(s) still allocated after all sockets were closed", len(leaked))
				} else {
					fail("pipe-list-leak", "the closed socket still lists %d pipe(s)", len(listed))
				}
				break
			}
			time.Sleep(2 * time.Millisecond)
		}
		if listens {
			n := fixture.New("pair")
			var err error
			dl := time.Now().Add(prompt)
			for {
				err = n.ListenOptions(addr, fixture.ListenOpts(tr))
				if err == nil || time.Now().After(dl) {
					break
				}
				time.Sleep(5 * time.Millisecond)
			}
			_ = n.Close()
			foreign := false
			if err != nil && tr != "ipc" && tr != "inproc" {
				// the port may have been taken by an unrelated process once it was free
				hp := addr[strings.Index(addr, "://")+3:]
				if i := strings.Index(hp, "/"); i >= 0 {
					hp = hp[:i]
				}
				if _, ps, e := net.SplitHostPort(hp); e == nil {
					if pn, e := strconv.Atoi(ps); e == nil && !fixture.OwnsListeningPort(pn) {
						foreign = true
						stats.Class("address_taken_by_another_process")
					}
				}
			}
			if err != nil && !foreign {
				fail("address-leak", "the address %s cannot be listened on again %v after its socket was closed: %v", addr, prompt, err)
			}
			fixture.WaitNoMangosGoroutines(prompt)
		}
		stats.Eval()
		stats.Class("ctor:" + p.Name)
		stats.Class("tr:" + tr)
		for _, a := range acts {
			if act[a] {
				stats.Class("act:" + a)
			}
		}
		if blockedVerified > 0 {
			stats.Class("verified_blocked_calls")
		}
		if raceStart {
			stats.Class("close_races_with_start")
		}
		if blockedVerified > 0 || inflight > 0 || raceStart && pending > 0 {
			stats.NonTrivial(fmt.Sprintf("%s|%s|%v|%d|%v|%v|%v|%d", p.Name, tr, listens, nctx, act, closeCtxFirst, raceStart, raceDelayUs))
		}
		stats.Sample(doc)
	})
}

// TestC10Partial: closing a context, dialer, listener or pipe affects only that object.
func TestC10Partial(t *testing.T) {
	stats.ScaledChecks(4, 5, func() {
		rapid.Check(t, func(t *rapid.T) {
			target := rapid.SampledFrom([]string{"listener", "dialer", "pipeA", "pipeB", "context", "pipeFromAttachingHook", "pipeFromAttachedHook", "loserOfAddressConflict"}).Draw(t, "target")
			tr := rapid.SampledFrom([]string{"inproc", "tcp", "ipc", "ws"}).Draw(t, "transport")
			doc := map[string]interface{}{"test": "TestC10Partial", "target": target, "transport": tr, "rseed": os.Getenv("VERIF_RSEED")}
			fail := func(k, f string, a ...interface{}) {
				stats.Fail(t, "C10:partial-"+k, doc, "close %s over %s: %s", target, tr, fmt.Sprintf(f, a...))
			}
			if target == "context" {
				rq, rp := fixture.New("req"), fixture.New("rep")
				defer rq.Close()
				defer rp.Close()
				if _, err := fixture.Connect(rp, rq, tr); err != nil {
					t.Fatalf("harness: %v", err)
				}
				c1, _ := rq.OpenContext()
				c2, _ := rq.OpenContext()
				// a Recv blocked on c1
				_ = c1.Send([]byte("q1"))
				done := make(chan error, 1)
				go func() { _, err := c1.Recv(); done <- err }()
				time.Sleep(5 * time.Millisecond)
				if !fixture.Within(prompt, func() { _ = c1.Close() }) {
					fail("close-hangs", "Context.Close did not return")
					return
				}
				select {
				case err := <-done:
					if err != mangos.ErrClosed {
						fail("blocked-call", "Recv blocked on the closed context returned %v, want ErrClosed", err)
					}
				case <-time.After(prompt):
					fail("blocked-call", "Recv blocked on the closed context was not released")
				}
				// the sibling context and the socket still work
				_ = rp.SetOption(mangos.OptionRecvDeadline, prompt)
				_ = c2.SetOption(mangos.OptionRecvDeadline, prompt)
				if err := c2.Send([]byte("q2")); err != nil {
					fail("sibling", "sibling context Send: %v", err)
					return
				}
				for {
					b, err := rp.Recv()
					if err != nil {
						fail("sibling", "request of the sibling context did not arrive: %v", err)
						return
					}
					if string(b) == "q2" {
						break
					}
				}
				_ = rp.Send([]byte("a2"))
				if b, err := c2.Recv(); err != nil || string(b) != "a2" {
					fail("sibling", "sibling context Recv = (%q,%v)", b, err)
				}
				stats.Eval()
				stats.NonTrivial("P|context|" + tr)
				return
			}
			S, A, B := fixture.New("bus"), fixture.New("bus"), fixture.New("bus")
			// a wedged socket must not wedge the report
			defer fixture.Within(prompt, func() { _ = S.Close(); _ = A.Close(); _ = B.Close() })
			// for the two hook targets: the callback itself closes the next pipe, under a watchdog
			var hookArmed int32
			hookClosed := make(chan bool, 4)
			sev := fixture.HookWith(S, func(ev mangos.PipeEvent, p mangos.Pipe) {
				var want mangos.PipeEvent = mangos.PipeEventAttaching
				if target == "pipeFromAttachedHook" {
					want = mangos.PipeEventAttached
				}
				if ev == want && atomic.CompareAndSwapInt32(&hookArmed, 1, 0) {
					done := make(chan struct{})
					func() {
						// Close is called on the callback's own goroutine, as an application would
						tm := time.AfterFunc(prompt, func() { hookClosed <- false })
						_ = p.Close()
						if tm.Stop() {
							hookClosed <- true
						}
						close(done)
					}()
					<-done
				}
			})
			aev, bev := fixture.Hook(A), fixture.Hook(B)
			addrS, L, err := fixture.Listen(S, tr)
			if err != nil {
				t.Fatalf("harness: %v", err)
			}
			if _, err := fixture.Dial(A, addrS); err != nil {
				t.Fatalf("harness: %v", err)
			}
			addrB, _, err := fixture.Listen(B, tr)
			if err != nil {
				t.Fatalf("harness: %v", err)
			}
			D, err := fixture.Dial(S, addrB)
			if err != nil {
				t.Fatalf("harness: %v", err)
			}
			if !sev.WaitAttached(2, prompt) || !aev.WaitAttached(1, prompt) || !bev.WaitAttached(1, prompt) {
				t.Fatalf("harness: attach timeout")
			}
			var pipeA, pipeB mangos.Pipe
			for _, p := range sev.PipeList() {
				if p.Listener() != nil {
					pipeA = p
				} else {
					pipeB = p
				}
			}
			if strings.HasPrefix(target, "pipeFrom") {
				// a third peer connects; the socket's callback closes that pipe right away
				C := fixture.New("bus")
				defer C.Close()
				atomic.StoreInt32(&hookArmed, 1)
				go func() { _, _ = fixture.Dial(C, addrS) }()
				select {
				case ok := <-hookClosed:
					if !ok {
						fail("close-hangs", "Pipe.Close called from the socket's own pipe-event callback did not return within %v", prompt)
						return
					}
				case <-time.After(2 * prompt):
					t.Fatalf("harness: the third peer's connection never reached the callback")
				}
			}
			if target == "loserOfAddressConflict" {
				// another socket tries to listen on S's address, is refused, and is closed again
				// (its listener, or the whole socket): S's own listener is a different object
				X := fixture.New("bus")
				xl, err := X.NewListener(addrS, fixture.ListenOpts(tr))
				if err != nil {
					t.Fatalf("harness: %v", err)
				}
				if err := xl.Listen(); err == nil {
					fail("address-shared", "a second socket could listen on %s while the first still does", addrS)
					_ = X.Close()
					return
				}
				if rapid.Bool().Draw(t, "closeWholeSocket") {
					_ = X.Close()
				} else {
					_ = xl.Close()
					defer X.Close()
				}
				C := fixture.New("bus")
				defer C.Close()
				cev := fixture.Hook(C)
				if _, err := fixture.Dial(C, addrS); err != nil || !cev.WaitAttached(1, prompt) {
					fail("sibling-broken", "after a socket that had failed to listen on the same address was closed, a new peer cannot connect to the listener that owns it: %v", err)
					return
				}
			}
			var cerr error
			ok := fixture.Within(prompt, func() {
				switch target {
				case "listener":
					cerr = L.Close()
				case "dialer":
					cerr = D.Close()
				case "pipeA":
					cerr = pipeA.Close()
				case "pipeB":
					cerr = pipeB.Close()
				}
			})
			if !ok {
				fail("close-hangs", "Close did not return within %v", prompt)
				return
			}
			if cerr != nil {
				fail("close-error", "Close returned %v", cerr)
			}
			time.Sleep(10 * time.Millisecond)
			// which peers must still hear S?
			expect := map[string]mangos.Socket{"A": A, "B": B}
			switch target {
			case "pipeA":
				delete(expect, "A")
			case "pipeB":
				delete(expect, "B")
			}
			for name, peer := range expect {
				_ = peer.SetOption(mangos.OptionRecvDeadline, 200*time.Millisecond)
				got := false
				deadline := time.Now().Add(prompt)
				for !got && time.Now().Before(deadline) {
					_ = S.Send([]byte("still-there"))
					if b, err := peer.Recv(); err == nil && string(b) == "still-there" {
						got = true
					}
				}
				if !got {
					fail("sibling-broken", "after closing the %s, peer %s (on the other connection) no longer receives the socket's messages", target, name)
				}
			}
			// second Close of the same object fails with ErrClosed (listener/dialer)
			switch target {
			case "listener":
				if err := L.Close(); err != mangos.ErrClosed {
					fail("second-close", "second Listener.Close = %v, want ErrClosed", err)
				}
				if err := L.Listen(); err != mangos.ErrClosed {
					fail("listen-after-close", "Listen on a closed listener = %v, want ErrClosed", err)
				}
			case "dialer":
				if err := D.Close(); err != mangos.ErrClosed {
					fail("second-close", "second Dialer.Close = %v, want ErrClosed", err)
				}
				if err := D.Dial(); err != mangos.ErrClosed && err != mangos.ErrAddrInUse {
					fail("dial-after-close", "Dial on a closed dialer = %v, want an error", err)
				}
			}
			stats.Eval()
			stats.Class("partial:" + target)
			stats.NonTrivial("P|" + target + "|" + tr)
			stats.Sample(doc)
		})
	})
}
