package c10

import (
	"fmt"
	"io"
	"net"
	"os"
	"path/filepath"
	"testing"
	"time"

	"go.nanomsg.org/mangos/v3"
	"go.nanomsg.org/mangos/v3/verifharness/fixture"
	"go.nanomsg.org/mangos/v3/verifharness/stats"
	"go.nanomsg.org/mangos/v3/verifharness/wire"
	"pgregory.net/rapid"
)

// TestC10LateServer: the socket dials a server that accepts, reads the socket's header and holds its
// own header back.  The socket is closed while that handshake is pending; then (or at that very
// moment) the server completes the handshake with a well-formed header.  The connection belongs to
// a closed socket: the library must close it — it must not be adopted as a pipe, its goroutines must
// go, and Close must have returned.  (A server that stays silent for ever is the listed finding
// C10:goroutine-leak:dialer-silent-server; here the server does speak, so nothing is left pending.)
func TestC10LateServer(t *testing.T) {
	stats.ScaledChecks(8, 5, func() {
		rapid.Check(t, func(t *rapid.T) {
			p := fixture.Protos[rapid.IntRange(0, len(fixture.Protos)-1).Draw(t, "ctor")]
			tr := rapid.SampledFrom([]string{"tcp", "tcp", "ipc"}).Draw(t, "transport")
			when := rapid.SampledFrom([]string{"after", "after", "racing"}).Draw(t, "headerSent")
			delayUs := rapid.IntRange(0, 300).Draw(t, "delayUs")
			asynch := rapid.Bool().Draw(t, "asynch")
			doc := map[string]interface{}{"test": "TestC10LateServer", "ctor": p.Name, "transport": tr, "header_sent": when, "delay_us": delayUs, "asynch": asynch, "rseed": os.Getenv("VERIF_RSEED")}
			fail := func(k, f string, a ...interface{}) {
				stats.Fail(t, "C10:late-server-"+k, doc, "%s dialing over %s (asynch %v), server header %s Close (%dus): %s", p.Name, tr, asynch, when, delayUs, fmt.Sprintf(f, a...))
			}
			base := fixture.MangosGoroutineSet()
			var ln net.Listener
			var addr string
			var err error
			if tr == "tcp" {
				ln, err = net.Listen("tcp", "127.0.0.1:0")
				if err == nil {
					addr = "tcp://" + ln.Addr().String()
				}
			} else {
				path := filepath.Join(fixture.ScratchDir(), fmt.Sprintf("late%d", time.Now().UnixNano()))
				ln, err = net.Listen("unix", path)
				addr = "ipc://" + path
			}
			if err != nil {
				t.Fatalf("harness: %v", err)
			}
			defer ln.Close()
			S := fixture.New(p.Name)
			closed := false
			defer func() {
				if !closed {
					_ = S.Close()
				}
			}()
			opts := map[string]interface{}{mangos.OptionDialAsynch: asynch, mangos.OptionReconnectTime: 20 * time.Millisecond, mangos.OptionMaxReconnectTime: 20 * time.Millisecond}
			dialed := make(chan error, 1)
			go func() { dialed <- S.DialOptions(addr, opts) }()
			_ = ln.(interface{ SetDeadline(time.Time) error }).SetDeadline(time.Now().Add(3 * time.Second))
			c, err := ln.Accept()
			if err != nil {
				t.Fatalf("harness: the socket did not connect: %v", err)
			}
			defer c.Close()
			_ = ln.Close() // no second attempt gets through
			_ = c.SetDeadline(time.Now().Add(3 * time.Second))
			var theirs [8]byte
			if _, err := io.ReadFull(c, theirs[:]); err != nil {
				t.Fatalf("harness: the socket's header did not arrive: %v", err)
			}
			hdr := wire.Header(p.Peer)
			sent := make(chan struct{})
			if when == "racing" {
				go func() {
					for t0 := time.Now(); time.Since(t0) < time.Duration(delayUs)*time.Microsecond; {
					}
					_, _ = c.Write(hdr[:])
					close(sent)
				}()
				for t0 := time.Now(); time.Since(t0) < time.Duration(300-delayUs)*time.Microsecond/2; {
				}
			}
			if !fixture.Within(3*time.Second, func() { _ = S.Close() }) {
				fail("close-hangs", "Socket.Close did not return within 3s while the handshake with the server was pending")
				return
			}
			closed = true
			if when == "after" {
				time.Sleep(time.Duration(delayUs) * time.Microsecond)
				_, _ = c.Write(hdr[:])
				close(sent)
			}
			<-sent
			// the connection must be closed by the library now
			_ = c.SetReadDeadline(time.Now().Add(2 * time.Second))
			buf := make([]byte, 64)
			for {
				if _, err := c.Read(buf); err != nil {
					if ne, ok := err.(net.Error); ok && ne.Timeout() {
						fail("connection-kept", "the server completed the handshake once the socket was closed; 2s later the connection is still open (adopted by a closed socket)")
						return
					}
					break
				}
			}
			if !asynch {
				select {
				case <-dialed:
				case <-time.After(3 * time.Second):
					fail("dial-hangs", "the synchronous Dial has not returned 3s after its socket was closed and the server had answered")
					return
				}
			}
			if left := fixture.WaitNoNewMangosGoroutines(base, 3*time.Second); len(left) > 0 {
				fail("goroutine-leak:"+fixture.TopFrame(left[0]), "%d library goroutine(s) remain 3s after Close although the pending handshake was completed by the server; first:\n%s", len(left), left[0])
				return
			}
			stats.Eval()
			stats.Class("late_server:" + when)
			stats.NonTrivial(fmt.Sprintf("LS|%s|%s|%s|%v", p.Name, tr, when, asynch))
			stats.Sample(doc)
		})
	})
}
