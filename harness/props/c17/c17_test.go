// C17 — a message belongs to exactly one owner at a time.
//
// Uses the verif-tag ledger in message.go (double release, use/write after release,
// poison on release, NewMessage postcondition) as a background oracle, plus
// application-side snapshots:
//  (A) fan-out hold-and-mutate workloads (PUB->SUB sockets/contexts, BUS, STAR,
//      SURVEYOR->RESPONDENTs, PAIR, REQ with retries, a Device in the path): the
//      application keeps received messages, lets further traffic recycle buffers,
//      mutates some of its own, and re-checks every held message against its snapshot;
//  (B) failed Sends (timeout, closed, no peers) leave the message live and intact
//      with the caller, who can re-send it; successful/best-effort Sends consume it;
//  (C) NewMessage of any size starts empty with enough capacity, whatever was
//      released into the pools before.
package c17

import (
	"bytes"
	"fmt"
	"os"
	"strings"
	"sync"
	"testing"
	"time"

	"go.nanomsg.org/mangos/v3"
	"go.nanomsg.org/mangos/v3/verifharness/fixture"
	"go.nanomsg.org/mangos/v3/verifharness/stats"
	"pgregory.net/rapid"
)

func TestMain(m *testing.M) {
	stats.Init("C17")
	stats.Rule("(A) pattern in {pubsub with 1-3 SUB sockets x 1-2 contexts, xpub, bus mesh, star chain, survey fan-out, pair, req/rep with 5 ms retries, pair1 through a Device} x transport {inproc,tcp,ipc,ws} x 5-40 messages with pool-class boundary sizes, holders keep 1-all received messages across 0-60 further recycled messages and mutate some; (B) send outcome in {timeout, closed, no-peers, best-effort, success} x 12 sending constructors; (C) NewMessage sizes 0..70000 after dirty releases. Also: (E) READQ-LEN changed 1-3 times with a full receive queue on 9 patterns. Non-trivial: >=2 holders of one publication, or a failed Send, or >=1 pool class reused while held; distinct by full configuration. Round 5: distinct bodies in the failed-send retry (the retried message itself must arrive; everything received equals a message sent)")
	stats.Assume("the ledger observes Free/Clone/MakeUnique/Dup/NewMessage only; reads of a released buffer show up as poison (0xDB) in data that reaches an application")
	rc := m.Run()
	stats.Flush()
	fixture.Cleanup()
	os.Exit(rc)
}

var classes = []int{64, 128, 256, 512, 1024, 4096, 8192, 65536}

func genSize(t *rapid.T, label string) int {
	switch rapid.IntRange(0, 5).Draw(t, label+"k") {
	case 0, 1, 2:
		c := rapid.SampledFrom(classes).Draw(t, label+"c")
		n := c - rapid.SampledFrom([]int{0, 4, 8}).Draw(t, label+"h") + rapid.IntRange(-1, 1).Draw(t, label+"d")
		if n < 8 {
			n = 8
		}
		return n
	case 3:
		return rapid.IntRange(8, 300).Draw(t, label+"s")
	case 4:
		return rapid.IntRange(8, 9000).Draw(t, label+"m")
	}
	return rapid.IntRange(8, 70000).Draw(t, label+"u")
}

func ledgerKey(rep string) string {
	first := rep
	if i := strings.IndexByte(rep, '\n'); i > 0 {
		first = rep[:i]
	}
	kind := first
	if i := strings.IndexByte(first, ':'); i > 0 {
		kind = first[:i]
	}
	// innermost library frame that is not message.go
	site := "?"
	for _, line := range strings.Split(rep, "\n") {
		line = strings.TrimSpace(line)
		if strings.HasPrefix(line, "go.nanomsg.org/mangos/v3") && !strings.Contains(line, "/message") && !strings.Contains(line, "verifharness") && !strings.Contains(line, "mangos/v3.(*Message)") && !strings.Contains(line, "mangos/v3.verif") && !strings.Contains(line, "mangos/v3.NewMessage") {
			site = strings.TrimPrefix(strings.SplitN(line, " ", 2)[0], "go.nanomsg.org/mangos/v3/")
			break
		}
	}
	return "ledger:" + kind + ":" + site
}

// checkLedger reports anything the ledger recorded since the last call.
func checkLedger(t stats.TB, doc interface{}, ctx string) bool {
	reps := mangos.VerifLedgerReport()
	if len(reps) == 0 {
		return true
	}
	stats.Fail(t, "C17:"+ledgerKey(reps[0]), doc, "%s: message ledger recorded %d ownership violation(s); first:\n%s", ctx, len(reps), reps[0])
	return false
}

func poisoned(b []byte) bool {
	// a released buffer is filled with 0xDB; payloads are pseudo-random, so a run of 8 is decisive
	return len(b) >= 8 && bytes.Contains(b, bytes.Repeat([]byte{0xDB}, 8))
}

type held struct {
	m     *mangos.Message
	body  []byte
	hdr   []byte
	owner string
	idx   int
}

type fan struct {
	name      string
	send      func(i int, body []byte) error
	receivers []recvH
	close     func()
	// exchange, when set, performs send + receive at the peer + reply in one step (REQ/REP with
	// retries: the REP side must keep reading while re-transmissions arrive).
	exchange func(i int, body []byte, keep bool) error
	taken    func() []*held
}

type recvH struct {
	name string
	c    mangos.Context
}

func buildFan(t *rapid.T, pattern, tr string) *fan {
	var socks []mangos.Socket
	mk := func(n string) mangos.Socket {
		s := fixture.New(n)
		_ = s.SetOption(mangos.OptionSendDeadline, 5*time.Second)
		socks = append(socks, s)
		return s
	}
	closeAll := func() {
		for _, s := range socks {
			_ = s.Close()
		}
	}
	f := &fan{name: pattern, close: closeAll}
	link := func(l, d mangos.Socket) {
		if _, err := fixture.Connect(l, d, tr); err != nil {
			closeAll()
			t.Fatalf("harness: %v", err)
		}
	}
	linkMore := func(l, d mangos.Socket, le, de *fixture.Events, nl, nd int) {
		a, _, err := fixture.Listen(l, tr)
		if err != nil {
			closeAll()
			t.Fatalf("harness: %v", err)
		}
		if _, err := fixture.Dial(d, a); err != nil {
			closeAll()
			t.Fatalf("harness: %v", err)
		}
		if !le.WaitAttached(nl, 5*time.Second) || !de.WaitAttached(nd, 5*time.Second) {
			closeAll()
			t.Fatalf("harness: attach timeout")
		}
	}
	switch pattern {
	case "pubsub", "xpubsub":
		pn := "pub"
		if pattern == "xpubsub" {
			pn = "xpub"
		}
		p := mk(pn)
		pe := fixture.Hook(p)
		nsub := rapid.IntRange(1, 3).Draw(t, "nsub")
		for i := 0; i < nsub; i++ {
			s := mk("sub")
			se := fixture.Hook(s)
			nctx := rapid.IntRange(1, 2).Draw(t, "nctx")
			for j := 0; j < nctx; j++ {
				var c mangos.Context = s
				if j > 0 {
					c, _ = s.OpenContext()
				}
				_ = c.SetOption(mangos.OptionSubscribe, "")
				f.receivers = append(f.receivers, recvH{fmt.Sprintf("sub%d/ctx%d", i, j), c})
			}
			linkMore(p, s, pe, se, i+1, 1)
		}
		f.send = func(i int, b []byte) error { return p.Send(b) }
	case "bus":
		a, b, c := mk("bus"), mk("bus"), mk("bus")
		ae, be, ce := fixture.Hook(a), fixture.Hook(b), fixture.Hook(c)
		linkMore(a, b, ae, be, 1, 1)
		linkMore(a, c, ae, ce, 2, 1)
		linkMore(b, c, be, ce, 2, 2)
		f.receivers = []recvH{{"bus-b", b}, {"bus-c", c}}
		f.send = func(i int, x []byte) error { return a.Send(x) }
	case "star":
		a, b, c := mk("star"), mk("star"), mk("star")
		ae, be, ce := fixture.Hook(a), fixture.Hook(b), fixture.Hook(c)
		linkMore(a, b, ae, be, 1, 1)
		linkMore(b, c, be, ce, 2, 1)
		f.receivers = []recvH{{"star-b", b}, {"star-c", c}}
		f.send = func(i int, x []byte) error { return a.Send(x) }
	case "survey":
		sv := mk("surveyor")
		_ = sv.SetOption(mangos.OptionSurveyTime, 10*time.Second)
		se := fixture.Hook(sv)
		n := rapid.IntRange(1, 3).Draw(t, "nresp")
		for i := 0; i < n; i++ {
			r := mk("respondent")
			re := fixture.Hook(r)
			linkMore(sv, r, se, re, i+1, 1)
			f.receivers = append(f.receivers, recvH{fmt.Sprintf("resp%d", i), r})
		}
		f.send = func(i int, x []byte) error { return sv.Send(x) }
	case "pair":
		a, b := mk("pair"), mk("pair")
		link(a, b)
		f.receivers = []recvH{{"pair-b", b}}
		f.send = func(i int, x []byte) error { return a.Send(x) }
	case "reqrep-retry":
		rq, rp := mk("req"), mk("rep")
		_ = rq.SetOption(mangos.OptionRetryTime, 5*time.Millisecond)
		_ = rq.SetOption(mangos.OptionRecvDeadline, 5*time.Second)
		link(rp, rq)
		f.receivers = []recvH{{"rep", rp}}
		var mu sync.Mutex
		var sent [][]byte
		keepIdx := map[string]int{}
		seen := map[string]bool{}
		var hs []*held
		var srvErr error
		delay := time.Duration(rapid.IntRange(0, 2).Draw(t, "replyDelay")) * 6 * time.Millisecond
		_ = rp.SetOption(mangos.OptionRecvDeadline, 20*time.Millisecond)
		stop := make(chan struct{})
		var wg sync.WaitGroup
		wg.Add(1)
		go func() {
			defer wg.Done()
			for {
				select {
				case <-stop:
					return
				default:
				}
				m, err := rp.RecvMsg()
				if err != nil {
					continue
				}
				m0 := append([]byte(nil), m.Body...)
				mu.Lock()
				known := false
				for _, b := range sent {
					if bytes.Equal(b, m.Body) {
						known = true
					}
				}
				if !known && srvErr == nil {
					if poisoned(m.Body) {
						srvErr = fmt.Errorf("rep received a request containing released-buffer poison (0xDB): the retained request was released while still being re-sent")
					} else {
						srvErr = fmt.Errorf("rep received a request (len %d) that equals no request ever sent", len(m.Body))
					}
				}
				idx, keep := keepIdx[string(m.Body)]
				if known && keep {
					delete(keepIdx, string(m.Body))
					hs = append(hs, &held{m: m, body: append([]byte(nil), m.Body...), hdr: append([]byte(nil), m.Header...), owner: "rep", idx: idx})
				} else {
					m.Free()
				}
				first := !seen[string(m0)]
				seen[string(m0)] = true
				mu.Unlock()
				if first {
					time.Sleep(delay) // lets the requester re-send meanwhile (only once per request,
					// otherwise re-transmissions arrive faster than they are served)
				}
				_ = rp.Send([]byte("ok"))
			}
		}()
		f.exchange = func(i int, body []byte, keep bool) error {
			mu.Lock()
			sent = append(sent, body)
			if keep {
				keepIdx[string(body)] = i
			}
			mu.Unlock()
			if err := rq.Send(body); err != nil {
				return fmt.Errorf("request %d: %v", i, err)
			}
			if b, err := rq.Recv(); err != nil || string(b) != "ok" {
				return fmt.Errorf("reply to request %d: (%q,%v)", i, b, err)
			}
			mu.Lock()
			defer mu.Unlock()
			return srvErr
		}
		f.taken = func() []*held {
			close(stop)
			wg.Wait()
			mu.Lock()
			defer mu.Unlock()
			return hs
		}
	case "pair1-device":
		a, b := mk("pair1"), mk("pair1")
		d1, d2 := mk("xpair1"), mk("xpair1")
		link(d1, a)
		link(d2, b)
		if err := mangos.Device(d1, d2); err != nil {
			closeAll()
			t.Fatalf("harness: device: %v", err)
		}
		f.receivers = []recvH{{"pair1-b", b}}
		f.send = func(i int, x []byte) error { return a.Send(x) }
	}
	return f
}

func TestC17HoldAndMutate(t *testing.T) {
	rapid.Check(t, func(t *rapid.T) {
		pattern := rapid.SampledFrom([]string{"pubsub", "pubsub", "xpubsub", "bus", "star", "survey", "pair", "reqrep-retry", "pair1-device"}).Draw(t, "pattern")
		tr := rapid.SampledFrom([]string{"inproc", "inproc", "tcp", "ipc", "ws"}).Draw(t, "transport")
		n := rapid.IntRange(5, 40).Draw(t, "n")
		sizes := make([]int, n)
		for i := range sizes {
			sizes[i] = genSize(t, fmt.Sprintf("s%d", i))
		}
		recycle := rapid.IntRange(0, 60).Draw(t, "recycle")
		holdEvery := rapid.IntRange(1, 3).Draw(t, "holdEvery")
		mutateEvery := rapid.IntRange(1, 4).Draw(t, "mutateEvery")
		key := rapid.Uint64().Draw(t, "key")
		doc := map[string]interface{}{"test": "TestC17HoldAndMutate", "pattern": pattern, "transport": tr, "sizes": sizes, "recycle": recycle, "holdEvery": holdEvery, "mutateEvery": mutateEvery, "key": key, "rseed": os.Getenv("VERIF_RSEED")}
		_ = mangos.VerifLedgerReport() // start clean
		f := buildFan(t, pattern, tr)
		defer f.close()
		fail := func(k, fm string, a ...interface{}) {
			stats.Fail(t, "C17:"+k+":"+pattern, doc, "%s over %s: %s", pattern, tr, fmt.Sprintf(fm, a...))
		}
		lockstep := pattern == "survey"
		var holds []*held
		var sentBodies [][]byte // reqrep-retry: re-transmitted copies of earlier requests may arrive again
		recvOne := func(r recvH, i int, want []byte, keep bool) bool {
			_ = r.c.SetOption(mangos.OptionRecvDeadline, 5*time.Second)
			var m *mangos.Message
			for {
				var err error
				m, err = r.c.RecvMsg()
				if err != nil {
					fail("recv-error", "%s did not receive message %d: %v", r.name, i, err)
					return false
				}
				if pattern != "reqrep-retry" || bytes.Equal(m.Body, want) {
					break
				}
				dup := false
				for _, b := range sentBodies {
					if bytes.Equal(b, m.Body) {
						dup = true
					}
				}
				if !dup {
					break // reported below as wrong content
				}
				m.Free()
			}
			if !bytes.Equal(m.Body, want) {
				if poisoned(m.Body) {
					fail("poison-delivered", "%s received message %d containing released-buffer poison (0xDB): the library handed out or read a buffer it had released", r.name, i)
				} else {
					fail("wrong-content", "%s received message %d with different content (len %d, want %d)", r.name, i, len(m.Body), len(want))
				}
				return false
			}
			if keep {
				holds = append(holds, &held{m: m, body: append([]byte(nil), m.Body...), hdr: append([]byte(nil), m.Header...), owner: r.name, idx: i})
			} else {
				m.Free()
			}
			return true
		}
		payload := func(i int, sz int) []byte { return fixture.Payload(key+uint64(i)*7919, sz) }
		if f.exchange != nil {
			for i := 0; i < n; i++ {
				if err := f.exchange(i, payload(i, sizes[i]), i%holdEvery == 0); err != nil {
					fail("exchange", "%v", err)
					return
				}
			}
			for i := 0; i < recycle; i++ {
				if err := f.exchange(1000+i, payload(1000+i, sizes[i%n]), false); err != nil {
					fail("exchange", "%v", err)
					return
				}
			}
			holds = f.taken()
			recycle = 0
		} else if lockstep {
			for i := 0; i < n; i++ {
				want := payload(i, sizes[i])
				sentBodies = append(sentBodies, want)
				if err := f.send(i, want); err != nil {
					fail("send-error", "send %d: %v", i, err)
					return
				}
				for _, r := range f.receivers {
					if !recvOne(r, i, want, i%holdEvery == 0) {
						return
					}
				}
			}
		} else {
			for i := 0; i < n; i++ {
				if err := f.send(i, payload(i, sizes[i])); err != nil {
					fail("send-error", "send %d: %v", i, err)
					return
				}
			}
			for _, r := range f.receivers {
				for i := 0; i < n; i++ {
					if !recvOne(r, i, payload(i, sizes[i]), i%holdEvery == 0) {
						return
					}
				}
			}
		}
		// mutate some of our own messages: nobody else may notice
		for j, h := range holds {
			if j%mutateEvery == 0 {
				for k := range h.m.Body {
					h.m.Body[k] ^= 0x5A
					h.body[k] ^= 0x5A
				}
			}
		}
		// more traffic that is freed at once: buffers get recycled while we hold ours
		for i := 0; i < recycle; i++ {
			sz := sizes[i%n]
			want := payload(1000+i, sz)
			sentBodies = append(sentBodies, want)
			if err := f.send(i, want); err != nil {
				fail("send-error", "recycle send %d: %v", i, err)
				return
			}
			if lockstep {
				for _, r := range f.receivers {
					if !recvOne(r, 1000+i, want, false) {
						return
					}
				}
			}
		}
		if !lockstep {
			for _, r := range f.receivers {
				for i := 0; i < recycle; i++ {
					if !recvOne(r, 1000+i, payload(1000+i, sizes[i%n]), false) {
						return
					}
				}
			}
		}
		// churn the pools some more from the application side
		for i := 0; i < 20; i++ {
			x := mangos.NewMessage(sizes[i%n])
			x.Body = append(x.Body, payload(5000+i, sizes[i%n])...)
			x.Free()
		}
		for _, h := range holds {
			if mangos.VerifMessageReleased(h.m) {
				fail("released-while-held", "message %d held by %s was released by the library while the application owns it", h.idx, h.owner)
				return
			}
			if !bytes.Equal(h.m.Body, h.body) || !bytes.Equal(h.m.Header, h.hdr) {
				what := "changed"
				if poisoned(h.m.Body) {
					what = "was overwritten with released-buffer poison"
				}
				fail("held-message-changed", "message %d held by %s %s after delivery (further traffic / other holders' mutations must not affect it)", h.idx, h.owner, what)
				return
			}
		}
		for _, h := range holds {
			h.m.Free()
		}
		f.close()
		time.Sleep(2 * time.Millisecond)
		if !checkLedger(t, doc, pattern+" over "+tr) {
			return
		}
		stats.Eval()
		stats.Class("pattern:" + pattern)
		stats.Class("tr:" + tr)
		if len(f.receivers) >= 2 {
			stats.Class("multi_holder")
		}
		if recycle > 0 {
			stats.Class("recycled_while_held")
		}
		if len(f.receivers) >= 2 || recycle > 0 {
			stats.NonTrivial(fmt.Sprintf("A|%s|%s|%d|%v|%d|%d|%d", pattern, tr, len(f.receivers), sizes, recycle, holdEvery, mutateEvery))
		}
		stats.Sample(doc)
	})
}

// ---------------------------------------------------------------------------

var senders = []string{"pair", "xpair", "pair1", "xpair1", "req", "xreq", "push", "xpush", "pub", "bus", "star", "surveyor"}

func rawHdr(name string) []byte {
	switch name {
	case "xreq":
		return []byte{0x80, 0, 0, 1}
	case "xpair1":
		return []byte{0, 0, 0, 0}
	}
	return nil
}

func TestC17FailedSend(t *testing.T) {
	rapid.Check(t, func(t *rapid.T) {
		name := rapid.SampledFrom(senders).Draw(t, "socket")
		outcome := rapid.SampledFrom([]string{"timeout", "closed", "no-peers", "best-effort", "success"}).Draw(t, "outcome")
		sz := genSize(t, "size")
		key := rapid.Uint64().Draw(t, "key")
		doc := map[string]interface{}{"test": "TestC17FailedSend", "socket": name, "outcome": outcome, "size": sz, "key": key, "rseed": os.Getenv("VERIF_RSEED")}
		fail := func(k, fm string, a ...interface{}) {
			stats.Fail(t, "C17:"+k+":"+name, doc, "%s, outcome %s, %d bytes: %s", name, outcome, sz, fmt.Sprintf(fm, a...))
		}
		_ = mangos.VerifLedgerReport()
		p := fixture.ByName(name)
		S := fixture.New(name)
		defer S.Close()
		body := fixture.Payload(key, sz)
		// every message of the failing phase has a body of its own, so that "the re-sent one arrived
		// intact" cannot be satisfied by another message
		nth := 0
		bodyOf := map[*mangos.Message][]byte{}
		mk := func() *mangos.Message {
			m := mangos.NewMessage(sz)
			m.Body = append(m.Body, body...)
			if outcome != "success" {
				nth++
				m.Body = append(m.Body, byte('0'+nth))
				bodyOf[m] = append([]byte(nil), m.Body...)
			}
			if h := rawHdr(name); h != nil {
				m.Header = append(m.Header, h...)
			}
			return m
		}
		_ = S.SetOption(mangos.OptionWriteQLen, 1)
		switch outcome {
		case "timeout":
			if S.SetOption(mangos.OptionSendDeadline, 3*time.Millisecond) != nil {
				t.Skip("no send deadline")
			}
		case "no-peers":
			if S.SetOption(mangos.OptionFailNoPeers, true) != nil {
				t.Skip("no fail-no-peers")
			}
		case "best-effort":
			if S.SetOption(mangos.OptionBestEffort, true) != nil {
				t.Skip("no best-effort")
			}
		case "closed":
			_ = S.Close()
		}
		if outcome == "success" {
			// with a peer: Send consumes the message; the peer gets the bytes
			P := fixture.New(p.PeerName)
			defer P.Close()
			if p.PeerName == "sub" {
				_ = P.SetOption(mangos.OptionSubscribe, "")
			}
			if _, err := fixture.Connect(P, S, "inproc"); err != nil {
				t.Fatalf("harness: %v", err)
			}
			_ = S.SetOption(mangos.OptionSendDeadline, 3*time.Second)
			_ = P.SetOption(mangos.OptionRecvDeadline, 3*time.Second)
			for i := 0; i < 3; i++ {
				m := mk()
				if err := S.SendMsg(m); err != nil {
					fail("send-error", "SendMsg with a connected peer: %v", err)
					return
				}
				rm, err := P.RecvMsg()
				if err != nil || !bytes.Equal(rm.Body, body) {
					fail("success-not-delivered", "message %d sent successfully did not arrive intact (%v)", i, err)
					return
				}
				rm.Free()
				if name == "req" {
					_ = P.Send([]byte("ok"))
					_ = S.SetOption(mangos.OptionRecvDeadline, 3*time.Second)
					_, _ = S.Recv()
				}
			}
			_ = S.Close()
			_ = P.Close()
			time.Sleep(time.Millisecond)
			if checkLedger(t, doc, name+" success") {
				stats.Eval()
				stats.Class("send_outcome:success")
			}
			return
		}
		// without a peer: sends fail (or are dropped/queued) according to the mode
		var failedMsgs []*mangos.Message
		for i := 0; i < 4; i++ {
			m := mk()
			var err error
			if !fixture.Within(3*time.Second, func() { err = S.SendMsg(m) }) {
				fail("send-hang", "SendMsg did not return within 3s")
				return
			}
			if err != nil {
				if mangos.VerifMessageReleased(m) {
					fail("failed-send-released", "SendMsg returned %v but the message was released: on failure ownership stays with the caller", err)
					return
				}
				if !bytes.Equal(m.Body, bodyOf[m]) {
					fail("failed-send-altered", "SendMsg returned %v and left the body altered (len %d, want %d)", err, len(m.Body), len(bodyOf[m]))
					return
				}
				failedMsgs = append(failedMsgs, m)
			}
		}
		// re-send one failed message after fixing the cause: it must arrive intact
		if len(failedMsgs) > 0 && outcome != "closed" {
			_ = S.SetOption(mangos.OptionSendDeadline, 3*time.Second)
			_ = S.SetOption(mangos.OptionFailNoPeers, false)
			P := fixture.New(p.PeerName)
			defer P.Close()
			if p.PeerName == "sub" {
				_ = P.SetOption(mangos.OptionSubscribe, "")
			}
			if _, err := fixture.Connect(P, S, "inproc"); err != nil {
				t.Fatalf("harness: %v", err)
			}
			m := failedMsgs[0]
			failedMsgs = failedMsgs[1:]
			want := bodyOf[m]
			if err := S.SendMsg(m); err != nil {
				fail("resend-failed", "re-sending the message kept after a failed Send: %v", err)
				return
			}
			_ = P.SetOption(mangos.OptionRecvDeadline, 3*time.Second)
			found := false
			for i := 0; i < 8 && !found; i++ {
				rm, err := P.RecvMsg()
				if err != nil {
					break
				}
				found = bytes.Equal(rm.Body, want)
				known := found
				for _, b := range bodyOf {
					known = known || bytes.Equal(rm.Body, b)
				}
				if !known {
					fail("resend-not-delivered", "after a failed Send and a retry the peer received %d bytes (first %x) that equal none of the messages sent (%d bytes each)", len(rm.Body), trunc(rm.Body), len(want))
					rm.Free()
					return
				}
				rm.Free()
			}
			if !found {
				fail("resend-not-delivered", "the message kept after a failed Send was re-sent but did not arrive intact")
				return
			}
		}
		for _, m := range failedMsgs {
			m.Free()
		}
		_ = S.Close()
		time.Sleep(time.Millisecond)
		if !checkLedger(t, doc, name+" "+outcome) {
			return
		}
		stats.Eval()
		stats.Class("send_outcome:" + outcome)
		if len(failedMsgs) > 0 || outcome != "success" {
			stats.NonTrivial(fmt.Sprintf("B|%s|%s|%d", name, outcome, sz))
		}
		stats.Sample(doc)
	})
}

// TestC17NewMessage: a new message of any size starts empty with enough capacity.
func TestC17NewMessage(t *testing.T) {
	rapid.Check(t, func(t *rapid.T) {
		_ = mangos.VerifLedgerReport()
		n := rapid.IntRange(1, 40).Draw(t, "n")
		var live []*mangos.Message
		var mu sync.Mutex
		sizes := make([]int, n)
		for i := range sizes {
			sizes[i] = rapid.IntRange(0, 70000).Draw(t, "sz")
			if rapid.Bool().Draw(t, "boundary") {
				sizes[i] = rapid.SampledFrom(classes).Draw(t, "c") + rapid.IntRange(-2, 2).Draw(t, "d")
			}
		}
		doc := map[string]interface{}{"test": "TestC17NewMessage", "sizes": sizes}
		for i, sz := range sizes {
			m := mangos.NewMessage(sz)
			if len(m.Body) != 0 || len(m.Header) != 0 || cap(m.Body) < sz {
				stats.Fail(t, "C17:newmessage", doc, "NewMessage(%d): len(Body)=%d len(Header)=%d cap(Body)=%d", sz, len(m.Body), len(m.Header), cap(m.Body))
				return
			}
			// dirty it fully, then release or keep
			m.Body = m.Body[:cap(m.Body)]
			for k := range m.Body {
				m.Body[k] = byte(k) | 1
			}
			m.Header = append(m.Header, 1, 2, 3, 4, 5, 6, 7, 8)
			if i%3 == 0 {
				mu.Lock()
				live = append(live, m)
				mu.Unlock()
			} else {
				m.Free()
			}
			stats.Eval()
		}
		for _, m := range live {
			m.Free()
		}
		if !checkLedger(t, doc, "NewMessage churn") {
			return
		}
		stats.NonTrivial(fmt.Sprint("C|", sizes))
	})
}

// TestC17TransportErrorPath: the peer vanishes while large messages are being written, so the
// transports' Send error paths run; the ledger must stay clean (no double release).
func TestC17TransportErrorPath(t *testing.T) {
	stats.ScaledChecks(3, 5, func() {
		rapid.Check(t, func(t *rapid.T) {
			name := rapid.SampledFrom([]string{"pair", "push", "pub", "bus", "req", "xpair", "star"}).Draw(t, "socket")
			tr := rapid.SampledFrom([]string{"tcp", "ipc", "ws", "tls+tcp", "inproc"}).Draw(t, "transport")
			sz := rapid.SampledFrom([]int{1000, 65536, 300000}).Draw(t, "size")
			closeAfter := rapid.IntRange(0, 5).Draw(t, "closeAfterMs")
			doc := map[string]interface{}{"test": "TestC17TransportErrorPath", "socket": name, "transport": tr, "size": sz, "closeAfterMs": closeAfter, "rseed": os.Getenv("VERIF_RSEED")}
			_ = mangos.VerifLedgerReport()
			p := fixture.ByName(name)
			S, P := fixture.New(name), fixture.New(p.PeerName)
			defer S.Close()
			defer P.Close()
			_ = S.SetOption(mangos.OptionSendDeadline, 20*time.Millisecond)
			_ = S.SetOption(mangos.OptionBestEffort, false)
			if _, err := fixture.Connect(P, S, tr); err != nil {
				t.Fatalf("harness: %v", err)
			}
			body := fixture.Payload(uint64(sz), sz)
			done := make(chan struct{})
			go func() {
				defer close(done)
				for i := 0; i < 40; i++ {
					m := mangos.NewMessage(sz)
					m.Body = append(m.Body, body...)
					if err := S.SendMsg(m); err != nil {
						m.Free() // ours again
					}
				}
			}()
			time.Sleep(time.Duration(closeAfter) * time.Millisecond)
			_ = P.Close()
			select {
			case <-done:
			case <-time.After(10 * time.Second):
				stats.Fail(t, "C17:send-hang-after-peer-loss:"+name, doc, "%s over %s: Sends with a 20 ms deadline did not finish within 10 s after the peer vanished", name, tr)
				return
			}
			_ = S.Close()
			time.Sleep(5 * time.Millisecond)
			if !checkLedger(t, doc, name+" over "+tr+" with the peer vanishing mid-stream") {
				return
			}
			stats.Eval()
			stats.Class("errorpath:" + tr)
			stats.NonTrivial(fmt.Sprintf("E|%s|%s|%d|%d", name, tr, sz, closeAfter))
			stats.Sample(doc)
		})
	})
}

// TestC17ResizeUnderLoad: the receive queue of a socket is full (its application is not reading,
// the pipe readers sit on the next message) when READQ-LEN is changed.  Whatever the resize does
// with queued messages — dropping them is allowed — every message that is afterwards handed to the
// application is the application's alone: distinct objects, content as sent, no poison, and the
// ledger stays clean while the application holds them across further traffic.
func TestC17ResizeUnderLoad(t *testing.T) {
	stats.ScaledChecks(3, 5, func() {
		rapid.Check(t, func(t *rapid.T) {
			pair := rapid.SampledFrom([][2]string{{"push", "pull"}, {"xpush", "xpull"}, {"pair", "pair"}, {"xpair", "xpair"}, {"pub", "sub"}, {"bus", "bus"}, {"xbus", "xbus"}, {"star", "star"}, {"pair1", "pair1"}}).Draw(t, "pattern")
			tr := rapid.SampledFrom([]string{"inproc", "inproc", "tcp", "ipc"}).Draw(t, "transport")
			q0 := rapid.SampledFrom([]int{1, 2, 4}).Draw(t, "readq")
			q1 := rapid.SampledFrom([]int{1, 2, 3, 8, 64}).Draw(t, "newReadq")
			resizes := rapid.IntRange(1, 3).Draw(t, "resizes")
			sz := rapid.SampledFrom([]int{9, 100, 1000, 5000}).Draw(t, "size")
			nmsg := rapid.IntRange(12, 40).Draw(t, "nmsg")
			doc := map[string]interface{}{"test": "TestC17ResizeUnderLoad", "pattern": pair[0] + ">" + pair[1], "transport": tr, "readq": q0, "new_readq": q1, "resizes": resizes, "size": sz, "nmsg": nmsg, "rseed": os.Getenv("VERIF_RSEED")}
			_ = mangos.VerifLedgerReport()
			S, R := fixture.New(pair[0]), fixture.New(pair[1])
			defer S.Close()
			defer R.Close()
			if pair[1] == "sub" {
				_ = R.SetOption(mangos.OptionSubscribe, "")
			}
			if err := R.SetOption(mangos.OptionReadQLen, q0); err != nil {
				t.Fatalf("harness: %v", err)
			}
			_ = S.SetOption(mangos.OptionSendDeadline, 10*time.Millisecond)
			if _, err := fixture.Connect(R, S, tr); err != nil {
				t.Fatalf("harness: %v", err)
			}
			mk := func(i int) []byte {
				b := fixture.Payload(uint64(1000+i), sz)
				copy(b, fmt.Sprintf("#%04d#", i))
				return b
			}
			send := func(i int) {
				m := mangos.NewMessage(sz)
				m.Body = append(m.Body, mk(i)...)
				if h := rawHdr(pair[0]); h != nil {
					m.Header = append(m.Header, h...)
				}
				if err := S.SendMsg(m); err != nil {
					m.Free()
				}
			}
			sent := 0
			for ; sent < nmsg/2; sent++ {
				send(sent)
			}
			time.Sleep(5 * time.Millisecond) // the receive queue is full, readers hold the next message
			for k := 0; k < resizes; k++ {
				v := q1
				if k%2 == 1 {
					v = q0
				}
				if err := R.SetOption(mangos.OptionReadQLen, v); err != nil {
					stats.Fail(t, "C17:resize-refused:"+pair[1], doc, "%s: SetOption(READQ-LEN,%d) while connected: %v", pair[1], v, err)
					return
				}
				for j := 0; j < 3 && sent < nmsg; j++ {
					send(sent)
					sent++
				}
			}
			for ; sent < nmsg; sent++ {
				send(sent)
			}
			// drain, keeping everything
			_ = R.SetOption(mangos.OptionRecvDeadline, 60*time.Millisecond)
			var kept []*mangos.Message
			var snaps [][]byte
			seenObj := map[*mangos.Message]int{}
			for {
				m, err := R.RecvMsg()
				if err != nil {
					break
				}
				if j, dup := seenObj[m]; dup {
					stats.Fail(t, "C17:same-object-twice:"+pair[1], doc, "%s over %s: RecvMsg handed out a message object the application already holds (receive %d and %d) after READQ-LEN changes with a full queue", pair[1], tr, j, len(kept))
					return
				}
				seenObj[m] = len(kept)
				kept = append(kept, m)
				snaps = append(snaps, append([]byte(nil), m.Body...))
				// more traffic while we hold them
				if sent < nmsg+10 {
					send(sent)
					sent++
				}
			}
			for i, m := range kept {
				var n int
				if _, err := fmt.Sscanf(string(snaps[i][:6]), "#%04d#", &n); err != nil || !bytes.Equal(snaps[i], mk(n)) {
					key := "wrong-content"
					if poisoned(snaps[i]) {
						key = "poison-delivered"
					}
					stats.Fail(t, "C17:resize-"+key+":"+pair[1], doc, "%s over %s: message %d received after READQ-LEN changes does not have the content of any message sent (starts %q)", pair[1], tr, i, trunc(snaps[i]))
					return
				}
				if !bytes.Equal(m.Body, snaps[i]) {
					stats.Fail(t, "C17:resize-held-message-changed:"+pair[1], doc, "%s over %s: message %d (sent as #%d) changed while the application held it: further traffic must not touch it", pair[1], tr, i, n)
					return
				}
			}
			for _, m := range kept {
				m.Free()
			}
			if !checkLedger(t, doc, fmt.Sprintf("%s over %s, READQ-LEN %d->%d changed %d time(s) with a full queue", pair[1], tr, q0, q1, resizes)) {
				return
			}
			stats.Eval()
			stats.Class("resize_under_load:" + pair[1])
			if len(kept) > 0 {
				stats.NonTrivial(fmt.Sprintf("RZ|%s|%s|%d|%d|%d|%d|%d", pair[1], tr, q0, q1, resizes, sz, nmsg))
			}
			stats.Sample(doc)
		})
	})
}

func trunc(b []byte) []byte {
	if len(b) > 24 {
		return b[:24]
	}
	return b
}
