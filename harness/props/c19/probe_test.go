package c19

import (
	"fmt"
	"testing"
	"time"

	"go.nanomsg.org/mangos/v3"
	"go.nanomsg.org/mangos/v3/verifharness/fixture"
)

func TestProbe(t *testing.T) {
	for _, p := range fixture.Protos {
		s := fixture.New(p.Name)
		err := s.SetOption(mangos.OptionRecvDeadline, time.Duration(-1))
		if err != nil {
			fmt.Println(p.Name, "set RD -1:", err)
			s.Close()
			continue
		}
		var rerr error
		ok := fixture.Within(200*time.Millisecond, func() { _, rerr = s.Recv() })
		fmt.Println(p.Name, "recv with RD=-1 returned:", ok, rerr)
		s.Close()
	}
	for _, tr := range fixture.Transports {
		a := fixture.New("pair")
		b := fixture.New("pair")
		lk, err := fixture.Connect(a, b, tr)
		if err != nil {
			t.Fatal(err)
		}
		for _, pp := range append(lk.LE.PipeList(), lk.DE.PipeList()...) {
			for _, n := range []string{mangos.OptionLocalAddr, mangos.OptionRemoteAddr, mangos.OptionMaxRecvSize, mangos.OptionTLSConnState, mangos.OptionHTTPRequest, mangos.OptionPeerPID, mangos.OptionPeerUID, "bogus", mangos.OptionRecvDeadline, mangos.OptionRaw} {
				v, err := pp.GetOption(n)
				fmt.Printf("%s pipe %s = %T %v\n", tr, n, v, err)
			}
		}
		lk.Close()
	}
}
