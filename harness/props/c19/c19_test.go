// C19 — options and unsupported operations follow one uniform contract.
//
// The package holds a table (derived from options.go, the protocol and transport
// sources and the existing tests of /repo) of which object supports which option
// with which Go type and range, and checks the library against it:
//
//	TestC19OptionMatrix      every object x every option name x a typed boundary value pool
//	                         (deterministic, exhaustive for that axis): Set result class,
//	                         Get result class and type, round trip, no panic, no hang.
//	TestC19OptionSequence    rapid: random Set/Get sequences on one fresh object against a
//	                         model of the last accepted values (stale values, cross talk).
//	TestC19Inheritance       rapid: socket options reach existing and later dialers/listeners
//	                         (and pipes), context patterns copy the socket's values.
//	TestC19ZeroMeansNoLimit  rapid: accepted zero RECV/SEND-DEADLINE, RETRY-TIME, SURVEY-TIME
//	                         mean "no limit" (metamorphic against a small positive value).
//	TestC19NegativeDeadline  documented "negative = non-blocking" for the two deadlines.
//	TestC19NilTLSConfig      an accepted (*tls.Config)(nil) must not make Listen/Dial panic.
//	TestC19QueueAdmits       an accepted queue length n admits n queued messages.
//	TestC19ResizeVT          rapid: changing READQ-LEN/WRITEQ-LEN with full/empty queues never
//	                         closes the pipe (scripted peer, deterministic "queue full").
//	TestC19ResizeInproc      rapid: same over inproc between real sockets, both ends watched,
//	                         followed by a liveness exchange.
//	TestC19UnsupportedOps    Recv on PUB/PUSH, Send on SUB/PULL, OpenContext on the 19
//	                         context-less constructors: ErrProtoOp and nothing changes.
//	TestC19Device            Device over all 24x24 constructor pairs plus nil cases.
package c19

import (
	"bytes"
	"crypto/tls"
	"encoding/binary"
	"fmt"
	"io"
	"log"
	"math"
	"net"
	"os"
	"reflect"
	"runtime"
	"sort"
	"strconv"
	"strings"
	"sync"
	"testing"
	"time"

	"go.nanomsg.org/mangos/v3"
	"go.nanomsg.org/mangos/v3/transport/ipc"
	"go.nanomsg.org/mangos/v3/transport/ws"
	"go.nanomsg.org/mangos/v3/verifharness/fixture"
	"go.nanomsg.org/mangos/v3/verifharness/stats"
	"go.nanomsg.org/mangos/v3/verifharness/vt"
	"pgregory.net/rapid"
)

func TestMain(m *testing.M) {
	stats.Init("C19")
	stats.Rule("objects: 24 socket constructors (fresh and connected over inproc), contexts of req/rep/sub/surveyor/respondent, dialers and listeners of inproc/ipc/tcp/tls+tcp/ws/wss (before and after Dial/Listen, and through the NewDialer/NewListener option map), pipes of the 6 transports; names: every Option* constant, ws and ipc specials, arbitrary strings; values: typed boundary pool (int MinInt,-1,0,1,2,255,256,65536,MaxInt; Duration MinInt64,-1,0,1ns,1ms,1h,MaxInt64; bool; string; []byte; nil; time.Time; uint32; os.FileMode; *tls.Config nil/valid; float64; struct{}; int64; int32; uint) enumerated exhaustively, plus rapid Set/Get sequences with random names/values; effects (zero deadline/retry/survey time, queue length admits n, inheritance, queue resize with full and empty queues, unsupported operations, Device over all constructor pairs). Also: effect checks: WEBSOCKET-CHECKORIGIN histories probed with raw upgrade requests, UNIX-IPC-CHMOD file mode, MAX-RCV-SIZE set on socket/endpoint before/after Listen/Dial. Non-trivial: boundary value (negative, zero, max, wrong type, nil) or an accepted value whose effect/round trip was checked; distinct by (object kind, state, name, value class) resp. scenario parameters")
	stats.Assume("expected result classes come from a table derived from options.go, the protocol/transport sources and the existing tests; where documentation is silent (negative retry/survey/keep-alive/reconnect-on-socket durations, non-positive deadlines on rep/respondent, string for SUBSCRIBE, typed-nil TLS config, mode bits above 0777, LINGER/KEEPALIVE/NO-DELAY/TLS-CONFIG on sockets) both nil and a bad-value/bad-option error are accepted")
	stats.Assume("queue lengths above 65536 are never generated (allocation size is unspecified)")
	rc := m.Run()
	stats.Flush()
	fixture.Cleanup()
	os.Exit(rc)
}

// ---------------------------------------------------------------------------
// names

const (
	oRaw       = mangos.OptionRaw
	oRD        = mangos.OptionRecvDeadline
	oSD        = mangos.OptionSendDeadline
	oRetry     = mangos.OptionRetryTime
	oSub       = mangos.OptionSubscribe
	oUnsub     = mangos.OptionUnsubscribe
	oSurvey    = mangos.OptionSurveyTime
	oTLS       = mangos.OptionTLSConfig
	oWQ        = mangos.OptionWriteQLen
	oRQ        = mangos.OptionReadQLen
	oKA        = mangos.OptionKeepAlive
	oKATime    = mangos.OptionKeepAliveTime
	oNoDelay   = mangos.OptionNoDelay
	oLinger    = mangos.OptionLinger
	oTTL       = mangos.OptionTTL
	oMaxRcv    = mangos.OptionMaxRecvSize
	oReconn    = mangos.OptionReconnectTime
	oMaxReconn = mangos.OptionMaxReconnectTime
	oBE        = mangos.OptionBestEffort
	oLocal     = mangos.OptionLocalAddr
	oRemote    = mangos.OptionRemoteAddr
	oTLSState  = mangos.OptionTLSConnState
	oHTTPReq   = mangos.OptionHTTPRequest
	oAsynch    = mangos.OptionDialAsynch
	oPeerPID   = mangos.OptionPeerPID
	oPeerUID   = mangos.OptionPeerUID
	oPeerGID   = mangos.OptionPeerGID
	oPeerZone  = mangos.OptionPeerZone
	oFNP       = mangos.OptionFailNoPeers
	oWSMux     = ws.OptionWebSocketMux
	oWSHandler = ws.OptionWebSocketHandler
	oWSOrigin  = ws.OptionWebSocketCheckOrigin
	oIpcMode   = ipc.OptionIpcSocketPermissions
	oIpcOwner  = ipc.OptionIpcSocketOwner
	oIpcGroup  = ipc.OptionIpcSocketGroup
	oIpcSD     = ipc.OptionSecurityDescriptor
	oIpcInBuf  = ipc.OptionInputBufferSize
	oIpcOutBuf = ipc.OptionOutputBufferSize
)

var documentedNames = []string{
	oRaw, oRD, oSD, oRetry, oSub, oUnsub, oSurvey, oTLS, oWQ, oRQ, oKA, oKATime, oNoDelay, oLinger, oTTL,
	oMaxRcv, oReconn, oMaxReconn, oBE, oLocal, oRemote, oTLSState, oHTTPReq, oAsynch, oPeerPID, oPeerUID,
	oPeerGID, oPeerZone, oFNP,
	oWSMux, oWSHandler, oWSOrigin, oIpcMode, oIpcOwner, oIpcGroup, oIpcSD, oIpcInBuf, oIpcOutBuf,
}

// arbitraryNames are strings no object documents.
var arbitraryNames = []string{"", "bogus", "NoSuchOption", "raw", "recv-deadline", "RECV-DEADLINE ", " TTL", "READQ-LEN\x00", "TTL2", "MAX-RCV-SIZE-", "☃", "WEBSOCKET", "UNIX-IPC"}

var allNames = append(append([]string(nil), documentedNames...), arbitraryNames...)

func isDocumented(n string) bool {
	for _, d := range documentedNames {
		if d == n {
			return true
		}
	}
	return false
}

// nameKey is the option name as used inside violation keys (arbitrary strings collapse).
func nameKey(n string) string {
	if isDocumented(n) {
		return n
	}
	return "<arbitrary>"
}

// ---------------------------------------------------------------------------
// values

type val struct {
	V    interface{}
	Typ  string // class of the Go type
	Desc string
	N    int64 // numeric value of int / duration / uint32 / filemode values
}

func (v val) String() string { return v.Desc }

func intVal(i int) val { return val{i, "int", fmt.Sprintf("int(%d)", i), int64(i)} }
func durVal(d time.Duration) val {
	return val{d, "dur", fmt.Sprintf("Duration(%d)", int64(d)), int64(d)}
}

var tlsValid *tls.Config

func valuePool() []val {
	if tlsValid == nil {
		tlsValid = fixture.TLSServer()
	}
	var nilBytes []byte
	return []val{
		intVal(math.MinInt), intVal(-1), intVal(0), intVal(1), intVal(2), intVal(255), intVal(256), intVal(65536), intVal(math.MaxInt),
		durVal(math.MinInt64), durVal(-1), durVal(0), durVal(1), durVal(time.Millisecond), durVal(time.Hour), durVal(math.MaxInt64),
		{true, "bool", "true", 1}, {false, "bool", "false", 0},
		{"x", "string", `"x"`, 0}, {"", "string", `""`, 0},
		{[]byte("x"), "bytes", `[]byte("x")`, 0}, {[]byte{}, "bytes", "[]byte{}", 0}, {nilBytes, "bytes", "[]byte(nil)", 0},
		{nil, "nil", "nil", 0},
		{time.Unix(1700000000, 0), "time", "time.Time", 0},
		{uint32(0o644), "uint32", "uint32(0644)", 0o644}, {uint32(math.MaxUint32), "uint32", "uint32(max)", math.MaxUint32},
		{os.FileMode(0o600), "filemode", "FileMode(0600)", 0o600},
		{(*tls.Config)(nil), "tlsnil", "(*tls.Config)(nil)", 0}, {tlsValid, "tls", "*tls.Config", 0},
		{float64(1), "float64", "float64(1)", 1}, {struct{}{}, "struct", "struct{}{}", 0},
		{int64(1), "int64", "int64(1)", 1}, {int32(1), "int32", "int32(1)", 1}, {uint(1), "uint", "uint(1)", 1},
	}
}

// valClass is the value as used inside violation keys and non-trivial canon strings.
func valClass(v val) string {
	switch v.Typ {
	case "int":
		switch {
		case v.N < 0:
			return "-1" // every negative int is the same shape
		case v.N == 0:
			return "0"
		case v.N == math.MaxInt:
			return "maxint"
		}
		return "pos"
	case "dur":
		switch {
		case v.N < 0:
			return "neg"
		case v.N == 0:
			return "0s"
		}
		return "pos-dur"
	}
	return v.Typ
}

// boundary reports whether v is a boundary value in the sense of the non-trivial rule for a
// name with the given spec (negative, zero, max, wrong type, nil).
func boundary(sp *spec, v val) bool {
	if sp == nil || !typeOK(sp, v) {
		return true
	}
	switch v.Typ {
	case "int", "dur":
		return v.N <= 0 || v.N >= 255
	case "tlsnil", "nil":
		return true
	}
	return false
}

// ---------------------------------------------------------------------------
// the table

// spec says how one object treats one option name.
type spec struct {
	typ         string // int | dur | bool | bytes | tls | mode | addr | other
	set, get    bool
	getOptional bool   // Get may also report bad-option (value exists only after a Set, or is passed up)
	noRoundTrip bool   // accepted value is documented not to read back (NO-DELAY)
	unspecified bool   // documentation does not tell whether this object has the option: any regular result
	rng         string // qlen | ttl | nonneg | nonneg-gray | pos-gray | unsub | any
}

const (
	resOK = 1 << iota
	resBadOpt
	resBadVal
)

func resString(m int) string {
	var s []string
	if m&resOK != 0 {
		s = append(s, "nil")
	}
	if m&resBadOpt != 0 {
		s = append(s, "ErrBadOption")
	}
	if m&resBadVal != 0 {
		s = append(s, "ErrBadValue")
	}
	return strings.Join(s, " or ")
}

func typeOK(sp *spec, v val) bool {
	switch sp.typ {
	case "int":
		return v.Typ == "int"
	case "dur":
		return v.Typ == "dur"
	case "bool":
		return v.Typ == "bool"
	case "bytes":
		return v.Typ == "bytes" || v.Typ == "string"
	case "tls":
		return v.Typ == "tls" || v.Typ == "tlsnil"
	case "mode":
		return v.Typ == "uint32" || v.Typ == "filemode"
	}
	return false
}

// expectSet returns the set of admissible SetOption results.
func expectSet(sp *spec, v val) int {
	if sp != nil && sp.unspecified {
		return resOK | resBadOpt | resBadVal
	}
	if sp == nil || !sp.set {
		return resBadOpt
	}
	if !typeOK(sp, v) {
		return resBadVal
	}
	switch sp.typ {
	case "bytes":
		if v.Typ == "string" || sp.rng == "unsub" {
			return resOK | resBadVal // string is accepted but undocumented; unsubscribing an absent topic
		}
		return resOK
	case "tls":
		if v.Typ == "tlsnil" {
			return resOK | resBadVal
		}
		return resOK
	case "mode":
		if v.Typ == "uint32" && v.N <= 0o777 {
			return resOK
		}
		return resOK | resBadVal
	case "bool":
		return resOK
	}
	switch sp.rng {
	case "qlen", "nonneg":
		if v.N < 0 {
			return resBadVal
		}
	case "ttl":
		if v.N < 1 || v.N > 255 {
			return resBadVal
		}
	case "nonneg-gray":
		if v.N < 0 {
			return resOK | resBadVal
		}
	case "pos-gray":
		if v.N <= 0 {
			return resOK | resBadVal
		}
	}
	return resOK
}

func baseSpec(name string) *spec {
	switch name {
	case oRD, oSD:
		return &spec{typ: "dur", set: true, get: true, rng: "any"}
	case oRetry, oSurvey, oKATime:
		return &spec{typ: "dur", set: true, get: true, rng: "nonneg-gray"}
	case oReconn, oMaxReconn:
		return &spec{typ: "dur", set: true, get: true, rng: "nonneg"}
	case oBE, oFNP, oAsynch, oKA, oWSOrigin:
		return &spec{typ: "bool", set: true, get: true}
	case oNoDelay:
		return &spec{typ: "bool", set: true, get: true, noRoundTrip: true}
	case oRQ, oWQ:
		return &spec{typ: "int", set: true, get: true, rng: "qlen"}
	case oTTL:
		return &spec{typ: "int", set: true, get: true, rng: "ttl"}
	case oMaxRcv:
		return &spec{typ: "int", set: true, get: true, rng: "nonneg"}
	case oSub:
		return &spec{typ: "bytes", set: true}
	case oUnsub:
		return &spec{typ: "bytes", set: true, rng: "unsub"}
	case oTLS:
		return &spec{typ: "tls", set: true, get: true}
	case oIpcMode:
		return &spec{typ: "mode", set: true}
	case oIpcOwner, oIpcGroup:
		return &spec{typ: "int", set: true, rng: "nonneg-gray"}
	case oRaw:
		return &spec{typ: "bool", get: true}
	}
	panic("no base spec for " + name)
}

// impl maps a constructor to the package that implements its options.
func impl(proto string) string {
	switch proto {
	case "pair", "pair1", "pub", "push", "pull", "bus", "star":
		return "x" + proto
	}
	return proto
}

// protocol-level options per implementation (SetOption/GetOption of protocol/*).
var protoOptNames = map[string][]string{
	"xpair":       {oBE, oRD, oSD, oRQ, oWQ},
	"xpair1":      {oBE, oRD, oSD, oRQ, oWQ, oTTL},
	"xpub":        {oWQ},
	"xsub":        {oRD, oRQ},
	"sub":         {oRD, oRQ, oSub, oUnsub},
	"req":         {oRetry, oRD, oSD, oBE, oFNP},
	"xreq":        {oRD, oSD, oBE, oWQ, oRQ},
	"rep":         {oWQ, oTTL, oBE, oSD, oRD},
	"xrep":        {oTTL, oRD, oSD, oBE, oWQ, oRQ},
	"xpush":       {oSD, oBE, oFNP, oWQ},
	"xpull":       {oRD, oRQ},
	"surveyor":    {oWQ, oSurvey, oRD, oRQ},
	"xsurveyor":   {oRD, oWQ, oRQ},
	"respondent":  {oWQ, oRQ, oTTL, oBE, oRD, oSD},
	"xrespondent": {oTTL, oRD, oSD, oBE, oWQ, oRQ},
	"xbus":        {oRD, oWQ, oRQ},
	"xstar":       {oTTL, oRD, oWQ, oRQ},
}

// options of the contexts of the five context patterns.
var ctxOptNames = map[string][]string{
	"req":        {oRetry, oRD, oSD, oBE, oFNP},
	"rep":        {oBE, oSD, oRD},
	"sub":        {oRQ, oRD, oSub, oUnsub},
	"surveyor":   {oSurvey, oRD, oRQ},
	"respondent": {oBE, oRD, oSD},
}

// what a context copies from the socket (default context) in OpenContext.
var ctxInherits = map[string][]string{
	"req":        {oRetry, oRD, oSD, oBE, oFNP},
	"sub":        {oRQ, oRD},
	"surveyor":   {oSurvey, oRD, oRQ},
	"respondent": {oBE, oRD, oSD},
	// rep.OpenContext copies nothing: the pattern does not provide inheritance.
}

func protoLevel(proto string, names []string) map[string]*spec {
	m := map[string]*spec{}
	for _, n := range names {
		sp := baseSpec(n)
		if (proto == "rep" || proto == "respondent") && (n == oRD || n == oSD) {
			sp.rng = "pos-gray" // these two reject non-positive deadlines
		}
		m[n] = sp
	}
	return m
}

// socketSpecs: protocol options + RAW (get only) + the four core options.
func socketSpecs(proto string) map[string]*spec {
	m := protoLevel(proto, protoOptNames[impl(proto)])
	m[oRaw] = baseSpec(oRaw)
	m[oMaxRcv] = baseSpec(oMaxRcv)
	for _, n := range []string{oReconn, oMaxReconn} {
		sp := baseSpec(n)
		sp.rng = "nonneg-gray" // core/socket.go stores any duration; only dialers check the sign
		m[n] = sp
	}
	m[oAsynch] = baseSpec(oAsynch)
	// documented without naming the object they belong to
	for _, n := range []string{oLinger, oKA, oKATime, oNoDelay, oTLS} {
		if _, ok := m[n]; !ok {
			m[n] = &spec{unspecified: true, getOptional: true}
		}
	}
	return m
}

func ctxSpecs(proto string) map[string]*spec { return protoLevel(proto, ctxOptNames[proto]) }

func transportLevel(tr string, listener bool) map[string]*spec {
	m := map[string]*spec{}
	add := func(names ...string) {
		for _, n := range names {
			m[n] = baseSpec(n)
		}
	}
	switch tr {
	case "inproc":
	case "ipc":
		add(oMaxRcv)
		if listener {
			add(oIpcMode, oIpcOwner, oIpcGroup)
		}
	case "tcp":
		add(oMaxRcv, oKATime, oKA, oNoDelay)
	case "tls+tcp":
		add(oMaxRcv, oKATime, oKA, oNoDelay, oTLS)
	case "ws", "wss":
		add(oMaxRcv, oNoDelay)
		if tr == "wss" {
			add(oTLS)
			m[oTLS].getOptional = true // only present once set
		} else {
			m[oTLS] = &spec{unspecified: true, getOptional: true}
		}
		if listener {
			add(oWSOrigin)
			m[oWSMux] = &spec{typ: "other", get: true}
			m[oWSHandler] = &spec{typ: "other", get: true}
		} else {
			m[oWSOrigin] = &spec{unspecified: true, getOptional: true} // documented for listeners only
		}
	}
	// "might sometimes be available on dialers or listeners"
	m[oLocal] = &spec{typ: "addr", get: true, getOptional: true}
	m[oRemote] = &spec{typ: "addr", get: true, getOptional: true}
	// The socket rejects a negative MAX-RCV-SIZE, the stream transports accept it and treat it
	// as "no limit"; the documentation defines no range, so negatives are not asserted here.
	if sp, ok := m[oMaxRcv]; ok {
		cp := *sp
		cp.rng = "nonneg-gray"
		m[oMaxRcv] = &cp
	}
	return m
}

// dialerSpecs: core dialer options + transport options; GetOption additionally passes
// unknown names up to the socket (core/dialer.go), which we allow but do not require.
func dialerSpecs(tr string, sock map[string]*spec) map[string]*spec {
	m := transportLevel(tr, false)
	m[oReconn] = baseSpec(oReconn)
	m[oMaxReconn] = baseSpec(oMaxReconn)
	m[oAsynch] = baseSpec(oAsynch)
	for n, sp := range sock {
		if _, ok := m[n]; ok {
			continue
		}
		if sp.get || sp.unspecified {
			m[n] = &spec{typ: sp.typ, get: true, getOptional: true}
		}
	}
	return m
}

func listenerSpecs(tr string) map[string]*spec { return transportLevel(tr, true) }

// ---------------------------------------------------------------------------
// guarded calls

const hangLimit = 6 * time.Second

type outcome struct {
	val   interface{}
	err   error
	pan   interface{}
	stack string
	hung  bool
}

// guard runs f on its own goroutine, recovers a panic and gives up after hangLimit.
func guard(f func() (interface{}, error)) outcome {
	ch := make(chan outcome, 1)
	go func() {
		var o outcome
		defer func() {
			if r := recover(); r != nil {
				o.pan = r
				o.stack = stats.Stacks()
				if len(o.stack) > 1500 {
					o.stack = o.stack[:1500]
				}
			}
			ch <- o
		}()
		o.val, o.err = f()
	}()
	tm := time.NewTimer(hangLimit)
	defer tm.Stop()
	select {
	case o := <-ch:
		return o
	case <-tm.C:
		return outcome{hung: true}
	}
}

func guardErr(f func() error) outcome {
	return guard(func() (interface{}, error) { return nil, f() })
}

// reporter abstracts *testing.T (collect every violation, keep going) and *rapid.T (fail fast
// so that rapid shrinks).
type reporter interface {
	fail(key string, doc interface{}, format string, a ...interface{})
	harness(format string, a ...interface{})
}

type detReporter struct{ t *testing.T }

var (
	detSeenMu sync.Mutex
	detSeen   = map[string]bool{}
)

func (r detReporter) fail(key string, doc interface{}, format string, a ...interface{}) {
	detSeenMu.Lock()
	seen := detSeen[key]
	detSeen[key] = true
	detSeenMu.Unlock()
	if seen {
		return // one record (the first, smallest case) per key
	}
	what := fmt.Sprintf(format, a...)
	if stats.Violate(key, what, doc) {
		r.t.Errorf("VIOLATION %s: %s", key, what)
	}
}
func (r detReporter) harness(format string, a ...interface{}) {
	r.t.Fatalf("harness: "+format, a...)
}

type rapidReporter struct{ t *rapid.T }

func (r rapidReporter) fail(key string, doc interface{}, format string, a ...interface{}) {
	stats.Fail(r.t, key, doc, format, a...)
}
func (r rapidReporter) harness(format string, a ...interface{}) {
	r.t.Fatalf("harness: "+format, a...)
}

// ---------------------------------------------------------------------------
// objects

type object struct {
	kind   string // socket | context | dialer | listener | newdialer | newlistener | pipe
	who    string // constructor or transport
	state  string // fresh | connected | started
	keyID  string // identifies the implementation inside violation keys
	specs  map[string]*spec
	set    func(string, interface{}) error
	get    func(string) (interface{}, error)
	isPipe bool
	dead   bool // a call hung: do not touch the object again
}

func (o *object) label() string { return o.kind + ":" + o.who + ":" + o.state }

func isBadOption(o *object, err error) bool {
	return err == mangos.ErrBadOption || (o.isPipe && err == mangos.ErrBadProperty)
}

func errName(err error) string {
	if err == nil {
		return "nil"
	}
	return fmt.Sprintf("%q", err.Error())
}

func (o *object) doc(test, name string, v *val) map[string]interface{} {
	d := map[string]interface{}{"test": test, "object": o.kind, "who": o.who, "state": o.state, "name": name}
	if v != nil {
		d["value"] = v.Desc
	}
	return d
}

func negMaxRcvKey(o *object, name string, v val) (string, bool) {
	if name == oMaxRcv && v.Typ == "int" && v.N < 0 && (o.kind == "dialer" || o.kind == "listener" || o.kind == "newdialer" || o.kind == "newlistener") {
		return "C19:neg-maxrecvsize-accepted:" + o.who, true
	}
	return "", false
}

func setKeys(o *object, name string, v val) (panicKey, resultKey, hangKey string) {
	suffix := o.keyID + ":" + nameKey(name) + ":" + valClass(v)
	resultKey = "C19:set-result:" + suffix
	if k, ok := negMaxRcvKey(o, name, v); ok {
		resultKey = k
	}
	return "C19:panic:" + suffix, resultKey, "C19:hang:" + suffix
}

// excludedSet reports (and counts) that this Set shape is a listed known finding.
func excludedSet(o *object, name string, v val) bool {
	pk, rk, hk := setKeys(o, name, v)
	for _, k := range []string{pk, rk, hk} {
		if stats.Known(k) {
			stats.Excluded(k)
			return true
		}
	}
	return false
}

func equalOpt(a, b interface{}) bool {
	defer func() { _ = recover() }() // uncomparable dynamic types
	return a == b
}

func goTypeOK(sp *spec, got interface{}) bool {
	switch sp.typ {
	case "int":
		_, ok := got.(int)
		return ok
	case "dur":
		_, ok := got.(time.Duration)
		return ok
	case "bool":
		_, ok := got.(bool)
		return ok
	case "tls":
		_, ok := got.(*tls.Config)
		return ok
	case "addr":
		_, ok := got.(net.Addr)
		return ok
	}
	return true
}

// checkGet performs one guarded GetOption and checks the result class and Go type.
// It returns the value and whether Get succeeded.
func checkGet(r reporter, test string, o *object, name string) (interface{}, bool) {
	if o.dead {
		return nil, false
	}
	sp := o.specs[name]
	suffix := o.keyID + ":" + nameKey(name)
	for _, k := range []string{"C19:panic-get:" + suffix, "C19:hang-get:" + suffix, "C19:get-result:" + suffix} {
		if stats.Known(k) {
			stats.Excluded(k)
			return nil, false
		}
	}
	res := guard(func() (interface{}, error) { return o.get(name) })
	d := o.doc(test, name, nil)
	d["op"] = "get"
	switch {
	case res.hung:
		o.dead = true
		r.fail("C19:hang-get:"+suffix, d, "%s GetOption(%q) did not return within %v", o.label(), name, hangLimit)
		return nil, false
	case res.pan != nil:
		r.fail("C19:panic-get:"+suffix, d, "%s GetOption(%q) panicked: %v\n%s", o.label(), name, res.pan, res.stack)
		return nil, false
	}
	mustOK := sp != nil && sp.get && !sp.getOptional && !sp.unspecified
	mayOK := sp != nil && (sp.get || sp.unspecified)
	switch {
	case res.err == nil && !mayOK:
		r.fail("C19:get-result:"+suffix, d, "%s GetOption(%q) = (%v, nil) although the object does not have this option; want a bad-option error", o.label(), name, res.val)
		return nil, false
	case res.err != nil && !isBadOption(o, res.err):
		r.fail("C19:get-result:"+suffix, d, "%s GetOption(%q) failed with %s; only a bad-option error is allowed", o.label(), name, errName(res.err))
		return nil, false
	case res.err != nil && mustOK:
		r.fail("C19:get-result:"+suffix, d, "%s GetOption(%q) = %s although the object supports the option", o.label(), name, errName(res.err))
		return nil, false
	case res.err != nil:
		if res.val != nil {
			r.fail("C19:get-result:"+suffix, d, "%s GetOption(%q) returned both a value (%v) and %s", o.label(), name, res.val, errName(res.err))
		}
		return nil, false
	}
	if !goTypeOK(sp, res.val) {
		r.fail("C19:get-type:"+suffix, d, "%s GetOption(%q) returned a %T, documented type is %s", o.label(), name, res.val, sp.typ)
		return nil, false
	}
	return res.val, true
}

// checkSet performs one guarded SetOption, checks the result class and (when the value was
// accepted and the option can be read) the round trip.  It returns whether the value was accepted.
func checkSet(r reporter, test string, o *object, name string, v val) (accepted bool) {
	if o.dead {
		return false
	}
	sp := o.specs[name]
	pk, rk, hk := setKeys(o, name, v)
	res := guardErr(func() error { return o.set(name, v.V) })
	d := o.doc(test, name, &v)
	d["op"] = "set"
	switch {
	case res.hung:
		o.dead = true
		r.fail(hk, d, "%s SetOption(%q, %s) did not return within %v", o.label(), name, v, hangLimit)
		return false
	case res.pan != nil:
		r.fail(pk, d, "%s SetOption(%q, %s) panicked: %v\n%s", o.label(), name, v, res.pan, res.stack)
		return false
	}
	want := expectSet(sp, v)
	got := 0
	switch res.err {
	case nil:
		got = resOK
	case mangos.ErrBadOption:
		got = resBadOpt
	case mangos.ErrBadValue:
		got = resBadVal
	}
	if got == 0 {
		r.fail(rk, d, "%s SetOption(%q, %s) = %s; an option call may only return nil, ErrBadOption or ErrBadValue", o.label(), name, v, errName(res.err))
		return false
	}
	if got&want == 0 {
		r.fail(rk, d, "%s SetOption(%q, %s) = %s, want %s", o.label(), name, v, errName(res.err), resString(want))
		return false
	}
	return res.err == nil
}

func checkRoundTrip(r reporter, test string, o *object, name string, v val) {
	sp := o.specs[name]
	if sp == nil || !sp.get || sp.noRoundTrip || sp.unspecified || o.get == nil {
		return
	}
	got, ok := checkGet(r, test, o, name)
	if !ok {
		return
	}
	if !equalOpt(got, v.V) {
		d := o.doc(test, name, &v)
		d["op"] = "set+get"
		r.fail("C19:roundtrip:"+o.keyID+":"+nameKey(name), d, "%s SetOption(%q, %s) was accepted but GetOption returns %v (%T)", o.label(), name, v, got, got)
	}
}

// ---------------------------------------------------------------------------
// building objects

// closer collects things to close at the end of a case.
type closer struct {
	mu sync.Mutex
	fs []func()
}

func (c *closer) add(f func()) { c.mu.Lock(); c.fs = append(c.fs, f); c.mu.Unlock() }
func (c *closer) sock(s mangos.Socket) mangos.Socket {
	c.add(func() { fixture.Within(5*time.Second, func() { _ = s.Close() }) })
	return s
}
func (c *closer) closeAll() {
	c.mu.Lock()
	fs := c.fs
	c.fs = nil
	c.mu.Unlock()
	for i := len(fs) - 1; i >= 0; i-- {
		fs[i]()
	}
}

// connectPeer connects s (dialing) to a fresh natural peer over inproc.
func connectPeer(c *closer, s mangos.Socket, p fixture.Proto) (peer mangos.Socket, lk *fixture.Link, err error) {
	peer = c.sock(fixture.New(p.PeerName))
	lk, err = fixture.Connect(peer, s, "inproc")
	return peer, lk, err
}

func socketObject(c *closer, p fixture.Proto, connected bool) (*object, mangos.Socket, error) {
	s := fixture.New(p.Name)
	st := "fresh"
	if connected {
		st = "connected"
		// the peer is registered first so that it is closed after s (no redial storm)
		if _, _, err := connectPeer(c, s, p); err != nil {
			_ = s.Close()
			return nil, nil, err
		}
	}
	c.sock(s)
	return &object{kind: "socket", who: p.Name, state: st, keyID: impl(p.Name), specs: socketSpecs(p.Name), set: s.SetOption, get: s.GetOption}, s, nil
}

func contextObject(c *closer, p fixture.Proto, connected bool) (*object, error) {
	_, s, err := socketObject(c, p, connected)
	if err != nil {
		return nil, err
	}
	ctx, err := s.OpenContext()
	if err != nil {
		return nil, fmt.Errorf("OpenContext on %s: %v", p.Name, err)
	}
	st := "fresh"
	if connected {
		st = "connected"
	}
	return &object{kind: "context", who: p.Name, state: st, keyID: impl(p.Name), specs: ctxSpecs(p.Name), set: ctx.SetOption, get: ctx.GetOption}, nil
}

// endpointProto is the pattern used for dialer/listener/pipe objects.
const endpointProto = "pair"

func dialerObject(c *closer, tr string, started bool) (*object, error) {
	s := fixture.New(endpointProto)
	st := "fresh"
	var d mangos.Dialer
	var err error
	if started {
		st = "started"
		peer := c.sock(fixture.New(endpointProto))
		pe := fixture.Hook(peer)
		addr, _, lerr := fixture.Listen(peer, tr)
		if lerr != nil {
			_ = s.Close()
			return nil, lerr
		}
		if d, err = fixture.Dial(s, addr); err != nil {
			_ = s.Close()
			return nil, err
		}
		if !pe.WaitAttached(1, 5*time.Second) {
			_ = s.Close()
			return nil, fmt.Errorf("dialer over %s: peer never attached", tr)
		}
	} else if d, err = s.NewDialer(fixture.Addr(tr), fixture.DialOpts(tr)); err != nil {
		_ = s.Close()
		return nil, err
	}
	c.sock(s)
	return &object{kind: "dialer", who: tr, state: st, keyID: "dialer:" + tr, specs: dialerSpecs(tr, socketSpecs(endpointProto)), set: d.SetOption, get: d.GetOption}, nil
}

func listenerObject(c *closer, tr string, started bool) (*object, error) {
	s := c.sock(fixture.New(endpointProto))
	st := "fresh"
	var l mangos.Listener
	var err error
	if started {
		st = "started"
		_, l, err = fixture.Listen(s, tr)
	} else {
		l, err = s.NewListener(fixture.Addr(tr), fixture.ListenOpts(tr))
	}
	if err != nil {
		return nil, err
	}
	return &object{kind: "listener", who: tr, state: st, keyID: "listener:" + tr, specs: listenerSpecs(tr), set: l.SetOption, get: l.GetOption}, nil
}

// ctorObject checks the option map of NewDialer / NewListener: "set" builds a new endpoint
// with {name: value} (plus what the transport needs) and closes it again.
func ctorObject(c *closer, tr string, listener bool) *object {
	s := c.sock(fixture.New(endpointProto))
	o := &object{who: tr, state: "fresh"}
	if listener {
		o.kind, o.keyID, o.specs = "newlistener", "listener:"+tr, listenerSpecs(tr)
		o.set = func(n string, v interface{}) error {
			opts := map[string]interface{}{}
			for k, x := range fixture.ListenOpts(tr) {
				opts[k] = x
			}
			opts[n] = v
			l, err := s.NewListener(fixture.Addr(tr), opts)
			if err == nil {
				if l == nil {
					return fmt.Errorf("NewListener returned (nil, nil)")
				}
				_ = l.Close()
			} else if l != nil {
				return fmt.Errorf("NewListener returned a listener together with %v", err)
			}
			return err
		}
		return o
	}
	o.kind, o.keyID, o.specs = "newdialer", "dialer:"+tr, dialerSpecs(tr, socketSpecs(endpointProto))
	o.set = func(n string, v interface{}) error {
		opts := map[string]interface{}{}
		for k, x := range fixture.DialOpts(tr) {
			opts[k] = x
		}
		opts[n] = v
		d, err := s.NewDialer(fixture.Addr(tr), opts)
		if err == nil {
			if d == nil {
				return fmt.Errorf("NewDialer returned (nil, nil)")
			}
			_ = d.Close()
		} else if d != nil {
			return fmt.Errorf("NewDialer returned a dialer together with %v", err)
		}
		return err
	}
	return o
}

// pipeObjects connects two sockets over tr and returns both pipes (listener side, dialer side).
func pipeObjects(c *closer, tr string) ([]*object, *fixture.Link, error) {
	l := c.sock(fixture.New(endpointProto))
	d := fixture.New(endpointProto)
	lk, err := fixture.Connect(l, d, tr)
	c.sock(d) // closed before l
	if err != nil {
		return nil, nil, err
	}
	var out []*object
	for i, pl := range [][]mangos.Pipe{lk.LE.PipeList(), lk.DE.PipeList()} {
		if len(pl) == 0 {
			return nil, nil, fmt.Errorf("no pipe on %s", tr)
		}
		side := []string{"listener-side", "dialer-side"}[i]
		p := pl[0]
		out = append(out, &object{kind: "pipe", who: tr, state: side, keyID: "pipe:" + tr, isPipe: true, get: p.GetOption})
	}
	return out, lk, nil
}

// ---------------------------------------------------------------------------
// TestC19OptionMatrix

// skipValue: shapes that are never generated.
func skipValue(sp *spec, name string, v val) bool {
	// absurd queue lengths (allocation size unspecified)
	return (name == oRQ || name == oWQ) && v.Typ == "int" && v.N > 65536
}

func runMatrixOn(r reporter, test string, o *object, names []string, pool []val) {
	for _, name := range names {
		sp := o.specs[name]
		// plain Get first (default value / availability)
		if o.get != nil && !(name == oWSHandler && o.kind == "listener" && o.state == "fresh") {
			checkGet(r, test, o, name)
			stats.Eval()
			stats.Class("get:" + o.kind)
			if sp == nil {
				stats.NonTrivial("get|" + o.label() + "|" + name)
			}
		}
		if o.set == nil {
			continue
		}
		for _, v := range pool {
			if skipValue(sp, name, v) {
				continue
			}
			if excludedSet(o, name, v) {
				continue
			}
			acc := checkSet(r, test, o, name, v)
			stats.Eval()
			stats.Class("set:" + o.kind)
			if acc {
				stats.Class("accepted")
				if o.get != nil {
					checkRoundTrip(r, test, o, name, v)
				}
			}
			if boundary(sp, v) || acc {
				stats.NonTrivial("set|" + o.label() + "|" + name + "|" + v.Desc)
			}
			if o.dead {
				return
			}
		}
	}
}

func TestC19OptionMatrix(t *testing.T) {
	if !shardOwns(0) {
		t.Skip("deterministic enumeration: runs in one shard only")
	}
	const test = "TestC19OptionMatrix"
	r := detReporter{t}
	pool := valuePool()
	nobj := 0
	run := func(o *object, err error, c *closer) {
		defer c.closeAll()
		if err != nil {
			t.Fatalf("harness: %v", err)
		}
		nobj++
		runMatrixOn(r, test, o, allNames, pool)
		stats.Sample(map[string]interface{}{"test": test, "object": o.label(), "names": len(allNames), "values": len(pool)})
	}
	for _, p := range fixture.Protos {
		for _, connected := range []bool{false, true} {
			c := &closer{}
			o, _, err := socketObject(c, p, connected)
			run(o, err, c)
			if p.Contexts {
				c = &closer{}
				o, err = contextObject(c, p, connected)
				run(o, err, c)
			}
		}
	}
	for _, tr := range fixture.Transports {
		for _, started := range []bool{false, true} {
			c := &closer{}
			o, err := dialerObject(c, tr, started)
			run(o, err, c)
			c = &closer{}
			o, err = listenerObject(c, tr, started)
			run(o, err, c)
		}
		for _, listener := range []bool{false, true} {
			c := &closer{}
			run(ctorObject(c, tr, listener), nil, c)
		}
		// pipes: only GetOption exists
		c := &closer{}
		objs, lk, err := pipeObjects(c, tr)
		if err != nil {
			t.Fatalf("harness: pipes over %s: %v", tr, err)
		}
		for _, o := range objs {
			nobj++
			checkPipe(r, test, o, tr)
		}
		if n := lk.LE.Detached() + lk.DE.Detached(); n != 0 {
			r.fail("C19:pipe-get-disconnects:"+tr, map[string]interface{}{"test": test, "transport": tr}, "reading pipe options over %s detached a pipe", tr)
		}
		c.closeAll()
	}
	stats.Extra("exhaustive_axis", fmt.Sprintf("%d objects (24 constructors fresh+connected, 5 context patterns, dialers/listeners/option maps/pipes of 6 transports) x %d names x %d boundary values", nobj, len(allNames), len(pool)))
}

// checkPipe: a pipe has only GetOption.  Unknown names give ErrBadOption or ErrBadProperty
// (the existing tests require the latter for stream and inproc pipes); the addresses are
// available on every pipe; TLS pipes expose the connection state.
func checkPipe(r reporter, test string, o *object, tr string) {
	mk := func(typ string, optional bool) *spec { return &spec{typ: typ, get: true, getOptional: optional} }
	o.specs = map[string]*spec{
		oLocal:  mk("addr", false),
		oRemote: mk("addr", false),
	}
	if tr == "tls+tcp" || tr == "wss" {
		o.specs[oTLSState] = mk("other", false)
	}
	// a pipe passes unknown names to its dialer/listener (and a dialer to its socket), which
	// we allow but do not require
	for n, sp := range dialerSpecs(tr, socketSpecs(endpointProto)) {
		if _, ok := o.specs[n]; !ok && (sp.get || sp.unspecified) {
			o.specs[n] = mk(sp.typ, true)
		}
	}
	for n, sp := range listenerSpecs(tr) {
		if _, ok := o.specs[n]; !ok && (sp.get || sp.unspecified) {
			o.specs[n] = mk(sp.typ, true)
		}
	}
	for _, n := range []string{oPeerPID, oPeerUID, oPeerGID, oPeerZone} {
		o.specs[n] = mk("int", true) // "only implemented for transports that support it"
	}
	o.specs[oHTTPReq] = mk("other", true)
	o.specs[oTLSState] = mk("other", o.specs[oTLSState] == nil)
	for _, name := range allNames {
		v, ok := checkGet(r, test, o, name)
		stats.Eval()
		stats.Class("get:pipe")
		stats.NonTrivial("get|" + o.label() + "|" + name)
		if ok && name == oTLSState {
			if _, is := v.(tls.ConnectionState); !is {
				r.fail("C19:get-type:"+o.keyID+":"+name, o.doc(test, name, nil), "%s GetOption(TLS-STATE) returned a %T, documented type is tls.ConnectionState", o.label(), v)
			}
		}
	}
}

// ---------------------------------------------------------------------------
// TestC19OptionSequence (rapid)

type objChoice struct {
	Kind    string `json:"kind"`
	Who     string `json:"who"`
	Started bool   `json:"started"`
}

func buildObject(c *closer, ch objChoice) (*object, error) {
	switch ch.Kind {
	case "socket":
		o, _, err := socketObject(c, fixture.ByName(ch.Who), ch.Started)
		return o, err
	case "context":
		return contextObject(c, fixture.ByName(ch.Who), ch.Started)
	case "dialer":
		return dialerObject(c, ch.Who, ch.Started)
	case "listener":
		return listenerObject(c, ch.Who, ch.Started)
	}
	return nil, fmt.Errorf("unknown kind %q", ch.Kind)
}

var ctxProtos = []string{"req", "rep", "sub", "surveyor", "respondent"}

func protoNames() []string {
	var n []string
	for _, p := range fixture.Protos {
		n = append(n, p.Name)
	}
	return n
}

func drawChoice(t *rapid.T) objChoice {
	ch := objChoice{Kind: rapid.SampledFrom([]string{"socket", "socket", "socket", "context", "context", "dialer", "listener"}).Draw(t, "kind")}
	switch ch.Kind {
	case "socket":
		ch.Who = rapid.SampledFrom(protoNames()).Draw(t, "proto")
		ch.Started = rapid.Bool().Draw(t, "connected")
	case "context":
		ch.Who = rapid.SampledFrom(ctxProtos).Draw(t, "proto")
		ch.Started = rapid.Bool().Draw(t, "connected")
	default:
		ch.Who = rapid.SampledFrom(fixture.Transports).Draw(t, "transport")
		ch.Started = rapid.IntRange(0, 3).Draw(t, "started") == 0
	}
	return ch
}

func supportedNames(specs map[string]*spec) []string {
	var n []string
	for k := range specs {
		n = append(n, k)
	}
	sort.Strings(n)
	return n
}

func drawName(t *rapid.T, o *object) string {
	sup := supportedNames(o.specs)
	switch k := rapid.IntRange(0, 9).Draw(t, "nameKind"); {
	case k <= 5 && len(sup) > 0:
		return rapid.SampledFrom(sup).Draw(t, "supported")
	case k <= 7:
		return rapid.SampledFrom(allNames).Draw(t, "known")
	case k == 8:
		// a near miss of a real name
		n := rapid.SampledFrom(documentedNames).Draw(t, "base")
		switch rapid.IntRange(0, 3).Draw(t, "mut") {
		case 0:
			return strings.ToLower(n)
		case 1:
			return n + rapid.StringN(1, 2, -1).Draw(t, "suffix")
		case 2:
			return n[:len(n)-1]
		}
		return " " + n
	}
	return rapid.String().Draw(t, "arbitrary")
}

func drawValue(t *rapid.T, sp *spec, name string, pool []val) val {
	if sp != nil && rapid.IntRange(0, 9).Draw(t, "typed") < 7 {
		switch sp.typ {
		case "int":
			if rapid.Bool().Draw(t, "rnd") {
				return intVal(rapid.IntRange(-3, 300).Draw(t, "int"))
			}
			return intVal(rapid.SampledFrom([]int{math.MinInt, -1, 0, 1, 2, 8, 128, 255, 256, 1024, 65536}).Draw(t, "intb"))
		case "dur":
			if rapid.Bool().Draw(t, "rnd") {
				return durVal(time.Duration(rapid.Int64Range(-5, int64(2*time.Hour)).Draw(t, "dur")))
			}
			return durVal(rapid.SampledFrom([]time.Duration{math.MinInt64, -time.Second, -1, 0, 1, time.Millisecond, time.Second, time.Hour, math.MaxInt64}).Draw(t, "durb"))
		case "bool":
			b := rapid.Bool().Draw(t, "bool")
			return val{b, "bool", fmt.Sprint(b), 0}
		case "bytes":
			b := rapid.SliceOfN(rapid.Byte(), 0, 4).Draw(t, "topic")
			return val{b, "bytes", fmt.Sprintf("[]byte(%q)", b), 0}
		}
	}
	v := rapid.SampledFrom(pool).Draw(t, "value")
	if skipValue(sp, name, v) {
		return intVal(65536)
	}
	return v
}

type seqOp struct {
	Op    string `json:"op"`
	Name  string `json:"name"`
	Value string `json:"value,omitempty"`
}

func TestC19OptionSequence(t *testing.T) {
	const test = "TestC19OptionSequence"
	pool := valuePool()
	rapid.Check(t, func(t *rapid.T) {
		ch := drawChoice(t)
		c := &closer{}
		defer c.closeAll()
		o, err := buildObject(c, ch)
		if err != nil {
			t.Fatalf("harness: %v", err)
		}
		var ops []seqOp
		base := map[string]interface{}{"test": test, "object": ch, "rseed": os.Getenv("VERIF_RSEED")}
		r := seqReporter{rapidReporter{t}, base, &ops}
		model := map[string]val{}
		nops := rapid.IntRange(1, 14).Draw(t, "nops")
		nontriv := false
		canon := o.label()
		for i := 0; i < nops && !o.dead; i++ {
			name := drawName(t, o)
			sp := o.specs[name]
			if rapid.IntRange(0, 3).Draw(t, "isGet") == 0 {
				ops = append(ops, seqOp{"get", name, ""})
				if name == oWSHandler && o.kind == "listener" {
					continue // documented side effect: marks the listener as externally served
				}
				got, ok := checkGet(r, test, o, name)
				if want, has := model[name]; ok && has && !equalOpt(got, want.V) {
					r.fail("C19:stale-get:"+o.keyID+":"+nameKey(name), nil, "%s GetOption(%q) = %v (%T) but the last accepted value was %s", o.label(), name, got, got, want)
				}
				canon += "|g:" + name
				stats.Eval()
				continue
			}
			v := drawValue(t, sp, name, pool)
			ops = append(ops, seqOp{"set", name, v.Desc})
			if excludedSet(o, name, v) {
				continue
			}
			acc := checkSet(r, test, o, name, v)
			stats.Eval()
			canon += "|s:" + name + "=" + valClass(v)
			if boundary(sp, v) {
				nontriv = true
			}
			if !acc {
				continue
			}
			nontriv = true
			if sp != nil && sp.get && !sp.noRoundTrip && !sp.unspecified {
				model[name] = v
			}
			// the two keep-alive options are views of one setting
			switch name {
			case oKA:
				delete(model, oKATime)
			case oKATime:
				delete(model, oKA)
			}
			checkRoundTrip(r, test, o, name, v)
		}
		// finally every remembered value must still be there: no option disturbs another
		if !o.dead {
			for _, name := range supportedNames(o.specs) {
				want, has := model[name]
				if !has {
					continue
				}
				ops = append(ops, seqOp{"get", name, ""})
				if got, ok := checkGet(r, test, o, name); ok && !equalOpt(got, want.V) {
					r.fail("C19:stale-get:"+o.keyID+":"+nameKey(name), nil, "%s GetOption(%q) = %v (%T) at the end, but the last accepted value was %s", o.label(), name, got, got, want)
				}
			}
		}
		stats.Class("seq:" + o.kind)
		if nontriv {
			stats.NonTrivial("seq|" + canon)
		}
		stats.Sample(map[string]interface{}{"test": test, "object": ch, "ops": ops})
	})
}

// seqReporter adds the operation history to every replay document.
type seqReporter struct {
	rapidReporter
	base map[string]interface{}
	ops  *[]seqOp
}

func (r seqReporter) fail(key string, _ interface{}, format string, a ...interface{}) {
	d := map[string]interface{}{}
	for k, v := range r.base {
		d[k] = v
	}
	d["ops"] = *r.ops
	r.rapidReporter.fail(key, d, "%s — history: %v", fmt.Sprintf(format, a...), *r.ops)
}

// ---------------------------------------------------------------------------
// collector: sub-cases that run concurrently report here; the first record is forwarded.

type failure struct {
	key  string
	doc  interface{}
	what string
}

type collector struct {
	mu    sync.Mutex
	fails []failure
	harn  []string
}

func (c *collector) fail(key string, doc interface{}, format string, a ...interface{}) {
	c.mu.Lock()
	c.fails = append(c.fails, failure{key, doc, fmt.Sprintf(format, a...)})
	c.mu.Unlock()
}
func (c *collector) harness(format string, a ...interface{}) {
	c.mu.Lock()
	c.harn = append(c.harn, fmt.Sprintf(format, a...))
	c.mu.Unlock()
}
func (c *collector) failed() bool {
	c.mu.Lock()
	defer c.mu.Unlock()
	return len(c.fails)+len(c.harn) > 0
}

// forward reports what was collected: violations first (sorted by key so that the outcome
// does not depend on goroutine scheduling), then harness trouble.
func (c *collector) forward(r reporter) {
	c.mu.Lock()
	fails := append([]failure(nil), c.fails...)
	harn := append([]string(nil), c.harn...)
	c.mu.Unlock()
	sort.SliceStable(fails, func(i, j int) bool { return fails[i].key < fails[j].key })
	for _, f := range fails {
		r.fail(f.key, f.doc, "%s", f.what)
	}
	if len(harn) > 0 {
		r.harness("%s", harn[0])
	}
}

// parallel runs the functions concurrently and waits for all of them.
func parallel(fs []func()) {
	var wg sync.WaitGroup
	for _, f := range fs {
		wg.Add(1)
		go func(f func()) { defer wg.Done(); f() }(f)
	}
	wg.Wait()
}

// mustSet sets an option that the table says is accepted; a refusal is a C19 violation.
func mustSet(r reporter, test string, o *object, name string, v val) bool {
	if excludedSet(o, name, v) {
		return false
	}
	return checkSet(r, test, o, name, v)
}

func sockObj(s mangos.Socket, proto, state string) *object {
	return &object{kind: "socket", who: proto, state: state, keyID: impl(proto), specs: socketSpecs(proto), set: s.SetOption, get: s.GetOption}
}

func ctxObj(c mangos.Context, proto, state string) *object {
	return &object{kind: "context", who: proto, state: state, keyID: impl(proto), specs: ctxSpecs(proto), set: c.SetOption, get: c.GetOption}
}

// ---------------------------------------------------------------------------
// TestC19Inheritance

func TestC19Inheritance(t *testing.T) {
	const test = "TestC19Inheritance"
	coreOpts := []string{oMaxRcv, oReconn, oMaxReconn, oAsynch}
	rapid.Check(t, func(t *rapid.T) {
		proto := rapid.SampledFrom(protoNames()).Draw(t, "proto")
		pre := rapid.SliceOfNDistinct(rapid.SampledFrom(fixture.Transports), 0, 3, func(s string) string { return s }).Draw(t, "pre")
		post := rapid.SliceOfNDistinct(rapid.SampledFrom(fixture.Transports), 1, 3, func(s string) string { return s }).Draw(t, "post")
		vals := map[string]val{
			oMaxRcv:    intVal(rapid.SampledFrom([]int{0, 1, 1024, 12345, 65536, math.MaxInt32}).Draw(t, "maxrcv")),
			oReconn:    durVal(rapid.SampledFrom([]time.Duration{0, time.Millisecond, 250 * time.Millisecond, time.Second, time.Hour}).Draw(t, "reconn")),
			oMaxReconn: durVal(rapid.SampledFrom([]time.Duration{0, time.Millisecond, 250 * time.Millisecond, time.Second, time.Hour}).Draw(t, "maxreconn")),
		}
		asynch := rapid.Bool().Draw(t, "asynch")
		vals[oAsynch] = val{asynch, "bool", fmt.Sprint(asynch), 0}
		chosen := rapid.SliceOfNDistinct(rapid.SampledFrom(coreOpts), 1, 4, func(s string) string { return s }).Draw(t, "chosen")
		pipeTr := ""
		if rapid.IntRange(0, 2).Draw(t, "withPipe") == 0 {
			pipeTr = rapid.SampledFrom(fixture.Transports).Draw(t, "pipeTr")
		}
		ctxVals := map[string]val{}
		for _, n := range ctxInherits[proto] {
			if !rapid.Bool().Draw(t, "ctxset:"+n) {
				continue
			}
			switch baseSpec(n).typ {
			case "dur":
				ds := []time.Duration{time.Millisecond, time.Second, time.Hour}
				if proto != "respondent" {
					ds = append(ds, 0)
				}
				ctxVals[n] = durVal(rapid.SampledFrom(ds).Draw(t, "ctxdur:"+n))
			case "bool":
				b := rapid.Bool().Draw(t, "ctxbool:"+n)
				ctxVals[n] = val{b, "bool", fmt.Sprint(b), 0}
			case "int":
				ctxVals[n] = intVal(rapid.SampledFrom([]int{0, 1, 2, 16, 1000}).Draw(t, "ctxint:"+n))
			}
		}
		desc := map[string]string{}
		for _, n := range chosen {
			desc[n] = vals[n].Desc
		}
		for n, v := range ctxVals {
			desc["ctx:"+n] = v.Desc
		}
		doc := map[string]interface{}{"test": test, "proto": proto, "pre": pre, "post": post, "set": desc, "pipe_transport": pipeTr, "rseed": os.Getenv("VERIF_RSEED")}
		r := rapidReporter{t}

		c := &closer{}
		defer c.closeAll()
		s := c.sock(fixture.New(proto))
		so := sockObj(s, proto, "fresh")
		type ep struct {
			tr, when string
			d        mangos.Dialer
			l        mangos.Listener
		}
		var eps []ep
		mk := func(trs []string, when string) {
			for _, tr := range trs {
				d, err := s.NewDialer(fixture.Addr(tr), fixture.DialOpts(tr))
				if err != nil {
					t.Fatalf("harness: NewDialer %s: %v", tr, err)
				}
				l, err := s.NewListener(fixture.Addr(tr), fixture.ListenOpts(tr))
				if err != nil {
					t.Fatalf("harness: NewListener %s: %v", tr, err)
				}
				eps = append(eps, ep{tr, when, d, l})
			}
		}
		mk(pre, "existing")
		for _, n := range chosen {
			if !mustSet(r, test, so, n, vals[n]) {
				return
			}
		}
		for n, v := range ctxVals {
			if !mustSet(r, test, so, n, v) {
				return
			}
		}
		mk(post, "later")
		// expected values: what the socket itself reports (and for chosen options what was set)
		want := map[string]interface{}{}
		for _, n := range coreOpts {
			got, ok := checkGet(r, test, so, n)
			if !ok {
				t.Fatalf("harness: socket %s GetOption(%s) failed", proto, n)
			}
			want[n] = got
		}
		for _, n := range chosen {
			if !equalOpt(want[n], vals[n].V) {
				r.fail("C19:roundtrip:"+so.keyID+":"+n, doc, "%s SetOption(%q,%s) accepted but GetOption returns %v", proto, n, vals[n], want[n])
			}
		}
		for _, e := range eps {
			for _, n := range coreOpts {
				res := guard(func() (interface{}, error) { return e.d.GetOption(n) })
				if res.hung || res.pan != nil {
					r.fail("C19:panic-get:dialer:"+e.tr+":"+n, doc, "dialer(%s).GetOption(%q) panicked or hung: %v", e.tr, n, res.pan)
				} else if res.err != nil || !equalOpt(res.val, want[n]) {
					r.fail("C19:inherit:dialer:"+n+":"+e.when, doc, "%s socket has %s=%v but its %s %s dialer reports (%v, %s)", proto, n, want[n], e.when, e.tr, res.val, errName(res.err))
				}
			}
			res := guard(func() (interface{}, error) { return e.l.GetOption(oMaxRcv) })
			switch {
			case res.hung || res.pan != nil:
				r.fail("C19:panic-get:listener:"+e.tr+":"+oMaxRcv, doc, "listener(%s).GetOption(MAX-RCV-SIZE) panicked or hung: %v", e.tr, res.pan)
			case res.err != nil && (e.tr != "inproc" || res.err != mangos.ErrBadOption):
				r.fail("C19:inherit:listener:"+oMaxRcv+":"+e.when, doc, "%s %s listener GetOption(MAX-RCV-SIZE) = %s", e.when, e.tr, errName(res.err))
			case res.err == nil && !equalOpt(res.val, want[oMaxRcv]):
				r.fail("C19:inherit:listener:"+oMaxRcv+":"+e.when, doc, "%s socket has MAX-RCV-SIZE=%v but its %s %s listener reports %v", proto, want[oMaxRcv], e.when, e.tr, res.val)
			}
		}
		stats.Eval()
		stats.Class("inherit:endpoints")
		// contexts
		if names := ctxInherits[proto]; len(names) > 0 {
			ctx, err := s.OpenContext()
			if err != nil {
				t.Fatalf("harness: OpenContext: %v", err)
			}
			co := ctxObj(ctx, proto, "fresh")
			for _, n := range names {
				sv, ok1 := checkGet(r, test, so, n)
				cv, ok2 := checkGet(r, test, co, n)
				if ok1 && ok2 && !equalOpt(sv, cv) {
					r.fail("C19:inherit:context:"+proto+":"+n, doc, "%s socket has %s=%v but a context opened afterwards has %v", proto, n, sv, cv)
				}
				if v, set := ctxVals[n]; set && ok2 && !equalOpt(cv, v.V) {
					r.fail("C19:inherit:context:"+proto+":"+n, doc, "%s socket SetOption(%q,%s) accepted but a context opened afterwards has %v", proto, n, v, cv)
				}
			}
			stats.Class("inherit:context")
			_ = ctx.Close()
		}
		// pipes: the receive limit travels from the socket through the endpoint to the pipe
		if pipeTr != "" {
			pp := fixture.ByName(proto)
			peer := fixture.New(pp.PeerName)
			var lk *fixture.Link
			var err error
			sIsListener := rapid.Bool().Draw(t, "sListens")
			if sIsListener {
				lk, err = fixture.Connect(s, peer, pipeTr)
			} else {
				lk, err = fixture.Connect(peer, s, pipeTr)
			}
			c.add(func() { _ = peer.Close() })
			if err != nil {
				t.Fatalf("harness: connect over %s: %v", pipeTr, err)
			}
			ev := lk.DE
			if sIsListener {
				ev = lk.LE
			}
			for _, p := range ev.PipeList() {
				res := guard(func() (interface{}, error) { return p.GetOption(oMaxRcv) })
				if res.hung || res.pan != nil {
					r.fail("C19:panic-get:pipe:"+pipeTr+":"+oMaxRcv, doc, "pipe(%s).GetOption(MAX-RCV-SIZE) panicked or hung: %v", pipeTr, res.pan)
				} else if res.err == nil && !equalOpt(res.val, want[oMaxRcv]) {
					r.fail("C19:inherit:pipe:"+oMaxRcv, doc, "%s socket has MAX-RCV-SIZE=%v but its %s pipe reports %v", proto, want[oMaxRcv], pipeTr, res.val)
				} else if res.err != nil && res.err != mangos.ErrBadOption && res.err != mangos.ErrBadProperty {
					r.fail("C19:get-result:pipe:"+pipeTr+":"+oMaxRcv, doc, "pipe(%s).GetOption(MAX-RCV-SIZE) = %s", pipeTr, errName(res.err))
				}
			}
			stats.Class("inherit:pipe")
		}
		stats.NonTrivial(fmt.Sprintf("inherit|%s|%v|%v|%v|%s", proto, pre, post, desc, pipeTr))
		stats.Sample(doc)
	})
}

// ---------------------------------------------------------------------------
// raw-aware send/receive helpers

type endp struct {
	s       mangos.Socket
	proto   string
	raw     bool
	seq     uint32
	lastHdr []byte // header of the last message received (raw repliers answer with it)
}

func newEndp(s mangos.Socket, proto string) *endp {
	return &endp{s: s, proto: proto, raw: fixture.ByName(proto).Raw}
}

func family(proto string) string {
	switch impl(proto) {
	case "xpair":
		return "pair"
	case "xpair1":
		return "pair1"
	case "xbus":
		return "bus"
	case "xstar":
		return "star"
	case "xpub", "xsub", "sub":
		return "pubsub"
	case "xpush", "xpull":
		return "pipeline"
	case "req", "xreq", "rep", "xrep":
		return "reqrep"
	}
	return "survey"
}

// role: peer (symmetric), src, sink, asker, answerer.
func role(proto string) string {
	switch proto {
	case "pub", "xpub", "push", "xpush":
		return "src"
	case "sub", "xsub", "pull", "xpull":
		return "sink"
	case "req", "xreq", "surveyor", "xsurveyor":
		return "asker"
	case "rep", "xrep", "respondent", "xrespondent":
		return "answerer"
	}
	return "peer"
}

// cookedPeer is the cooked constructor that talks to proto.
func cookedPeer(proto string) string {
	p := fixture.ByName(proto).PeerName
	return strings.TrimPrefix(p, "x")
}

func (e *endp) header() []byte {
	switch e.proto {
	case "xpair1", "xstar":
		return []byte{0, 0, 0, 0}
	case "xreq", "xsurveyor":
		e.seq++
		b := make([]byte, 4)
		binary.BigEndian.PutUint32(b, 0x80000000|e.seq)
		return b
	case "xrep", "xrespondent":
		return e.lastHdr
	}
	return nil
}

// send transmits body; it never blocks longer than lim (a stalled send is reported as an error).
func (e *endp) send(body []byte, lim time.Duration) error {
	var err error
	ok := fixture.Within(lim, func() {
		if !e.raw {
			err = e.s.Send(body)
			return
		}
		m := mangos.NewMessage(len(body))
		m.Body = append(m.Body, body...)
		m.Header = append(m.Header, e.header()...)
		if err = e.s.SendMsg(m); err != nil {
			m.Free()
		}
	})
	if !ok {
		return fmt.Errorf("send stalled for %v", lim)
	}
	return err
}

func (e *endp) recv(lim time.Duration) ([]byte, error) {
	var b []byte
	var err error
	ok := fixture.Within(lim, func() {
		if !e.raw {
			b, err = e.s.Recv()
			return
		}
		var m *mangos.Message
		if m, err = e.s.RecvMsg(); err == nil {
			b = append([]byte(nil), m.Body...)
			e.lastHdr = append([]byte(nil), m.Header...)
			m.Free()
		}
	})
	if !ok {
		return nil, fmt.Errorf("recv stalled for %v", lim)
	}
	return b, err
}

// setDeadlines sets RECV/SEND deadlines where the socket has them (errors ignored on purpose:
// not every pattern has both).
func (e *endp) setDeadlines(rd, sd time.Duration) {
	_ = e.s.SetOption(oRD, rd)
	_ = e.s.SetOption(oSD, sd)
}

// recvUntil receives until body want shows up.
func (e *endp) recvUntil(want []byte, max int) bool {
	for i := 0; i < max; i++ {
		b, err := e.recv(3 * time.Second)
		if err != nil {
			return false
		}
		if bytes.Equal(b, want) {
			return true
		}
	}
	return false
}

func (e *endp) drain() {
	for i := 0; i < 2000; i++ {
		if _, err := e.recv(2 * time.Second); err != nil {
			return
		}
	}
}

// deliver sends tagged messages from a to b until one arrives (patterns are best effort).
func deliver(a, b *endp, tag string) bool {
	for i := 0; i < 5; i++ {
		m := []byte(fmt.Sprintf("%s-%d", tag, i))
		if err := a.send(m, 3*time.Second); err != nil {
			continue
		}
		if b.recvUntil(m, 600) {
			return true
		}
	}
	return false
}

// roundTrip: asker -> answerer -> asker.
func roundTrip(asker, answerer *endp, tag string) bool {
	for i := 0; i < 5; i++ {
		q := []byte(fmt.Sprintf("%s-q%d", tag, i))
		a := []byte(fmt.Sprintf("%s-a%d", tag, i))
		if err := asker.send(q, 3*time.Second); err != nil {
			continue
		}
		if !answerer.recvUntil(q, 600) {
			continue
		}
		if err := answerer.send(a, 3*time.Second); err != nil {
			continue
		}
		if asker.recvUntil(a, 600) {
			return true
		}
	}
	return false
}

// alive checks that the link between x and y still carries messages in every direction the
// pattern has.
func alive(x, y *endp, tag string) (bool, string) {
	switch role(x.proto) {
	case "peer":
		if !deliver(x, y, tag+"-fw") {
			return false, x.proto + " -> " + y.proto
		}
		if !deliver(y, x, tag+"-bw") {
			return false, y.proto + " -> " + x.proto
		}
	case "src":
		if !deliver(x, y, tag) {
			return false, x.proto + " -> " + y.proto
		}
	case "sink":
		if !deliver(y, x, tag) {
			return false, y.proto + " -> " + x.proto
		}
	case "asker":
		if !roundTrip(x, y, tag) {
			return false, "round trip " + x.proto + " -> " + y.proto + " -> " + x.proto
		}
	case "answerer":
		if !roundTrip(y, x, tag) {
			return false, "round trip " + y.proto + " -> " + x.proto + " -> " + y.proto
		}
	}
	return true, ""
}

// wireIn: transport-level bytes that proto's receiver accepts and queues for the application.
func wireIn(proto string, seq uint32, body []byte) []byte {
	switch impl(proto) {
	case "xpair1", "xstar":
		return append([]byte{0, 0, 0, 0}, body...)
	case "xrep", "rep", "xrespondent", "respondent", "xreq", "xsurveyor":
		h := make([]byte, 4)
		binary.BigEndian.PutUint32(h, 0x80000000|seq)
		return append(h, body...)
	}
	return body
}

func hasOpt(proto, name string) bool {
	sp := socketSpecs(proto)[name]
	return sp != nil && sp.set && !sp.unspecified
}

// ---------------------------------------------------------------------------
// TestC19ZeroMeansNoLimit

type zeroCase struct {
	Kind  string `json:"kind"` // recv | send | retry | survey
	Proto string `json:"proto"`
	Ctx   bool   `json:"context"`
	Prior string `json:"prior"` // none | pos | neg
}

const stillBlocked = 150 * time.Millisecond

// blockedThenClosed starts op, requires it to be still running after 150 ms, then calls
// unblock and requires op to finish.
func blockedThenClosed(r reporter, doc interface{}, keyBase, what string, op func() error, unblock func()) {
	done := make(chan error, 1)
	go func() { done <- op() }()
	select {
	case err := <-done:
		r.fail("C19:zero-deadline-expires:"+keyBase, doc, "%s with a zero deadline (documented: no timeout) returned after less than %v with %s", what, stillBlocked, errName(err))
		unblock()
		return
	case <-time.After(stillBlocked):
	}
	unblock()
	select {
	case <-done:
	case <-time.After(8 * time.Second):
		r.fail("C19:zero-deadline-stuck:"+keyBase, doc, "%s with a zero deadline did not return within 8 s after the socket was closed", what)
	}
}

type optTarget interface {
	SetOption(string, interface{}) error
	GetOption(string) (interface{}, error)
}

func runZeroCase(r reporter, test string, zc zeroCase) {
	doc := map[string]interface{}{"test": test, "case": zc, "rseed": os.Getenv("VERIF_RSEED")}
	c := &closer{}
	defer c.closeAll()
	s := fixture.New(zc.Proto)
	var sOnce sync.Once
	closeS := func() { sOnce.Do(func() { fixture.Within(5*time.Second, func() { _ = s.Close() }) }) }
	defer closeS()
	e := newEndp(s, zc.Proto)
	var tgt optTarget = s
	o := sockObj(s, zc.Proto, "fresh")
	sendF := func(b []byte) error { return e.send(b, time.Hour) }
	recvF := func() error { _, err := e.recv(time.Hour); return err }
	if zc.Ctx {
		ctx, err := s.OpenContext()
		if err != nil {
			r.harness("OpenContext %s: %v", zc.Proto, err)
			return
		}
		tgt = ctx
		o = ctxObj(ctx, zc.Proto, "fresh")
		sendF = ctx.Send
		recvF = func() error { _, err := ctx.Recv(); return err }
	}
	keyBase := impl(zc.Proto)
	setPrior := func(name string, pos time.Duration) bool {
		switch zc.Prior {
		case "pos":
			return mustSet(r, test, o, name, durVal(pos))
		case "neg":
			// accepted or refused, both fine here
			_ = guardErr(func() error { return tgt.SetOption(name, time.Duration(-1)) })
		}
		return true
	}
	setZero := func(name string) bool {
		if excludedSet(o, name, durVal(0)) {
			return false
		}
		if !checkSet(r, test, o, name, durVal(0)) {
			stats.Class("zero-refused:" + name)
			return false
		}
		checkRoundTrip(r, test, o, name, durVal(0))
		return true
	}
	switch zc.Kind {
	case "recv":
		// make a Recv that has something to wait for
		switch zc.Proto {
		case "req":
			peer := c.sock(fixture.New("rep"))
			if _, err := fixture.Connect(peer, s, "inproc"); err != nil {
				r.harness("connect: %v", err)
				return
			}
			if err := sendF([]byte("q")); err != nil {
				r.harness("req send: %v", err)
				return
			}
		case "surveyor":
			if err := tgt.SetOption(oSurvey, time.Hour); err != nil {
				r.harness("survey time: %v", err)
				return
			}
			if err := sendF([]byte("s")); err != nil {
				r.harness("survey send: %v", err)
				return
			}
		}
		if zc.Prior == "pos" {
			if !setPrior(oRD, 30*time.Millisecond) {
				return
			}
			var err error
			if !fixture.Within(5*time.Second, func() { err = recvF() }) || err != mangos.ErrRecvTimeout {
				r.fail("C19:deadline-no-effect:RECV-DEADLINE:"+keyBase, doc, "%s Recv with RECV-DEADLINE=30ms and nothing to receive returned %s (want ErrRecvTimeout within 5 s)", zc.Proto, errName(err))
				return
			}
			if zc.Proto == "req" {
				// the timed-out Recv gave up the request: ask again so that the next Recv has something to wait for
				if err := sendF([]byte("q2")); err != nil {
					r.harness("req send: %v", err)
					return
				}
			}
		} else if !setPrior(oRD, 0) {
			return
		}
		if !setZero(oRD) {
			return
		}
		blockedThenClosed(r, doc, "RECV-DEADLINE:"+keyBase, zc.Proto+" Recv", recvF, closeS)
	case "send":
		if hasOpt(zc.Proto, oWQ) {
			if !mustSet(r, test, sockObj(s, zc.Proto, "fresh"), oWQ, intVal(1)) {
				return
			}
		}
		// find out (with a small positive deadline) that a Send blocks in this configuration
		if err := tgt.SetOption(oSD, 30*time.Millisecond); err != nil {
			r.harness("%s SetOption(SEND-DEADLINE,30ms): %v", zc.Proto, err)
			return
		}
		blocks := false
		for i := 0; i < 4 && !blocks; i++ {
			var err error
			if !fixture.Within(5*time.Second, func() { err = sendF([]byte("fill")) }) {
				r.fail("C19:deadline-no-effect:SEND-DEADLINE:"+keyBase, doc, "%s Send with SEND-DEADLINE=30ms did not return within 5 s", zc.Proto)
				return
			}
			blocks = err == mangos.ErrSendTimeout
		}
		if !blocks {
			stats.Class("send-never-blocks:" + zc.Proto)
			return
		}
		if zc.Prior != "pos" && !setPrior(oSD, 0) {
			return
		}
		if !setZero(oSD) {
			return
		}
		blockedThenClosed(r, doc, "SEND-DEADLINE:"+keyBase, zc.Proto+" Send (queue full, no peer)", func() error { return sendF([]byte("blocked")) }, closeS)
	case "retry":
		peer := c.sock(fixture.New("xrep"))
		pe := newEndp(peer, "xrep")
		if _, err := fixture.Connect(peer, s, "inproc"); err != nil {
			r.harness("connect: %v", err)
			return
		}
		_ = peer.SetOption(oRD, 50*time.Millisecond)
		count := func(body string, first, window time.Duration) int {
			n := 0
			deadline := time.Now().Add(first)
			for time.Now().Before(deadline) {
				b, err := pe.recv(2 * time.Second)
				if err == nil && string(b) == body {
					if n++; n == 1 {
						deadline = time.Now().Add(window)
					}
				}
			}
			return n
		}
		if zc.Prior == "pos" {
			if !setPrior(oRetry, 40*time.Millisecond) {
				return
			}
			if err := sendF([]byte("r1")); err != nil {
				r.harness("req send: %v", err)
				return
			}
			if n := count("r1", 3*time.Second, 600*time.Millisecond); n < 2 {
				r.fail("C19:retry-time-no-effect:"+keyBase, doc, "req with RETRY-TIME=40ms: the unanswered request reached the peer %d time(s) in 600 ms, want a resend", n)
				return
			}
		} else if !setPrior(oRetry, 0) {
			return
		}
		if !setZero(oRetry) {
			return
		}
		if err := sendF([]byte("r2")); err != nil {
			r.harness("req send: %v", err)
			return
		}
		n := count("r2", 3*time.Second, 300*time.Millisecond)
		if n == 0 {
			r.harness("request never reached the xrep peer")
			return
		}
		if n != 1 {
			r.fail("C19:zero-retry-time-resends:"+keyBase, doc, "req with RETRY-TIME=0 (documented: no automatic retries): the unanswered request reached the peer %d times within 300 ms", n)
		}
	case "survey":
		peer := c.sock(fixture.New("respondent"))
		if _, err := fixture.Connect(peer, s, "inproc"); err != nil {
			r.harness("connect: %v", err)
			return
		}
		_ = peer.SetOption(oRD, 3*time.Second)
		if zc.Prior == "pos" {
			if !setPrior(oSurvey, 30*time.Millisecond) {
				return
			}
		} else if !setPrior(oSurvey, 0) {
			return
		}
		if !setZero(oSurvey) {
			return
		}
		if err := tgt.SetOption(oRD, 5*time.Second); err != nil {
			r.harness("surveyor RECV-DEADLINE: %v", err)
			return
		}
		if err := sendF([]byte("s")); err != nil {
			r.harness("survey send: %v", err)
			return
		}
		if b, err := peer.Recv(); err != nil || string(b) != "s" {
			r.harness("respondent did not get the survey: %v", err)
			return
		}
		time.Sleep(stillBlocked)
		if err := peer.Send([]byte("a")); err != nil {
			r.harness("respondent send: %v", err)
			return
		}
		var got []byte
		var err error
		if zc.Ctx {
			got, err = tgt.(mangos.Context).Recv()
		} else {
			got, err = s.Recv()
		}
		if err != nil || string(got) != "a" {
			r.fail("C19:zero-survey-time-expires:"+keyBase, doc, "surveyor with SURVEY-TIME=0 (documented: infinite): a response sent %v after the survey was not received: (%q, %s)", stillBlocked, got, errName(err))
		}
	}
	stats.Eval()
	stats.Class("zero:" + zc.Kind)
	stats.NonTrivial(fmt.Sprintf("zero|%s|%s|%v|%s", zc.Kind, zc.Proto, zc.Ctx, zc.Prior))
}

var (
	zeroRecvProtos = []string{"pair", "xpair", "pair1", "xpair1", "sub", "xsub", "req", "xreq", "rep", "xrep", "pull", "xpull", "surveyor", "xsurveyor", "respondent", "xrespondent", "bus", "xbus", "star", "xstar"}
	zeroSendProtos = []string{"pair", "xpair", "pair1", "xpair1", "req", "xreq", "push", "xpush"}
)

func drawZeroCase(t *rapid.T, i int) zeroCase {
	lbl := fmt.Sprintf("#%d", i)
	zc := zeroCase{Kind: rapid.SampledFrom([]string{"recv", "recv", "recv", "send", "send", "retry", "survey"}).Draw(t, "kind"+lbl)}
	zc.Prior = rapid.SampledFrom([]string{"none", "pos", "neg"}).Draw(t, "prior"+lbl)
	switch zc.Kind {
	case "recv":
		zc.Proto = rapid.SampledFrom(zeroRecvProtos).Draw(t, "proto"+lbl)
	case "send":
		zc.Proto = rapid.SampledFrom(zeroSendProtos).Draw(t, "proto"+lbl)
	case "retry":
		zc.Proto = "req"
	case "survey":
		zc.Proto = "surveyor"
	}
	if fixture.ByName(zc.Proto).Contexts {
		zc.Ctx = rapid.Bool().Draw(t, "ctx"+lbl)
	}
	return zc
}

func TestC19ZeroMeansNoLimit(t *testing.T) {
	const test = "TestC19ZeroMeansNoLimit"
	stats.ScaledChecks(12, 6, func() {
		rapid.Check(t, func(t *rapid.T) {
			n := rapid.IntRange(3, 6).Draw(t, "batch")
			col := &collector{}
			var fs []func()
			var cases []zeroCase
			for i := 0; i < n; i++ {
				zc := drawZeroCase(t, i)
				cases = append(cases, zc)
				fs = append(fs, func() { runZeroCase(col, test, zc) })
			}
			parallel(fs)
			col.forward(rapidReporter{t})
			stats.Sample(map[string]interface{}{"test": test, "cases": cases})
		})
	})
}

// ---------------------------------------------------------------------------
// TestC19NegativeDeadline: options.go: "A negative value indicates a non-blocking operation."

func TestC19NegativeDeadline(t *testing.T) {
	if !shardOwns(1) {
		t.Skip("deterministic enumeration: runs in one shard only")
	}
	const test = "TestC19NegativeDeadline"
	col := &collector{}
	var fs []func()
	const limit = 1500 * time.Millisecond
	recvKey, sendKey := "C19:negative-deadline-blocks:RECV-DEADLINE", "C19:negative-deadline-blocks:SEND-DEADLINE"
	for _, proto := range zeroRecvProtos {
		proto := proto
		if stats.Known(recvKey) {
			stats.Excluded(recvKey)
			break
		}
		fs = append(fs, func() {
			s := fixture.New(proto)
			defer fixture.Within(5*time.Second, func() { _ = s.Close() })
			o := sockObj(s, proto, "fresh")
			if !checkSet(col, test, o, oRD, durVal(-1)) {
				return // refused (rep, respondent): nothing to observe
			}
			doc := map[string]interface{}{"test": test, "proto": proto, "option": oRD, "value": -1}
			e := newEndp(s, proto)
			var err error
			if !fixture.Within(limit, func() { _, err = e.recv(time.Hour) }) {
				col.fail(recvKey, doc, "%s accepted RECV-DEADLINE=-1 (documented: non-blocking operation) but Recv with nothing to receive was still blocked after %v", proto, limit)
			} else if err == nil {
				col.fail(recvKey, doc, "%s Recv with nothing to receive returned nil", proto)
			}
			stats.Eval()
			stats.Class("negative:recv")
			stats.NonTrivial("negative|recv|" + proto)
		})
	}
	for _, proto := range zeroSendProtos {
		proto := proto
		if stats.Known(sendKey) {
			stats.Excluded(sendKey)
			break
		}
		fs = append(fs, func() {
			s := fixture.New(proto)
			defer fixture.Within(5*time.Second, func() { _ = s.Close() })
			o := sockObj(s, proto, "fresh")
			e := newEndp(s, proto)
			if hasOpt(proto, oWQ) && !checkSet(col, test, o, oWQ, intVal(1)) {
				return
			}
			if err := s.SetOption(oSD, 30*time.Millisecond); err != nil {
				col.harness("%s SetOption(SEND-DEADLINE): %v", proto, err)
				return
			}
			blocks := false
			for i := 0; i < 4 && !blocks; i++ {
				blocks = e.send([]byte("fill"), 5*time.Second) == mangos.ErrSendTimeout
			}
			if !blocks {
				return
			}
			if !checkSet(col, test, o, oSD, durVal(-1)) {
				return
			}
			doc := map[string]interface{}{"test": test, "proto": proto, "option": oSD, "value": -1}
			if err := e.send([]byte("x"), limit); err != nil && strings.Contains(err.Error(), "stalled") {
				col.fail(sendKey, doc, "%s accepted SEND-DEADLINE=-1 (documented: non-blocking operation) but Send on a full queue without a peer was still blocked after %v", proto, limit)
			}
			stats.Eval()
			stats.Class("negative:send")
			stats.NonTrivial("negative|send|" + proto)
		})
	}
	parallel(fs)
	col.forward(detReporter{t})
}

// ---------------------------------------------------------------------------
// TestC19QueueAdmits: an accepted queue length n admits n queued messages.

func TestC19QueueAdmits(t *testing.T) {
	if !shardOwns(2) {
		t.Skip("deterministic enumeration: runs in one shard only")
	}
	const test = "TestC19QueueAdmits"
	col := &collector{}
	var fs []func()
	// WRITEQ-LEN: no peer, n sends complete
	for _, proto := range []string{"pair", "xpair", "pair1", "xpair1", "xreq", "push", "xpush"} {
		for _, n := range []int{1, 2, 16, 128} {
			proto, n := proto, n
			fs = append(fs, func() {
				s := fixture.New(proto)
				defer fixture.Within(5*time.Second, func() { _ = s.Close() })
				o := sockObj(s, proto, "fresh")
				doc := map[string]interface{}{"test": test, "proto": proto, "option": oWQ, "n": n}
				if !mustSet(col, test, o, oWQ, intVal(n)) {
					return
				}
				checkRoundTrip(col, test, o, oWQ, intVal(n))
				_ = s.SetOption(oSD, 3*time.Second)
				e := newEndp(s, proto)
				for i := 0; i < n; i++ {
					if err := e.send([]byte{byte(i)}, 6*time.Second); err != nil {
						col.fail("C19:queue-admits:WRITEQ-LEN:"+impl(proto), doc, "%s with WRITEQ-LEN=%d and no peer: Send number %d of %d failed with %v; a queue of %d messages must admit %d", proto, n, i+1, n, err, n, n)
						return
					}
				}
				stats.Eval()
				stats.Class("admits:write")
				stats.NonTrivial(fmt.Sprintf("admits|w|%s|%d", proto, n))
			})
		}
	}
	// READQ-LEN: a scripted peer hands over n messages while nobody receives
	for _, proto := range []string{"pair", "xpair", "pair1", "xpair1", "pull", "xpull", "bus", "xbus", "star", "xstar", "sub", "xsub", "xrep", "xrespondent", "respondent", "xreq", "xsurveyor"} {
		for _, n := range []int{1, 2, 16} {
			proto, n := proto, n
			fs = append(fs, func() {
				s := fixture.New(proto)
				defer fixture.Within(5*time.Second, func() { _ = s.Close() })
				o := sockObj(s, proto, "fresh")
				doc := map[string]interface{}{"test": test, "proto": proto, "option": oRQ, "n": n}
				if !mustSet(col, test, o, oRQ, intVal(n)) {
					return
				}
				if proto == "sub" {
					if !mustSet(col, test, o, oSub, val{[]byte{}, "bytes", "[]byte{}", 0}) {
						return
					}
				}
				ep, err := vt.Attach(s)
				if err != nil {
					col.harness("vt attach: %v", err)
					return
				}
				defer ep.Forget()
				p, ok := ep.ConnectWait(5 * time.Second)
				if !ok {
					col.harness("vt pipe not read by %s", proto)
					return
				}
				for i := 0; i < n; i++ {
					if p.Handoff(wireIn(proto, uint32(i+1), []byte{byte('a' + i)}), 5*time.Second) == vt.InjNotTaken {
						col.fail("C19:queue-admits:READQ-LEN:"+impl(proto), doc, "%s with READQ-LEN=%d and no Recv pending: message %d of %d was not taken from the pipe within 5 s", proto, n, i+1, n)
						return
					}
				}
				_ = s.SetOption(oRD, 3*time.Second)
				e := newEndp(s, proto)
				for i := 0; i < n; i++ {
					b, err := e.recv(6 * time.Second)
					if err != nil {
						col.fail("C19:queue-admits:READQ-LEN:"+impl(proto), doc, "%s with READQ-LEN=%d: after %d messages arrived with no Recv pending, Recv number %d failed with %v", proto, n, n, i+1, err)
						return
					}
					if len(b) != 1 || b[0] != byte('a'+i) {
						col.fail("C19:queue-admits:READQ-LEN:"+impl(proto), doc, "%s with READQ-LEN=%d: Recv number %d returned %q, want %q", proto, n, i+1, b, []byte{byte('a' + i)})
						return
					}
				}
				stats.Eval()
				stats.Class("admits:read")
				stats.NonTrivial(fmt.Sprintf("admits|r|%s|%d", proto, n))
			})
		}
	}
	parallel(fs)
	col.forward(detReporter{t})
}

// ---------------------------------------------------------------------------
// queue resize: "changing a queue length never disconnects a peer"

type resizeCase struct {
	Proto   string `json:"proto"`
	Option  string `json:"option"`
	Initial int    `json:"initial"`
	N       int    `json:"n"`
	Traffic bool   `json:"traffic"`
	SDials  bool   `json:"s_dials,omitempty"`
}

var resizeNs = []int{0, 1, 2, 16, 128}

func qlenProtos(option string) []string {
	var out []string
	for _, p := range fixture.Protos {
		if hasOpt(p.Name, option) {
			out = append(out, p.Name)
		}
	}
	return out
}

func drawResizeCase(t *rapid.T, i int) resizeCase {
	lbl := fmt.Sprintf("#%d", i)
	rc := resizeCase{Option: rapid.SampledFrom([]string{oRQ, oRQ, oWQ}).Draw(t, "option"+lbl)}
	rc.Proto = rapid.SampledFrom(qlenProtos(rc.Option)).Draw(t, "proto"+lbl)
	rc.Initial = rapid.SampledFrom([]int{1, 2, 4}).Draw(t, "initial"+lbl)
	rc.N = rapid.SampledFrom(resizeNs).Draw(t, "n"+lbl)
	rc.Traffic = rapid.IntRange(0, 3).Draw(t, "traffic"+lbl) != 0
	rc.SDials = rapid.Bool().Draw(t, "sdials"+lbl)
	return rc
}

const quiet = 200 * time.Millisecond
const pace = 3 * time.Millisecond

func resizeKeys(rc resizeCase) (disc, stall string) {
	return "C19:resize-disconnects:" + impl(rc.Proto), "C19:resize-stalls:" + impl(rc.Proto)
}

// resizeExcluded: known shapes are left out.  The recorded disconnect/stall defects need a full
// receive queue (READQ-LEN with traffic).
func resizeExcluded(rc resizeCase) bool {
	disc, stall := resizeKeys(rc)
	if rc.Traffic && rc.Option == oRQ {
		for _, k := range []string{disc, stall} {
			if stats.Known(k) {
				stats.Excluded(k)
				return true
			}
		}
	}
	return false
}

// probeAfterResize says whether the liveness probe is meaningful: a queue length of 0 has
// separate, already recorded problems (push: Send never completes; sub: receiver wedges the
// socket), so only the "no disconnect" part is checked there.
func probeAfterResize(rc resizeCase) bool {
	if rc.N > 0 {
		return true
	}
	if rc.Option == oWQ {
		return false
	}
	return impl(rc.Proto) != "sub"
}

// runResizeVT: S under test listens on a scripted transport; the harness is the peer.
func runResizeVT(r reporter, test string, rc resizeCase) {
	doc := map[string]interface{}{"test": test, "case": rc, "rseed": os.Getenv("VERIF_RSEED")}
	disc, stall := resizeKeys(rc)
	s := fixture.New(rc.Proto)
	defer fixture.Within(5*time.Second, func() { _ = s.Close() })
	ev := fixture.Hook(s)
	o := sockObj(s, rc.Proto, "connected")
	e := newEndp(s, rc.Proto)
	if !mustSet(r, test, o, rc.Option, intVal(rc.Initial)) {
		return
	}
	if impl(rc.Proto) == "sub" {
		if !mustSet(r, test, o, oSub, val{[]byte{}, "bytes", "[]byte{}", 0}) {
			return
		}
	}
	ep, err := vt.Attach(s)
	if err != nil {
		r.harness("vt attach: %v", err)
		return
	}
	defer ep.Forget()
	p, ok := ep.ConnectWait(5 * time.Second)
	if !ok || !ev.WaitAttached(1, 5*time.Second) {
		r.harness("vt pipe not attached to %s", rc.Proto)
		return
	}
	e.setDeadlines(100*time.Millisecond, 30*time.Millisecond)
	seq := uint32(0)
	inject := func(body string, d time.Duration) int {
		seq++
		return p.Inject(wireIn(rc.Proto, seq, []byte(body)), d)
	}
	// a cooked surveyor only takes responses to its current survey: ask first, answer with its id
	askFirst := func(body string) ([]byte, bool) {
		before := p.SentCount()
		if err := e.send([]byte("survey-for-"+body), 3*time.Second); err != nil {
			return nil, false
		}
		if !p.WaitSent(before+1, 2*time.Second) {
			return nil, false
		}
		log := p.SentLog()
		last := log[len(log)-1].Data
		if len(last) < 4 {
			return nil, false
		}
		return append(append([]byte(nil), last[:4]...), body...), true
	}
	// repliers need a request before they may send
	prime := func(tag string) bool {
		if role(rc.Proto) != "answerer" {
			return true
		}
		seq++
		if p.Handoff(wireIn(rc.Proto, seq, []byte(tag)), 3*time.Second) == vt.InjNotTaken {
			return false
		}
		return e.recvUntil([]byte(tag), 600)
	}
	full := false
	if rc.Traffic {
		if rc.Option == oRQ {
			// hand over messages until the receiver goroutine is stuck behind a full queue
			for i := 0; i < rc.Initial+3 && !full; i++ {
				switch inject(fmt.Sprintf("fill-%d", i), 60*time.Millisecond) {
				case vt.InjTaken:
					full = true
				case vt.InjNotTaken:
					i = 1 << 20
				}
			}
		} else {
			p.SetMode(vt.ModeBlock, nil)
			if !prime("prime") {
				r.harness("%s did not take the priming request", rc.Proto)
				return
			}
			for i := 0; i < rc.Initial+3; i++ {
				if err := e.send([]byte(fmt.Sprintf("fill-%d", i)), 3*time.Second); err != nil && !e.raw && role(rc.Proto) == "answerer" {
					break
				}
				if !e.raw && role(rc.Proto) == "answerer" && i < rc.Initial+2 {
					// a cooked replier answers once per request
					if !prime(fmt.Sprintf("again-%d", i)) {
						break
					}
				}
			}
			full = p.WaitBlocked(1, time.Second)
		}
	}
	if full {
		stats.Class("resize-vt:full")
	} else {
		stats.Class("resize-vt:idle")
	}
	if !mustSet(r, test, o, rc.Option, intVal(rc.N)) {
		return
	}
	checkRoundTrip(r, test, o, rc.Option, intVal(rc.N))
	time.Sleep(quiet)
	if n := ev.Detached(); n != 0 || p.IsClosed() {
		r.fail(disc, doc, "%s: SetOption(%s, %d) (was %d, queue full=%v) closed the pipe to the peer (detached events=%d, transport pipe closed=%v)", rc.Proto, rc.Option, rc.N, rc.Initial, full, n, p.IsClosed())
		return
	}
	p.SetMode(vt.ModeAccept, nil)
	if probeAfterResize(rc) {
		if full && rc.Option == oWQ {
			// let the released backlog leave: fan-out senders drop new messages while their queue is full
			for last, i := -1, 0; i < 20 && last != p.SentCount(); i++ {
				last = p.SentCount()
				time.Sleep(10 * time.Millisecond)
			}
		}
		e.setDeadlines(2*time.Second, 2*time.Second)
		okProbe := false
		why := ""
		if rc.Option == oRQ {
			// empty what is queued, then a fresh message must come through
			e.setDeadlines(80*time.Millisecond, 2*time.Second)
			e.drain()
			e.setDeadlines(2*time.Second, 2*time.Second)
			for i := 0; i < 4 && !okProbe; i++ {
				tag := fmt.Sprintf("probe-%d", i)
				got := make(chan int, 1)
				if rc.Proto == "surveyor" {
					wire, ok := askFirst(tag)
					if !ok {
						why = "the survey that precedes the probe was not transmitted"
						continue
					}
					go func() { got <- p.Inject(wire, 2*time.Second) }()
				} else {
					go func() { got <- inject(tag, 2*time.Second) }()
				}
				okProbe = e.recvUntil([]byte(tag), 600)
				if res := <-got; res == vt.InjNotTaken {
					why = "the receiver no longer takes messages from the pipe"
				} else if !okProbe {
					why = "the message was taken from the pipe but never delivered to Recv"
				}
			}
		} else {
			for i := 0; i < 5 && !okProbe; i++ {
				tag := fmt.Sprintf("probe-%d", i)
				if !prime(tag + "-req") {
					why = "the socket no longer receives the request it should answer"
					continue
				}
				if err := e.send([]byte(tag), 3*time.Second); err != nil {
					why = fmt.Sprintf("Send failed: %v", err)
					continue
				}
				deadline := time.Now().Add(400 * time.Millisecond)
				for !okProbe && time.Now().Before(deadline) {
					for _, m := range p.SentLog() {
						if bytes.HasSuffix(m.Data, []byte(tag)) {
							okProbe = true
						}
					}
					if !okProbe {
						time.Sleep(5 * time.Millisecond)
					}
				}
				if !okProbe {
					why = "Send returned nil but the message never reached the transport"
				}
			}
		}
		if n := ev.Detached(); n != 0 || p.IsClosed() {
			r.fail(disc, doc, "%s: after SetOption(%s, %d) (was %d, queue full=%v) the pipe was closed while probing", rc.Proto, rc.Option, rc.N, rc.Initial, full)
			return
		}
		if !okProbe {
			r.fail(stall, doc, "%s: after SetOption(%s, %d) (was %d, queue full=%v) the peer is still attached but messages no longer pass: %s", rc.Proto, rc.Option, rc.N, rc.Initial, full, why)
			return
		}
	}
	stats.Eval()
	stats.NonTrivial(fmt.Sprintf("resize-vt|%s|%s|%d|%d|%v", rc.Proto, rc.Option, rc.Initial, rc.N, full))
}

func TestC19ResizeVT(t *testing.T) {
	const test = "TestC19ResizeVT"
	stats.ScaledChecks(10, 8, func() {
		rapid.Check(t, func(t *rapid.T) {
			n := rapid.IntRange(4, 8).Draw(t, "batch")
			col := &collector{}
			var fs []func()
			var cases []resizeCase
			for i := 0; i < n; i++ {
				rc := drawResizeCase(t, i)
				if resizeExcluded(rc) {
					continue
				}
				cases = append(cases, rc)
				fs = append(fs, func() { runResizeVT(col, test, rc) })
			}
			parallel(fs)
			col.forward(rapidReporter{t})
			stats.Sample(map[string]interface{}{"test": test, "cases": cases})
		})
	})
}

// runResizeInproc: S and a cooked peer P, connected over inproc; both ends are watched.
func runResizeInproc(r reporter, test string, rc resizeCase) {
	doc := map[string]interface{}{"test": test, "case": rc, "rseed": os.Getenv("VERIF_RSEED")}
	disc, stall := resizeKeys(rc)
	peerProto := cookedPeer(rc.Proto)
	s := fixture.New(rc.Proto)
	pr := fixture.New(peerProto)
	defer fixture.Within(5*time.Second, func() { _ = s.Close(); _ = pr.Close() })
	o := sockObj(s, rc.Proto, "connected")
	S, P := newEndp(s, rc.Proto), newEndp(pr, peerProto)
	if !mustSet(r, test, o, rc.Option, intVal(rc.Initial)) {
		return
	}
	// small queues on the peer so that a backlog really builds up
	_ = pr.SetOption(oRQ, 1)
	_ = pr.SetOption(oWQ, 1)
	for _, x := range []*endp{S, P} {
		if impl(x.proto) == "sub" {
			if err := x.s.SetOption(oSub, []byte{}); err != nil {
				r.harness("subscribe: %v", err)
				return
			}
		}
	}
	var lk *fixture.Link
	var err error
	if rc.SDials {
		lk, err = fixture.Connect(pr, s, "inproc")
	} else {
		lk, err = fixture.Connect(s, pr, "inproc")
	}
	if err != nil {
		r.harness("connect %s/%s: %v", rc.Proto, peerProto, err)
		return
	}
	S.setDeadlines(100*time.Millisecond, 30*time.Millisecond)
	P.setDeadlines(100*time.Millisecond, 30*time.Millisecond)
	k := rc.Initial + 4
	if rc.Traffic {
		inbound := rc.Option == oRQ
		switch ro := role(rc.Proto); {
		case inbound && (ro == "peer" || ro == "sink" || ro == "answerer"):
			for i := 0; i < k; i++ {
				_ = P.send([]byte(fmt.Sprintf("fill-%d", i)), 2*time.Second)
				time.Sleep(pace) // fan-out senders drop instead of queueing
			}
		case inbound && ro == "asker":
			// replies pile up at S: S asks, P answers, S does not receive
			for i := 0; i < k; i++ {
				q := []byte(fmt.Sprintf("fill-q%d", i))
				if S.send(q, 2*time.Second) != nil || !P.recvUntil(q, 50) {
					break
				}
				_ = P.send([]byte(fmt.Sprintf("fill-a%d", i)), 2*time.Second)
			}
		case !inbound && (ro == "peer" || ro == "src" || ro == "asker"):
			for i := 0; i < k; i++ {
				_ = S.send([]byte(fmt.Sprintf("fill-%d", i)), 2*time.Second)
				time.Sleep(pace)
			}
		case !inbound && ro == "answerer":
			for i := 0; i < k; i++ {
				q := []byte(fmt.Sprintf("fill-q%d", i))
				if P.send(q, 2*time.Second) != nil || !S.recvUntil(q, 50) {
					break
				}
				_ = S.send([]byte(fmt.Sprintf("fill-a%d", i)), 2*time.Second)
			}
		}
		time.Sleep(40 * time.Millisecond) // let the backlog settle in the queues
		stats.Class("resize-inproc:traffic")
	} else {
		stats.Class("resize-inproc:idle")
	}
	if lk.LE.Detached()+lk.DE.Detached() != 0 {
		r.harness("%s/%s link dropped before the resize", rc.Proto, peerProto)
		return
	}
	if !mustSet(r, test, o, rc.Option, intVal(rc.N)) {
		return
	}
	checkRoundTrip(r, test, o, rc.Option, intVal(rc.N))
	time.Sleep(quiet)
	if l, d := lk.LE.Detached(), lk.DE.Detached(); l+d != 0 {
		r.fail(disc, doc, "%s connected to %s over inproc: SetOption(%s, %d) (was %d, traffic queued=%v) disconnected the peer (detached events: listener side %d, dialer side %d)", rc.Proto, peerProto, rc.Option, rc.N, rc.Initial, rc.Traffic, l, d)
		return
	}
	if probeAfterResize(rc) {
		S.setDeadlines(80*time.Millisecond, 2*time.Second)
		P.setDeadlines(80*time.Millisecond, 2*time.Second)
		parallel([]func(){S.drain, P.drain})
		S.setDeadlines(time.Second, 2*time.Second)
		P.setDeadlines(time.Second, 2*time.Second)
		okAlive, which := alive(S, P, "probe")
		if l, d := lk.LE.Detached(), lk.DE.Detached(); l+d != 0 {
			r.fail(disc, doc, "%s connected to %s over inproc: after SetOption(%s, %d) (was %d, traffic queued=%v) the peer was disconnected while probing", rc.Proto, peerProto, rc.Option, rc.N, rc.Initial, rc.Traffic)
			return
		}
		if !okAlive {
			r.fail(stall, doc, "%s connected to %s over inproc: after SetOption(%s, %d) (was %d, traffic queued=%v) both ends are still attached but no message passes any more (%s)", rc.Proto, peerProto, rc.Option, rc.N, rc.Initial, rc.Traffic, which)
			return
		}
	}
	stats.Eval()
	stats.NonTrivial(fmt.Sprintf("resize-inproc|%s|%s|%d|%d|%v|%v", rc.Proto, rc.Option, rc.Initial, rc.N, rc.Traffic, rc.SDials))
}

func TestC19ResizeInproc(t *testing.T) {
	const test = "TestC19ResizeInproc"
	stats.ScaledChecks(10, 8, func() {
		rapid.Check(t, func(t *rapid.T) {
			n := rapid.IntRange(4, 8).Draw(t, "batch")
			col := &collector{}
			var fs []func()
			var cases []resizeCase
			for i := 0; i < n; i++ {
				rc := drawResizeCase(t, i)
				if resizeExcluded(rc) {
					continue
				}
				if impl(rc.Proto) == "sub" && rc.N == 0 && rc.Traffic {
					rc.Traffic = false // messages in flight would wedge the sub socket (C10/C12)
				}
				cases = append(cases, rc)
				fs = append(fs, func() { runResizeInproc(col, test, rc) })
			}
			parallel(fs)
			col.forward(rapidReporter{t})
			stats.Sample(map[string]interface{}{"test": test, "cases": cases})
		})
	})
}

// ---------------------------------------------------------------------------
// TestC19UnsupportedOps

func wantProtoOp(r reporter, test, proto, state, op string, res outcome) {
	doc := map[string]interface{}{"test": test, "proto": proto, "state": state, "op": op}
	key := "C19:unsupported-op:" + impl(proto) + ":" + op
	switch {
	case res.hung:
		r.fail("C19:hang:"+impl(proto)+":"+op, doc, "%s (%s) %s did not return within %v; want ErrProtoOp at once", proto, state, op, hangLimit)
	case res.pan != nil:
		r.fail("C19:panic:"+impl(proto)+":"+op, doc, "%s (%s) %s panicked: %v\n%s", proto, state, op, res.pan, res.stack)
	case res.err != mangos.ErrProtoOp:
		r.fail(key, doc, "%s (%s) %s = %s, want ErrProtoOp", proto, state, op, errName(res.err))
	case res.val != nil && !reflect.ValueOf(res.val).IsZero():
		r.fail(key, doc, "%s (%s) %s returned a value (%v) together with ErrProtoOp", proto, state, op, res.val)
	}
	stats.Eval()
	stats.Class("unsupported:" + op)
	stats.NonTrivial("unsupported|" + proto + "|" + state + "|" + op)
}

func TestC19UnsupportedOps(t *testing.T) {
	if !shardOwns(3) {
		t.Skip("deterministic enumeration: runs in one shard only")
	}
	const test = "TestC19UnsupportedOps"
	r := detReporter{t}
	for _, p := range fixture.Protos {
		for _, connected := range []bool{false, true} {
			func() {
				c := &closer{}
				defer c.closeAll()
				s := fixture.New(p.Name)
				state := "fresh"
				var peer mangos.Socket
				if connected {
					state = "connected"
					var err error
					if peer, _, err = connectPeer(c, s, p); err != nil {
						t.Fatalf("harness: %v", err)
					}
				}
				c.sock(s)
				S := newEndp(s, p.Name)
				before := len(fixture.MangosGoroutines())
				if !p.Contexts {
					res := guard(func() (interface{}, error) {
						ctx, err := s.OpenContext()
						if ctx == nil { // typed nil inside the interface
							return nil, err
						}
						return ctx, err
					})
					wantProtoOp(r, test, p.Name, state, "OpenContext", res)
				} else {
					res := guard(func() (interface{}, error) { return s.OpenContext() })
					if res.err != nil || res.val == nil || res.pan != nil || res.hung {
						r.fail("C19:open-context:"+p.Name, map[string]interface{}{"test": test, "proto": p.Name}, "%s OpenContext = (%v, %s), want a context", p.Name, res.val, errName(res.err))
					} else {
						ctx := res.val.(mangos.Context)
						if !p.CanSend {
							wantProtoOp(r, test, p.Name, state, "Context.Send", guardErr(func() error { return ctx.Send([]byte("x")) }))
						}
						_ = ctx.Close()
					}
				}
				if !p.CanRecv {
					wantProtoOp(r, test, p.Name, state, "Recv", guard(func() (interface{}, error) {
						b, err := s.Recv()
						if b == nil {
							return nil, err
						}
						return b, err
					}))
					wantProtoOp(r, test, p.Name, state, "RecvMsg", guard(func() (interface{}, error) {
						m, err := s.RecvMsg()
						if m == nil {
							return nil, err
						}
						return m, err
					}))
				}
				if !p.CanSend {
					wantProtoOp(r, test, p.Name, state, "Send", guardErr(func() error { return s.Send([]byte("x")) }))
					wantProtoOp(r, test, p.Name, state, "SendMsg", guardErr(func() error {
						m := mangos.NewMessage(1)
						m.Body = append(m.Body, 'x')
						err := s.SendMsg(m)
						if err != nil {
							m.Free()
						}
						return err
					}))
				}
				if p.CanRecv && p.CanSend {
					return
				}
				// no side effect: nothing started, and the operation the pattern does have still works
				if after := len(fixture.MangosGoroutines()); after > before {
					r.fail("C19:unsupported-op-side-effect:"+impl(p.Name), map[string]interface{}{"test": test, "proto": p.Name, "state": state}, "%s (%s): the refused operations left %d additional library goroutine(s)", p.Name, state, after-before)
				}
				if !connected {
					return
				}
				P := newEndp(peer, p.PeerName)
				for _, x := range []*endp{S, P} {
					if x.proto == "sub" {
						_ = x.s.SetOption(oSub, []byte{})
					}
					x.setDeadlines(time.Second, 2*time.Second)
				}
				if ok, which := alive(S, P, "after-refusal"); !ok {
					r.fail("C19:unsupported-op-side-effect:"+impl(p.Name), map[string]interface{}{"test": test, "proto": p.Name, "state": state}, "%s: after the refused operations the supported direction no longer works (%s)", p.Name, which)
				}
				stats.Class("unsupported:still-works")
			}()
		}
	}
	stats.Extra("unsupported_ops_axis", "24 constructors x fresh/connected x {Recv, RecvMsg, Send, SendMsg, OpenContext, Context.Send}")
}

// ---------------------------------------------------------------------------
// TestC19Device

func deviceWant(a, b *fixture.Proto) (want []error) {
	if a == nil && b == nil {
		return []error{mangos.ErrClosed}
	}
	if a == nil {
		a = b
	}
	if b == nil {
		b = a
	}
	mismatch := a.Self != b.Peer || b.Self != a.Peer
	cooked := !a.Raw || !b.Raw
	switch {
	case mismatch && cooked:
		// the documentation does not order the two checks
		return []error{mangos.ErrBadProto, mangos.ErrNotRaw}
	case mismatch:
		return []error{mangos.ErrBadProto}
	case cooked:
		return []error{mangos.ErrNotRaw}
	}
	return []error{nil}
}

const forwarderFrame = "mangos/v3.forwarder"
const deviceCreator = "created by go.nanomsg.org/mangos/v3.Device"

// countForwarders counts the goroutines started by Device.  It is fixture.CountGoroutines with a
// small, growing buffer (it is called about a thousand times) and it also recognises a forwarder
// by its "created by" line: while such a goroutine winds down its dump momentarily lacks the
// forwarder frame, and a count that flickers to zero would end the wait loop below too early.
func countForwarders() int {
	buf := make([]byte, 1<<16)
	for {
		n := runtime.Stack(buf, true)
		if n < len(buf) {
			buf = buf[:n]
			break
		}
		buf = make([]byte, 2*len(buf))
	}
	c := 0
	for _, g := range bytes.Split(buf, []byte("\n\n")) {
		if bytes.Contains(g, []byte(forwarderFrame)) || bytes.Contains(g, []byte(deviceCreator)) {
			c++
			lastForwarder = string(g)
		}
	}
	return c
}

var lastForwarder string

func TestC19Device(t *testing.T) {
	if !shardOwns(4) {
		t.Skip("deterministic enumeration: runs in one shard only")
	}
	const test = "TestC19Device"
	r := detReporter{t}
	if n := countForwarders(); n != 0 {
		t.Fatalf("harness: %d forwarder goroutines before the test", n)
	}
	var cands []*fixture.Proto
	cands = append(cands, nil)
	for i := range fixture.Protos {
		cands = append(cands, &fixture.Protos[i])
	}
	name := func(p *fixture.Proto) string {
		if p == nil {
			return "nil"
		}
		return p.Name
	}
	for _, a := range cands {
		for _, b := range cands {
			for _, same := range []bool{false, true} {
				if same && (a == nil || a != b) {
					continue // the same socket passed twice is a case of its own
				}
				var s1, s2 mangos.Socket
				if a != nil {
					s1 = fixture.New(a.Name)
				}
				if b != nil {
					if same {
						s2 = s1
					} else {
						s2 = fixture.New(b.Name)
					}
				}
				doc := map[string]interface{}{"test": test, "s1": name(a), "s2": name(b), "same_socket": same}
				res := guardErr(func() error { return mangos.Device(s1, s2) })
				want := deviceWant(a, b)
				key := "C19:device:" + name(a) + ":" + name(b)
				okRes := false
				for _, w := range want {
					if res.err == w {
						okRes = true
					}
				}
				switch {
				case res.hung:
					r.fail("C19:hang:device", doc, "Device(%s,%s) did not return", name(a), name(b))
				case res.pan != nil:
					r.fail("C19:panic:device:"+name(a)+":"+name(b), doc, "Device(%s,%s) panicked: %v\n%s", name(a), name(b), res.pan, res.stack)
				case !okRes:
					var ws []string
					for _, w := range want {
						ws = append(ws, errName(w))
					}
					r.fail(key, doc, "Device(%s,%s) = %s, want %s", name(a), name(b), errName(res.err), strings.Join(ws, " or "))
				case res.err != nil:
					// refused: nothing may have been started
					// (the sockets are still open: a forwarder started by this call would stay blocked in
					// RecvMsg, whereas a straggler of an earlier, closed device is about to exit)
					n := countForwarders()
					for i := 0; i < 25 && n != 0; i++ {
						time.Sleep(20 * time.Millisecond)
						n = countForwarders()
					}
					if n != 0 {
						r.fail("C19:device-side-effect", doc, "Device(%s,%s) failed with %s but %d forwarder goroutine(s) are running:\n%s", name(a), name(b), errName(res.err), n, lastForwarder)
					}
					// and the sockets are untouched: still open, still answering
					for _, s := range []mangos.Socket{s1, s2} {
						if s == nil {
							continue
						}
						if _, err := s.GetOption(oRaw); err != nil {
							r.fail("C19:device-side-effect", doc, "after the refused Device(%s,%s) GetOption(RAW) fails with %s", name(a), name(b), errName(err))
						}
					}
				default:
					// (a forwarder whose source cannot receive, e.g. XPUB, ends at once: no count is asserted)
					stats.Class("device:started")
				}
				for _, s := range []mangos.Socket{s1, s2} {
					if s != nil {
						_ = s.Close()
					}
				}
				if res.err == nil && !res.hung && res.pan == nil {
					deadline := time.Now().Add(5 * time.Second)
					for countForwarders() != 0 && time.Now().Before(deadline) {
						time.Sleep(time.Millisecond)
					}
					if n := countForwarders(); n != 0 {
						t.Fatalf("harness: %d forwarders still running after closing Device(%s,%s) sockets", n, name(a), name(b))
					}
				}
				stats.Eval()
				stats.Class("device:" + strings.Join(func() []string {
					var ws []string
					for _, w := range want {
						ws = append(ws, errName(w))
					}
					return ws
				}(), "|"))
				stats.NonTrivial("device|" + name(a) + "|" + name(b) + fmt.Sprint(same))
			}
		}
	}
	stats.Extra("device_axis", "25x25 (24 constructors + nil) ordered pairs, plus each constructor with itself as the same socket: exhaustive")
}

// ---------------------------------------------------------------------------
// TestC19NilTLSConfig: a TLS-CONFIG value that the endpoint accepted must not make the
// following Listen/Dial panic (any error is fine).

func TestC19NilTLSConfig(t *testing.T) {
	// Not asserted: the statement is about option calls never panicking; here the option call
	// returns normally and a later Listen/Dial misbehaves (observed: wss Listen dereferences a
	// typed-nil *tls.Config).  Recorded in DESIGN.md as an observation outside C19.
	t.Skip("outside the statement of C19")
	const test = "TestC19NilTLSConfig"
	r := detReporter{t}
	// net/http logs the refused handshakes of the dial attempts below; keep the output clean
	// (not restored: the servers log asynchronously and this is the last test of the package)
	log.SetOutput(io.Discard)
	nilCfg := val{(*tls.Config)(nil), "tlsnil", "(*tls.Config)(nil)", 0}
	for _, tr := range []string{"tls+tcp", "wss"} {
		for _, kind := range []string{"listener", "dialer"} {
			for _, viaMap := range []bool{false, true} {
				func() {
					c := &closer{}
					defer c.closeAll()
					op := map[string]string{"listener": "Listen", "dialer": "Dial"}[kind]
					key := "C19:panic:" + kind + ":" + tr + ":" + oTLS + ":tlsnil:" + op
					if stats.Known(key) {
						stats.Excluded(key)
						return
					}
					doc := map[string]interface{}{"test": test, "transport": tr, "object": kind, "via_option_map": viaMap, "value": nilCfg.Desc}
					// a live peer for the dialer
					peer := c.sock(fixture.New(endpointProto))
					addr, _, err := fixture.Listen(peer, tr)
					if err != nil {
						t.Fatalf("harness: listen %s: %v", tr, err)
					}
					s := c.sock(fixture.New(endpointProto))
					var start func() error
					var o *object
					opts := map[string]interface{}{}
					if viaMap {
						opts[oTLS] = nilCfg.V
					}
					if kind == "listener" {
						l, err := s.NewListener(fixture.Addr(tr), opts)
						if err != nil {
							stats.Class("niltls:refused")
							return
						}
						start = l.Listen
						o = &object{kind: kind, who: tr, state: "fresh", keyID: kind + ":" + tr, specs: listenerSpecs(tr), set: l.SetOption, get: l.GetOption}
					} else {
						d, err := s.NewDialer(addr, opts)
						if err != nil {
							stats.Class("niltls:refused")
							return
						}
						start = d.Dial
						o = &object{kind: kind, who: tr, state: "fresh", keyID: kind + ":" + tr, specs: dialerSpecs(tr, socketSpecs(endpointProto)), set: d.SetOption, get: d.GetOption}
					}
					if !viaMap && !checkSet(r, test, o, oTLS, nilCfg) {
						stats.Class("niltls:refused")
						return
					}
					res := guardErr(start)
					switch {
					case res.pan != nil:
						r.fail(key, doc, "%s %s accepted TLS-CONFIG=(*tls.Config)(nil); the following %s() panicked: %v\n%s", tr, kind, op, res.pan, res.stack)
					case res.hung:
						r.fail("C19:hang:"+kind+":"+tr+":"+oTLS+":tlsnil:"+op, doc, "%s %s accepted TLS-CONFIG=(*tls.Config)(nil); the following %s() did not return within %v", tr, kind, op, hangLimit)
					}
					stats.Eval()
					stats.Class("niltls:" + kind)
					stats.NonTrivial(fmt.Sprintf("niltls|%s|%s|%v", tr, kind, viaMap))
				}()
			}
		}
	}
}

// shardOwns spreads the deterministic (non-generated) enumerations over the shards so that
// each runs exactly once per check run.
func shardOwns(idx int) bool {
	n, _ := strconv.Atoi(os.Getenv("VERIF_NSHARDS"))
	i, _ := strconv.Atoi(os.Getenv("VERIF_SHARD"))
	if n <= 1 {
		return true
	}
	return idx%n == i
}
