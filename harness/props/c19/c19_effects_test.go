package c19

import (
	"bufio"
	"bytes"
	"crypto/tls"
	"fmt"
	"net"
	"os"
	"strings"
	"testing"
	"time"

	"go.nanomsg.org/mangos/v3"
	"go.nanomsg.org/mangos/v3/transport/ipc"
	"go.nanomsg.org/mangos/v3/transport/ws"
	"go.nanomsg.org/mangos/v3/verifharness/fixture"
	"go.nanomsg.org/mangos/v3/verifharness/stats"
	"pgregory.net/rapid"
)

// TestC19WsCheckOrigin: the accepted WEBSOCKET-CHECKORIGIN value takes effect as documented.
// Documented (transport/ws): with the check on (the default) an upgrade request whose Origin
// header differs from its Host header is refused with status 403; with the check off every
// origin is admitted; a request without Origin or with the same origin is always admitted.
// The option is set any number of times, through the NewListener option map, before Listen
// and after Listen; the last accepted value decides, and Get returns it.
func TestC19WsCheckOrigin(t *testing.T) {
	stats.ScaledChecks(40, 6, func() {
		rapid.Check(t, func(t *rapid.T) {
			tr := rapid.SampledFrom([]string{"ws", "ws", "wss"}).Draw(t, "transport")
			type step struct {
				Where string `json:"where"` // map | before | after
				Val   bool   `json:"value"`
			}
			n := rapid.IntRange(0, 4).Draw(t, "nsteps")
			var steps []step
			for i := 0; i < n; i++ {
				steps = append(steps, step{rapid.SampledFrom([]string{"map", "before", "after"}).Draw(t, "where"), rapid.Bool().Draw(t, "value")})
			}
			doc := map[string]interface{}{"test": "TestC19WsCheckOrigin", "transport": tr, "steps": steps, "rseed": os.Getenv("VERIF_RSEED")}
			fail := func(k, f string, a ...interface{}) {
				stats.Fail(t, "C19:ws-checkorigin:"+k, doc, "%s listener, option history %+v: %s", tr, steps, fmt.Sprintf(f, a...))
			}
			s := fixture.New("pair")
			defer s.Close()
			addr := fixture.Addr(tr)
			opts := fixture.ListenOpts(tr)
			if opts == nil {
				opts = map[string]interface{}{}
			}
			check, set := true, false
			// the map can hold one value: the last "map" step wins among them, and map values
			// are applied when the listener is created, i.e. before every SetOption
			for _, st := range steps {
				if st.Where == "map" {
					opts[ws.OptionWebSocketCheckOrigin] = st.Val
					check, set = st.Val, true
				}
			}
			l, err := s.NewListener(addr, opts)
			if err != nil {
				fail("newlistener", "NewListener with the option map %v failed: %v", opts, err)
				return
			}
			apply := func(where string) bool {
				for _, st := range steps {
					if st.Where == where {
						if err := l.SetOption(ws.OptionWebSocketCheckOrigin, st.Val); err != nil {
							fail("set", "SetOption(%v) %s Listen: %v", st.Val, where, err)
							return false
						}
						check, set = st.Val, true
					}
				}
				return true
			}
			if !apply("before") {
				return
			}
			if err := l.Listen(); err != nil {
				t.Skip("port busy")
			}
			if !apply("after") {
				return
			}
			if set {
				if v, err := l.GetOption(ws.OptionWebSocketCheckOrigin); err != nil || v != check {
					fail("get", "GetOption returns (%v, %v), want the last accepted value %v", v, err, check)
					return
				}
			}
			hostport := addr[strings.Index(addr, "://")+3:]
			path := "/"
			if i := strings.Index(hostport, "/"); i >= 0 {
				hostport, path = hostport[:i], hostport[i:]
			}
			probe := func(origin string) (int, error) {
				var c net.Conn
				var err error
				if tr == "wss" {
					c, err = tlsDial(hostport)
				} else {
					c, err = net.DialTimeout("tcp", hostport, 2*time.Second)
				}
				if err != nil {
					return 0, err
				}
				defer c.Close()
				_ = c.SetDeadline(time.Now().Add(3 * time.Second))
				req := "GET " + path + " HTTP/1.1\r\nHost: " + hostport + "\r\nUpgrade: websocket\r\nConnection: Upgrade\r\n" +
					"Sec-WebSocket-Key: dGhlIHNhbXBsZSBub25jZQ==\r\nSec-WebSocket-Version: 13\r\nSec-WebSocket-Protocol: pair.sp.nanomsg.org\r\n"
				if origin != "" {
					req += "Origin: " + origin + "\r\n"
				}
				if _, err := c.Write([]byte(req + "\r\n")); err != nil {
					return 0, err
				}
				line, err := bufio.NewReader(c).ReadString('\n')
				if err != nil {
					return 0, err
				}
				var code int
				if _, err := fmt.Sscanf(line, "HTTP/1.1 %d", &code); err != nil {
					return 0, fmt.Errorf("status line %q", line)
				}
				return code, nil
			}
			scheme := "http://"
			if tr == "wss" {
				scheme = "https://"
			}
			for _, pr := range []struct {
				name, origin string
				want         int
			}{
				{"no Origin header", "", 101},
				{"the listener's own origin", scheme + hostport, 101},
				{"a foreign origin", "http://elsewhere.example", map[bool]int{true: 403, false: 101}[check]},
			} {
				code, err := probe(pr.origin)
				if err != nil {
					fail("probe", "upgrade request with %s: %v", pr.name, err)
					return
				}
				if code != pr.want {
					fail("effect", "an upgrade request with %s was answered %d, want %d (origin check in force: %v)", pr.name, code, pr.want, check)
					return
				}
			}
			stats.Eval()
			stats.Class(fmt.Sprintf("ws_checkorigin:%v", check))
			if len(steps) >= 2 {
				stats.NonTrivial(fmt.Sprintf("wsco|%s|%+v", tr, steps))
			}
			stats.Sample(doc)
		})
	})
}

func tlsDial(hostport string) (net.Conn, error) {
	return tls.DialWithDialer(&net.Dialer{Timeout: 2 * time.Second}, "tcp", hostport, fixture.TLSClient())
}

// TestC19IpcPermissions: an accepted UNIX-IPC-CHMOD value is what the socket file gets
// (documented: "used to set the permissions on the UNIX domain socket via chmod").
func TestC19IpcPermissions(t *testing.T) {
	stats.ScaledChecks(40, 6, func() {
		rapid.Check(t, func(t *rapid.T) {
			mode := os.FileMode(rapid.SampledFrom([]int{0, 0o600, 0o642, 0o666, 0o700, 0o755, 0o777, 0o1, 0o111, 0o444}).Draw(t, "mode"))
			asUint := rapid.Bool().Draw(t, "asUint32")
			via := rapid.SampledFrom([]string{"map", "set", "set-twice"}).Draw(t, "via")
			doc := map[string]interface{}{"test": "TestC19IpcPermissions", "mode": fmt.Sprintf("%#o", mode), "as_uint32": asUint, "via": via, "rseed": os.Getenv("VERIF_RSEED")}
			fail := func(k, f string, a ...interface{}) {
				stats.Fail(t, "C19:ipc-chmod:"+k, doc, "mode %#o via %s (uint32 %v): %s", mode, via, asUint, fmt.Sprintf(f, a...))
			}
			var val interface{} = mode
			if asUint {
				val = uint32(mode)
			}
			s := fixture.New("pull")
			defer s.Close()
			addr := fixture.Addr("ipc")
			opts := map[string]interface{}{}
			if via == "map" {
				opts[ipc.OptionIpcSocketPermissions] = val
			}
			l, err := s.NewListener(addr, opts)
			if err != nil {
				fail("newlistener", "NewListener with the option in the map: %v", err)
				return
			}
			if via == "set-twice" {
				if err := l.SetOption(ipc.OptionIpcSocketPermissions, os.FileMode(0o751)); err != nil {
					fail("set", "SetOption(0751): %v", err)
					return
				}
			}
			if via != "map" {
				if err := l.SetOption(ipc.OptionIpcSocketPermissions, val); err != nil {
					fail("set", "SetOption: %v", err)
					return
				}
			}
			if err := l.Listen(); err != nil {
				fail("listen", "Listen: %v", err)
				return
			}
			st, err := os.Stat(strings.TrimPrefix(addr, "ipc://"))
			if err != nil {
				fail("stat", "socket file: %v", err)
				return
			}
			if st.Mode().Perm() != mode {
				fail("effect", "the socket file has permissions %#o, want the accepted value %#o", st.Mode().Perm(), mode)
				return
			}
			stats.Eval()
			stats.Class("ipc_chmod_effect")
			stats.NonTrivial(fmt.Sprintf("ipcmode|%#o|%v|%s", mode, asUint, via))
			stats.Sample(doc)
		})
	})
}

var _ = mangos.OptionRaw

// TestC19MaxRecvSizeEffect: an accepted MAX-RCV-SIZE governs the connections made after it was
// set, wherever it was set (socket or endpoint, before or after Listen / Dial): a message whose
// size equals the limit is delivered, one byte more is never delivered.
func TestC19MaxRecvSizeEffect(t *testing.T) {
	stats.ScaledChecks(20, 8, func() {
		rapid.Check(t, func(t *rapid.T) {
			tr := rapid.SampledFrom([]string{"tcp", "ipc", "tls+tcp", "ws", "wss"}).Draw(t, "transport")
			role := rapid.SampledFrom([]string{"listener", "dialer"}).Draw(t, "receiverIs")
			where := rapid.SampledFrom([]string{"socket-before", "endpoint-before", "endpoint-map", "socket-after", "endpoint-after"}).Draw(t, "setWhere")
			limit := rapid.SampledFrom([]int{1, 64, 100, 1000, 4096, 70000}).Draw(t, "limit")
			was := rapid.SampledFrom([]int{0, 1 << 20, 16}).Draw(t, "previousLimit")
			doc := map[string]interface{}{"test": "TestC19MaxRecvSizeEffect", "transport": tr, "receiver_is": role, "set": where, "limit": limit, "previous": was, "rseed": os.Getenv("VERIF_RSEED")}
			fail := func(k, f string, a ...interface{}) {
				stats.Fail(t, "C19:maxrecv-effect:"+k, doc, "pull %s over %s, MAX-RCV-SIZE %d set %s (previously %d): %s", role, tr, limit, where, was, fmt.Sprintf(f, a...))
			}
			R, P := fixture.New("pull"), fixture.New("push")
			defer R.Close()
			defer P.Close()
			_ = R.SetOption(mangos.OptionRecvDeadline, 200*time.Millisecond)
			_ = P.SetOption(mangos.OptionSendDeadline, 2*time.Second)
			addr := fixture.Addr(tr)
			set := func(o interface {
				SetOption(string, interface{}) error
			}, v int) bool {
				if err := o.SetOption(mangos.OptionMaxRecvSize, v); err != nil {
					fail("set", "SetOption(MAX-RCV-SIZE,%d): %v", v, err)
					return false
				}
				return true
			}
			if !set(R, was) {
				return
			}
			if where == "socket-before" && !set(R, limit) {
				return
			}
			fast := func(o map[string]interface{}) map[string]interface{} {
				if o == nil {
					o = map[string]interface{}{}
				}
				o[mangos.OptionDialAsynch] = true
				o[mangos.OptionReconnectTime] = 5 * time.Millisecond
				o[mangos.OptionMaxReconnectTime] = 5 * time.Millisecond
				return o
			}
			var ep interface {
				SetOption(string, interface{}) error
				GetOption(string) (interface{}, error)
			}
			if role == "listener" {
				lo := fixture.ListenOpts(tr)
				if where == "endpoint-map" {
					if lo == nil {
						lo = map[string]interface{}{}
					}
					lo[mangos.OptionMaxRecvSize] = limit
				}
				l, err := R.NewListener(addr, lo)
				if err != nil {
					fail("newlistener", "NewListener with MAX-RCV-SIZE in the option map: %v", err)
					return
				}
				ep = l
				if where == "endpoint-before" && !set(l, limit) {
					return
				}
				if err := l.Listen(); err != nil {
					t.Skip("port busy")
				}
			} else {
				do := fast(fixture.DialOpts(tr))
				if where == "endpoint-map" {
					do[mangos.OptionMaxRecvSize] = limit
				}
				d, err := R.NewDialer(addr, do)
				if err != nil {
					fail("newdialer", "NewDialer with MAX-RCV-SIZE in the option map: %v", err)
					return
				}
				ep = d
				if where == "endpoint-before" && !set(d, limit) {
					return
				}
				if err := d.Dial(); err != nil { // nobody listens yet: the connection is made later
					fail("dial", "asynchronous Dial: %v", err)
					return
				}
			}
			switch where {
			case "socket-after":
				if !set(R, limit) {
					return
				}
			case "endpoint-after":
				if !set(ep, limit) {
					return
				}
			}
			if v, err := ep.GetOption(mangos.OptionMaxRecvSize); err != nil || v != limit {
				fail("get", "the %s reports MAX-RCV-SIZE (%v,%v), want %d", role, v, err, limit)
				return
			}
			// only now does the peer appear
			if role == "listener" {
				if err := P.DialOptions(addr, fast(fixture.DialOpts(tr))); err != nil {
					t.Fatalf("harness: %v", err)
				}
			} else if err := P.ListenOptions(addr, fixture.ListenOpts(tr)); err != nil {
				t.Skip("port busy")
			}
			exact := fixture.Payload(1, limit)
			over := fixture.Payload(2, limit+1)
			sentinel := []byte("Z")
			recvUntil := func(want []byte, resend []byte, d time.Duration) (bool, bool) {
				sawOver := false
				deadline := time.Now().Add(d)
				for time.Now().Before(deadline) {
					if resend != nil {
						_ = P.Send(resend)
					}
					b, err := R.Recv()
					if err != nil {
						continue
					}
					if bytes.Equal(b, over) {
						sawOver = true
					}
					if bytes.Equal(b, want) {
						return true, sawOver
					}
				}
				return false, sawOver
			}
			if err := P.Send(exact); err != nil {
				fail("send", "peer could not send: %v", err)
				return
			}
			ok, _ := recvUntil(exact, nil, 3*time.Second)
			if !ok {
				fail("at-limit-not-delivered", "a message of exactly %d bytes was not delivered within 3s", limit)
				return
			}
			_ = P.Send(over)
			ok, sawOver := recvUntil(sentinel, sentinel, 3*time.Second)
			if sawOver {
				fail("over-limit-delivered", "a message of %d bytes was delivered although the limit in force is %d", limit+1, limit)
				return
			}
			if !ok {
				fail("no-recovery", "after the oversize message no further message arrived within 3s")
				return
			}
			stats.Eval()
			stats.Class("maxrecv_effect:" + where)
			stats.NonTrivial(fmt.Sprintf("mre|%s|%s|%s|%d|%d", tr, role, where, limit, was))
			stats.Sample(doc)
		})
	})
}
