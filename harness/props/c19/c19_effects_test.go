package c19

import (
	"bufio"
	"crypto/tls"
	"fmt"
	"net"
	"os"
	"strings"
	"testing"
	"time"

	"go.nanomsg.org/mangos/v3"
	"go.nanomsg.org/mangos/v3/transport/ipc"
	"go.nanomsg.org/mangos/v3/transport/ws"
	"go.nanomsg.org/mangos/v3/verifharness/fixture"
	"go.nanomsg.org/mangos/v3/verifharness/stats"
	"pgregory.net/rapid"
)

// TestC19WsCheckOrigin: the accepted WEBSOCKET-CHECKORIGIN value takes effect as documented.
// Documented (transport/ws): with the check on (the default) an upgrade request whose Origin
// header differs from its Host header is refused with status 403; with the check off every
// origin is admitted; a request without Origin or with the same origin is always admitted.
// The option is set any number of times, through the NewListener option map, before Listen
// and after Listen; the last accepted value decides, and Get returns it.
func TestC19WsCheckOrigin(t *testing.T) {
	stats.ScaledChecks(40, 6, func() {
		rapid.Check(t, func(t *rapid.T) {
			tr := rapid.SampledFrom([]string{"ws", "ws", "wss"}).Draw(t, "transport")
			type step struct {
				Where string `json:"where"` // map | before | after
				Val   bool   `json:"value"`
			}
			n := rapid.IntRange(0, 4).Draw(t, "nsteps")
			var steps []step
			for i := 0; i < n; i++ {
				steps = append(steps, step{rapid.SampledFrom([]string{"map", "before", "after"}).Draw(t, "where"), rapid.Bool().Draw(t, "value")})
			}
			doc := map[string]interface{}{"test": "TestC19WsCheckOrigin", "transport": tr, "steps": steps, "rseed": os.Getenv("VERIF_RSEED")}
			fail := func(k, f string, a ...interface{}) {
				stats.Fail(t, "C19:ws-checkorigin:"+k, doc, "%s listener, option history %+v: %s", tr, steps, fmt.Sprintf(f, a...))
			}
			s := fixture.New("pair")
			defer s.Close()
			addr := fixture.Addr(tr)
			opts := fixture.ListenOpts(tr)
			if opts == nil {
				opts = map[string]interface{}{}
			}
			check, set := true, false
			// the map can hold one value: the last "map" step wins among them, and map values
			// are applied when the listener is created, i.e. before every SetOption
			for _, st := range steps {
				if st.Where == "map" {
					opts[ws.OptionWebSocketCheckOrigin] = st.Val
					check, set = st.Val, true
				}
			}
			l, err := s.NewListener(addr, opts)
			if err != nil {
				fail("newlistener", "NewListener with the option map %v failed: %v", opts, err)
				return
			}
			apply := func(where string) bool {
				for _, st := range steps {
					if st.Where == where {
						if err := l.SetOption(ws.OptionWebSocketCheckOrigin, st.Val); err != nil {
							fail("set", "SetOption(%v) %s Listen: %v", st.Val, where, err)
							return false
						}
						check, set = st.Val, true
					}
				}
				return true
			}
			if !apply("before") {
				return
			}
			if err := l.Listen(); err != nil {
				t.Skip("port busy")
			}
			if !apply("after") {
				return
			}
			if set {
				if v, err := l.GetOption(ws.OptionWebSocketCheckOrigin); err != nil || v != check {
					fail("get", "GetOption returns (%v, %v), want the last accepted value %v", v, err, check)
					return
				}
			}
			hostport := addr[strings.Index(addr, "://")+3:]
			path := "/"
			if i := strings.Index(hostport, "/"); i >= 0 {
				hostport, path = hostport[:i], hostport[i:]
			}
			probe := func(origin string) (int, error) {
				var c net.Conn
				var err error
				if tr == "wss" {
					c, err = tlsDial(hostport)
				} else {
					c, err = net.DialTimeout("tcp", hostport, 2*time.Second)
				}
				if err != nil {
					return 0, err
				}
				defer c.Close()
				_ = c.SetDeadline(time.Now().Add(3 * time.Second))
				req := "GET " + path + " HTTP/1.1\r\nHost: " + hostport + "\r\nUpgrade: websocket\r\nConnection: Upgrade\r\n" +
					"Sec-WebSocket-Key: dGhlIHNhbXBsZSBub25jZQ==\r\nSec-WebSocket-Version: 13\r\nSec-WebSocket-Protocol: pair.sp.nanomsg.org\r\n"
				if origin != "" {
					req += "Origin: " + origin + "\r\n"
				}
				if _, err := c.Write([]byte(req + "\r\n")); err != nil {
					return 0, err
				}
				line, err := bufio.NewReader(c).ReadString('\n')
				if err != nil {
					return 0, err
				}
				var code int
				if _, err := fmt.Sscanf(line, "HTTP/1.1 %d", &code); err != nil {
					return 0, fmt.Errorf("status line %q", line)
				}
				return code, nil
			}
			scheme := "http://"
			if tr == "wss" {
				scheme = "https://"
			}
			for _, pr := range []struct {
				name, origin string
				want         int
			}{
				{"no Origin header", "", 101},
				{"the listener's own origin", scheme + hostport, 101},
				{"a foreign origin", "http://elsewhere.example", map[bool]int{true: 403, false: 101}[check]},
			} {
				code, err := probe(pr.origin)
				if err != nil {
					fail("probe", "upgrade request with %s: %v", pr.name, err)
					return
				}
				if code != pr.want {
					fail("effect", "an upgrade request with %s was answered %d, want %d (origin check in force: %v)", pr.name, code, pr.want, check)
					return
				}
			}
			stats.Eval()
			stats.Class(fmt.Sprintf("ws_checkorigin:%v", check))
			if len(steps) >= 2 {
				stats.NonTrivial(fmt.Sprintf("wsco|%s|%+v", tr, steps))
			}
			stats.Sample(doc)
		})
	})
}

func tlsDial(hostport string) (net.Conn, error) {
	return tls.DialWithDialer(&net.Dialer{Timeout: 2 * time.Second}, "tcp", hostport, fixture.TLSClient())
}

// TestC19IpcPermissions: an accepted UNIX-IPC-CHMOD value is what the socket file gets
// (documented: "used to set the permissions on the UNIX domain socket via chmod").
func TestC19IpcPermissions(t *testing.T) {
	stats.ScaledChecks(40, 6, func() {
		rapid.Check(t, func(t *rapid.T) {
			mode := os.FileMode(rapid.SampledFrom([]int{0, 0o600, 0o642, 0o666, 0o700, 0o755, 0o777, 0o1, 0o111, 0o444}).Draw(t, "mode"))
			asUint := rapid.Bool().Draw(t, "asUint32")
			via := rapid.SampledFrom([]string{"map", "set", "set-twice"}).Draw(t, "via")
			doc := map[string]interface{}{"test": "TestC19IpcPermissions", "mode": fmt.Sprintf("%#o", mode), "as_uint32": asUint, "via": via, "rseed": os.Getenv("VERIF_RSEED")}
			fail := func(k, f string, a ...interface{}) {
				stats.Fail(t, "C19:ipc-chmod:"+k, doc, "mode %#o via %s (uint32 %v): %s", mode, via, asUint, fmt.Sprintf(f, a...))
			}
			var val interface{} = mode
			if asUint {
				val = uint32(mode)
			}
			s := fixture.New("pull")
			defer s.Close()
			addr := fixture.Addr("ipc")
			opts := map[string]interface{}{}
			if via == "map" {
				opts[ipc.OptionIpcSocketPermissions] = val
			}
			l, err := s.NewListener(addr, opts)
			if err != nil {
				fail("newlistener", "NewListener with the option in the map: %v", err)
				return
			}
			if via == "set-twice" {
				if err := l.SetOption(ipc.OptionIpcSocketPermissions, os.FileMode(0o751)); err != nil {
					fail("set", "SetOption(0751): %v", err)
					return
				}
			}
			if via != "map" {
				if err := l.SetOption(ipc.OptionIpcSocketPermissions, val); err != nil {
					fail("set", "SetOption: %v", err)
					return
				}
			}
			if err := l.Listen(); err != nil {
				fail("listen", "Listen: %v", err)
				return
			}
			st, err := os.Stat(strings.TrimPrefix(addr, "ipc://"))
			if err != nil {
				fail("stat", "socket file: %v", err)
				return
			}
			if st.Mode().Perm() != mode {
				fail("effect", "the socket file has permissions %#o, want the accepted value %#o", st.Mode().Perm(), mode)
				return
			}
			stats.Eval()
			stats.Class("ipc_chmod_effect")
			stats.NonTrivial(fmt.Sprintf("ipcmode|%#o|%v|%s", mode, asUint, via))
			stats.Sample(doc)
		})
	})
}

var _ = mangos.OptionRaw
