// C02 — PAIR and PUSH/PULL deliver each message exactly once, in order.
//
// (A) generated workloads: pattern x queue lengths (incl. 0) x sender goroutines x
// peers x optional peer-failure script; oracle: multiset equality without faults,
// subset + no duplicates with faults, per-sender-per-connection increasing
// sequence numbers, every Send completes.
// (B) PAIR exclusivity: intruding dialers never attach or deliver while the first
// peer is alive, the established conversation stays gap-free, and an intruder
// gets in once the first peer has gone.
package c02

import (
	"fmt"
	"os"
	"sync"
	"sync/atomic"
	"testing"
	"time"

	"go.nanomsg.org/mangos/v3"
	"go.nanomsg.org/mangos/v3/verifharness/fixture"
	"go.nanomsg.org/mangos/v3/verifharness/stats"
	"pgregory.net/rapid"
)

func TestMain(m *testing.M) {
	stats.Init("C02")
	stats.Rule("(A) pattern in {pair,xpair,pair1,xpair1,push/pull,xpush/xpull} x read/write queue lengths in {0,1,2,16,128} set before connecting x 1-4 sender goroutines x 1-60 messages x 1-4 PULL peers x transport {inproc,tcp,ipc,ws,tls+tcp} x optional fault (a PULL peer or the PAIR peer closes mid-stream); (B) PAIR server with 1 peer and 1-3 intruding asynchronous dialers. Also: 1-3 receiving goroutines per socket; non-queue options re-set to their own values during traffic; (C) burst rounds of barrier-released one-message senders; (D) only peer stalls, is lost and replaced; PAIR stand-by peers dialled by the server. Non-trivial: >=2 senders, or >=2 peers, or a fault, or a queue length in {0,1}; distinct by the full configuration")
	rc := m.Run()
	stats.Flush()
	fixture.Cleanup()
	os.Exit(rc)
}

type pat struct {
	name     string
	snd, rcv string
	multi    bool // several receivers allowed
	hdr      []byte
}

var pats = []pat{
	{"pair", "pair", "pair", false, nil},
	{"xpair", "xpair", "xpair", false, nil},
	{"pair1", "pair1", "pair1", false, nil},
	{"xpair1", "xpair1", "xpair1", false, []byte{0, 0, 0, 0}},
	{"pushpull", "push", "pull", true, nil},
	{"xpushxpull", "xpush", "xpull", true, nil},
}

const knownPushWQ0 = "C02:send-never-completes:push:writeq0"

type rec struct {
	sender, seq int
}

func TestC02Delivery(t *testing.T) {
	rapid.Check(t, func(t *rapid.T) {
		p := rapid.SampledFrom(pats).Draw(t, "pattern")
		tr := rapid.SampledFrom([]string{"inproc", "inproc", "inproc", "tcp", "ipc", "ws", "tls+tcp"}).Draw(t, "transport")
		qs := []int{0, 1, 2, 16, 128}
		wq := rapid.SampledFrom(qs).Draw(t, "writeq")
		rq := rapid.SampledFrom(qs).Draw(t, "readq")
		nsend := rapid.IntRange(1, 4).Draw(t, "senders")
		nmsg := rapid.IntRange(1, 60).Draw(t, "msgs")
		npeers := 1
		if p.multi {
			npeers = rapid.IntRange(1, 4).Draw(t, "peers")
		}
		fault := rapid.IntRange(0, 3).Draw(t, "fault") == 0
		faultAt := rapid.IntRange(0, nmsg*nsend).Draw(t, "faultAt")
		flip := rapid.Bool().Draw(t, "senderListens")
		byteAPI := p.hdr == nil && rapid.Bool().Draw(t, "byteAPI")
		// several goroutines may share one receiving socket: each message still goes to exactly one
		nrecv := rapid.SampledFrom([]int{1, 1, 2, 3}).Draw(t, "receiversPerSocket")
		// options other than the queue lengths may be re-set (to the values they have) while messages flow
		churn := rapid.IntRange(0, 2).Draw(t, "optionChurn") == 0
		if p.multi && wq == 0 && stats.Known(knownPushWQ0) {
			stats.Excluded(knownPushWQ0)
			wq = 1
		}
		doc := map[string]interface{}{"test": "TestC02Delivery", "pattern": p.name, "transport": tr, "writeq": wq, "readq": rq,
			"senders": nsend, "msgs": nmsg, "peers": npeers, "fault": fault, "faultAt": faultAt, "senderListens": flip, "byteAPI": byteAPI, "receiversPerSocket": nrecv, "optionChurn": churn, "rseed": os.Getenv("VERIF_RSEED")}
		var fmu sync.Mutex
		var failures [][2]string
		fail := func(k, f string, a ...interface{}) {
			fmu.Lock()
			failures = append(failures, [2]string{k, fmt.Sprintf(f, a...)})
			fmu.Unlock()
		}
		failed := func() bool { fmu.Lock(); defer fmu.Unlock(); return len(failures) > 0 }
		defer func() {
			fmu.Lock()
			defer fmu.Unlock()
			if len(failures) > 0 {
				stats.Fail(t, "C02:"+failures[0][0], doc, "%s wq=%d rq=%d senders=%d msgs=%d peers=%d fault=%v over %s: %s", p.name, wq, rq, nsend, nmsg, npeers, fault, tr, failures[0][1])
			}
		}()

		var all []mangos.Socket
		defer func() {
			for _, s := range all {
				_ = s.Close()
			}
		}()
		snd := fixture.New(p.snd)
		all = append(all, snd)
		setq := func(s mangos.Socket, name string, v int) {
			if err := s.SetOption(name, v); err != nil && err != mangos.ErrBadOption {
				t.Fatalf("harness: SetOption(%s,%d): %v", name, v, err)
			}
		}
		setq(snd, mangos.OptionWriteQLen, wq)
		setq(snd, mangos.OptionReadQLen, rq)
		sendDL := 10 * time.Second
		if fault && npeers == 1 {
			sendDL = 300 * time.Millisecond // the only peer will vanish
		}
		_ = snd.SetOption(mangos.OptionSendDeadline, sendDL)
		sev := fixture.Hook(snd)
		rcvs := make([]mangos.Socket, npeers)
		for i := range rcvs {
			rcvs[i] = fixture.New(p.rcv)
			all = append(all, rcvs[i])
			setq(rcvs[i], mangos.OptionWriteQLen, wq)
			setq(rcvs[i], mangos.OptionReadQLen, rq)
		}
		if flip {
			addr, _, err := fixture.Listen(snd, tr)
			if err != nil {
				t.Fatalf("harness: %v", err)
			}
			for i, r := range rcvs {
				rev := fixture.Hook(r)
				if _, err := fixture.Dial(r, addr); err != nil {
					t.Fatalf("harness: %v", err)
				}
				if !rev.WaitAttached(1, 5*time.Second) || !sev.WaitAttached(i+1, 5*time.Second) {
					t.Fatalf("harness: attach timeout")
				}
			}
		} else {
			for i, r := range rcvs {
				rev := fixture.Hook(r)
				addr, _, err := fixture.Listen(r, tr)
				if err != nil {
					t.Fatalf("harness: %v", err)
				}
				if _, err := fixture.Dial(snd, addr); err != nil {
					t.Fatalf("harness: %v", err)
				}
				if !rev.WaitAttached(1, 5*time.Second) || !sev.WaitAttached(i+1, 5*time.Second) {
					t.Fatalf("harness: attach timeout")
				}
			}
		}

		total := nsend * nmsg
		var sentCount int64
		var cmu sync.Mutex
		faultDone := false
		victim := npeers - 1
		// receivers
		got := make([][]rec, npeers)
		var rwg sync.WaitGroup
		stopRecv := make(chan struct{})
		var recvTotal int
		var rmu sync.Mutex
		for _, r := range rcvs {
			_ = r.SetOption(mangos.OptionRecvDeadline, 100*time.Millisecond)
		}
		for k := 0; k < nrecv*len(rcvs); k++ {
			i, r := k%len(rcvs), rcvs[k%len(rcvs)]
			rwg.Add(1)
			go func(i int, r mangos.Socket) {
				defer rwg.Done()
				for {
					m, err := r.RecvMsg()
					if err != nil {
						if err == mangos.ErrRecvTimeout {
							select {
							case <-stopRecv:
								return
							default:
								continue
							}
						}
						return // closed (fault victim or end)
					}
					var x rec
					if _, err := fmt.Sscanf(string(m.Body), "s%d-%d", &x.sender, &x.seq); err != nil {
						fail("invented", "peer %d received %q, which no sender sent", i, m.Body)
						m.Free()
						return
					}
					m.Free()
					rmu.Lock()
					got[i] = append(got[i], x)
					recvTotal++
					rmu.Unlock()
				}
			}(i, r)
		}
		// senders
		var swg sync.WaitGroup
		for s := 0; s < nsend; s++ {
			swg.Add(1)
			go func(s int) {
				defer swg.Done()
				for q := 0; q < nmsg; q++ {
					if failed() {
						return
					}
					cmu.Lock()
					sentCount++
					doFault := fault && !faultDone && int(sentCount) > faultAt
					if doFault {
						faultDone = true
					}
					cmu.Unlock()
					if doFault {
						_ = rcvs[victim].Close()
					}
					var m *mangos.Message
					var err error
					start := time.Now()
					if byteAPI {
						// Send([]byte): the buffer is the caller's again as soon as Send returns
						buf := []byte(fmt.Sprintf("s%d-%d", s, q))
						err = snd.Send(buf)
						for i := range buf {
							buf[i] = '#'
						}
					} else {
						m = mangos.NewMessage(16)
						m.Body = append(m.Body, []byte(fmt.Sprintf("s%d-%d", s, q))...)
						if p.hdr != nil {
							m.Header = append(m.Header, p.hdr...)
						}
						err = snd.SendMsg(m)
					}
					if err != nil {
						m.Free()
						cmu.Lock()
						fd := faultDone
						cmu.Unlock()
						if fd && (!p.multi || npeers == 1) {
							return // the only peer is gone: sends may time out legitimately
						}
						fail("send-never-completes", "Send of message %d by sender %d failed after %v with %v although %d peer(s) were connected and receiving", q, s, time.Since(start), err, npeers)
						return
					}
				}
			}(s)
		}
		churnStop := make(chan struct{})
		var churnWG sync.WaitGroup
		if churn {
			churnWG.Add(1)
			go func() {
				defer churnWG.Done()
				for {
					select {
					case <-churnStop:
						return
					default:
					}
					_ = snd.SetOption(mangos.OptionSendDeadline, sendDL)
					_ = snd.SetOption(mangos.OptionRecvDeadline, time.Second)
					_ = snd.SetOption(mangos.OptionBestEffort, false)
					for _, r := range rcvs {
						_ = r.SetOption(mangos.OptionRecvDeadline, 100*time.Millisecond)
						_ = r.SetOption(mangos.OptionSendDeadline, time.Second)
					}
					time.Sleep(200 * time.Microsecond)
				}
			}()
		}
		swg.Wait()
		close(churnStop)
		churnWG.Wait()
		cmu.Lock()
		fd := faultDone
		cmu.Unlock()
		// wait for delivery
		deadline := time.Now().Add(10 * time.Second)
		if fd {
			deadline = time.Now().Add(400 * time.Millisecond)
		}
		for {
			rmu.Lock()
			n := recvTotal
			rmu.Unlock()
			if !fd && n >= total || time.Now().After(deadline) || failed() {
				break
			}
			time.Sleep(time.Millisecond)
		}
		// absence of extras: one quiet receive-deadline period
		time.Sleep(150 * time.Millisecond)
		close(stopRecv)
		rwg.Wait()
		if failed() {
			return
		}
		seen := map[rec]int{}
		for i := range got {
			last := map[int]int{}
			for _, x := range got[i] {
				seen[x]++
				if x.sender < 0 || x.sender >= nsend || x.seq < 0 || x.seq >= nmsg {
					fail("invented", "peer %d received s%d-%d which was never sent", i, x.sender, x.seq)
					return
				}
				if l, ok := last[x.sender]; ok && x.seq <= l && nrecv == 1 { // with several receiving goroutines their logging order is not the delivery order
					fail("reordered", "peer %d received message %d of sender %d after message %d on the same connection", i, x.seq, x.sender, l)
					return
				}
				last[x.sender] = x.seq
			}
		}
		for x, n := range seen {
			if n > 1 {
				fail("duplicate", "message s%d-%d was delivered %d times", x.sender, x.seq, n)
				return
			}
		}
		if !fd && len(seen) != total {
			for s := 0; s < nsend; s++ {
				for q := 0; q < nmsg; q++ {
					if seen[rec{s, q}] == 0 {
						fail("lost", "message s%d-%d accepted by Send was never delivered (%d of %d arrived, no connection failed)", s, q, len(seen), total)
						return
					}
				}
			}
		}
		stats.Eval()
		stats.Class("pat:" + p.name)
		if fd {
			stats.Class("with_fault")
		}
		if wq <= 1 || rq <= 1 {
			stats.Class("queue_0_or_1")
		}
		if nrecv > 1 {
			stats.Class("several_receivers_per_socket")
		}
		if churn {
			stats.Class("option_churn_during_traffic")
		}
		if nsend >= 2 || npeers >= 2 || fd || wq <= 1 || rq <= 1 {
			stats.NonTrivial(fmt.Sprintf("A|%s|%s|%d|%d|%d|%d|%d|%v|%v|%d", p.name, tr, wq, rq, nsend, nmsg, npeers, fd, flip, nrecv))
		}
		stats.Sample(doc)
	})
}

// TestC02PushWriteQ0 keeps the listed known finding observable: PUSH with WriteQLen=0.
func TestC02PushWriteQ0(t *testing.T) {
	for _, name := range []string{"push", "xpush"} {
		s := fixture.New(name)
		r := fixture.New("pull")
		if err := s.SetOption(mangos.OptionWriteQLen, 0); err != nil {
			_ = s.Close()
			_ = r.Close()
			continue // not accepted: nothing to check
		}
		_ = s.SetOption(mangos.OptionSendDeadline, 2*time.Second)
		if _, err := fixture.Connect(r, s, "inproc"); err != nil {
			t.Fatalf("harness: %v", err)
		}
		go func() { _, _ = r.Recv() }()
		err := s.Send([]byte("x"))
		stats.Eval()
		if err != nil {
			stats.Fail(t, knownPushWQ0, map[string]interface{}{"test": "TestC02PushWriteQ0", "socket": name},
				"%s accepts WriteQLen=0 but then Send never completes although a PULL peer is connected and receiving (after 2s: %v)", name, err)
		}
		_ = s.Close()
		_ = r.Close()
	}
}

// ---------------------------------------------------------------------------

func TestC02PairExclusive(t *testing.T) {
	stats.ScaledChecks(6, 4, func() { rapid.Check(t, exclusiveProp) })
}

func exclusiveProp(t *rapid.T) {
	name := rapid.SampledFrom([]string{"pair", "xpair", "pair1"}).Draw(t, "proto")
	tr := rapid.SampledFrom([]string{"inproc", "tcp", "ipc"}).Draw(t, "transport")
	nintr := rapid.IntRange(1, 3).Draw(t, "intruders")
	nmsg := rapid.IntRange(5, 60).Draw(t, "msgs")
	// the further connection attempts come either from dialers that call the server, or from the
	// server's own dialers calling stand-by peers (then it is the server's side that refuses them)
	serverDials := rapid.IntRange(0, 2).Draw(t, "serverDials") == 0
	// the application may turn the very first connection away in its Attaching callback: that
	// attempt is "refused" too, and the next one must be admitted as if nothing had happened
	hookRejects := rapid.IntRange(0, 3).Draw(t, "hookRejectsFirst") == 0
	doc := map[string]interface{}{"test": "TestC02PairExclusive", "proto": name, "transport": tr, "intruders": nintr, "msgs": nmsg, "serverDials": serverDials, "hookRejectsFirst": hookRejects, "rseed": os.Getenv("VERIF_RSEED")}
	fail := func(k, f string, a ...interface{}) {
		stats.Fail(t, "C02:pair-"+k, doc, "%s over %s with %d intruders: %s", name, tr, nintr, fmt.Sprintf(f, a...))
	}
	srv := fixture.New(name)
	defer srv.Close()
	// event log on the server: never two pipes attached at once
	var emu sync.Mutex
	live, maxLive, attached := 0, 0, 0
	rejectNext := hookRejects
	srv.SetPipeEventHook(func(ev mangos.PipeEvent, hp mangos.Pipe) {
		emu.Lock()
		if ev == mangos.PipeEventAttaching && rejectNext {
			rejectNext = false
			emu.Unlock()
			_ = hp.Close()
			return
		}
		switch ev {
		case mangos.PipeEventAttached:
			live++
			attached++
			if live > maxLive {
				maxLive = live
			}
		case mangos.PipeEventDetached:
			live--
		}
		emu.Unlock()
	})
	addr, _, err := fixture.Listen(srv, tr)
	if err != nil {
		t.Fatalf("harness: %v", err)
	}
	first := fixture.New(name)
	fev := fixture.Hook(first)
	fopts := fixture.DialOpts(tr)
	if fopts == nil {
		fopts = map[string]interface{}{}
	}
	fopts[mangos.OptionDialAsynch] = true
	fopts[mangos.OptionReconnectTime] = 5 * time.Millisecond
	fopts[mangos.OptionMaxReconnectTime] = 5 * time.Millisecond
	if err := first.DialOptions(addr, fopts); err != nil {
		t.Fatalf("harness: %v", err)
	}
	waitSrv := func(n int) bool {
		dl := time.Now().Add(5 * time.Second)
		for time.Now().Before(dl) {
			emu.Lock()
			a := attached
			emu.Unlock()
			if a >= n {
				return true
			}
			time.Sleep(time.Millisecond)
		}
		return false
	}
	if !waitSrv(1) {
		if hookRejects {
			fail("no-peer-after-rejection", "after the application turned the first connection away in its Attaching callback no further connection was admitted within 5s")
			return
		}
		t.Fatalf("harness: server did not attach the first peer")
	}
	_ = fev
	// intruders
	intr := make([]mangos.Socket, nintr)
	stop := make(chan struct{})
	var iwg sync.WaitGroup
	for i := range intr {
		s := fixture.New(name)
		intr[i] = s
		_ = s.SetOption(mangos.OptionBestEffort, true)
		opts := fixture.DialOpts(tr)
		if opts == nil {
			opts = map[string]interface{}{}
		}
		opts[mangos.OptionDialAsynch] = true
		opts[mangos.OptionReconnectTime] = 5 * time.Millisecond
		opts[mangos.OptionMaxReconnectTime] = 5 * time.Millisecond
		if serverDials {
			ia, _, err := fixture.Listen(s, tr)
			if err != nil {
				t.Fatalf("harness: stand-by listen: %v", err)
			}
			if err := srv.DialOptions(ia, opts); err != nil {
				t.Fatalf("harness: server dial: %v", err)
			}
		} else if err := s.DialOptions(addr, opts); err != nil {
			t.Fatalf("harness: intruder dial: %v", err)
		}
		iwg.Add(1)
		go func(i int, s mangos.Socket) {
			defer iwg.Done()
			for n := 0; ; n++ {
				select {
				case <-stop:
					return
				default:
				}
				_ = s.Send([]byte(fmt.Sprintf("intruder%d-%d", i, n)))
				time.Sleep(200 * time.Microsecond)
			}
		}(i, s)
	}
	defer func() {
		for _, s := range intr {
			_ = s.Close()
		}
	}()
	// conversation first -> server and back, gap-free
	_ = srv.SetOption(mangos.OptionRecvDeadline, 5*time.Second)
	_ = first.SetOption(mangos.OptionRecvDeadline, 5*time.Second)
	_ = srv.SetOption(mangos.OptionSendDeadline, 5*time.Second)
	_ = first.SetOption(mangos.OptionSendDeadline, 5*time.Second)
	ok := true
	for q := 0; q < nmsg && ok; q++ {
		want := fmt.Sprintf("first-%d", q)
		if err := first.Send([]byte(want)); err != nil {
			fail("conversation-disturbed", "established peer could not send message %d: %v", q, err)
			ok = false
			break
		}
		b, err := srv.Recv()
		if err != nil || string(b) != want {
			fail("conversation-disturbed", "server received (%q,%v), want %q from its established peer", b, err, want)
			ok = false
			break
		}
		back := fmt.Sprintf("srv-%d", q)
		if err := srv.Send([]byte(back)); err != nil {
			fail("conversation-disturbed", "server could not answer message %d: %v", q, err)
			ok = false
			break
		}
		b, err = first.Recv()
		if err != nil || string(b) != back {
			fail("conversation-disturbed", "established peer received (%q,%v), want %q", b, err, back)
			ok = false
		}
	}
	emu.Lock()
	ml := maxLive
	emu.Unlock()
	if ok && ml > 1 {
		fail("two-peers", "the PAIR server had %d peers attached at the same time", ml)
		ok = false
	}
	if ok {
		// the first peer leaves: an intruder must get in and be able to talk
		emu.Lock()
		a0 := attached
		emu.Unlock()
		_ = first.Close()
		if !waitSrv(a0 + 1) {
			fail("no-successor", "no waiting dialer was admitted within 5s after the first peer had gone")
		} else {
			b, err := srv.Recv()
			if err != nil || len(b) < 8 || string(b[:8]) != "intruder" {
				fail("successor-silent", "after the first peer left, the server received (%q,%v) instead of a message from the admitted dialer", b, err)
			}
		}
	} else {
		_ = first.Close()
	}
	close(stop)
	iwg.Wait()
	stats.Eval()
	stats.Class("pair_exclusive:" + name)
	if serverDials {
		stats.Class("pair_exclusive_server_dials_standby")
	}
	if hookRejects {
		stats.Class("pair_exclusive_hook_rejects_first")
	}
	stats.NonTrivial(fmt.Sprintf("B|%s|%s|%d|%d|%v", name, tr, nintr, nmsg, serverDials))
	stats.Sample(doc)
}

// TestC02Burst: several goroutines, released by a barrier, each send one message on an idle
// socket at the same instant, many rounds in a row; every round's messages must all arrive.
// (Wake-up and hand-off bugs between concurrent senders show only when the socket is idle.)
func TestC02Burst(t *testing.T) {
	stats.ScaledChecks(1, 4, func() {
		rapid.Check(t, func(t *rapid.T) {
			p := rapid.SampledFrom(pats).Draw(t, "pattern")
			tr := rapid.SampledFrom([]string{"inproc", "inproc", "tcp"}).Draw(t, "transport")
			nsend := rapid.IntRange(2, 4).Draw(t, "senders")
			rounds := rapid.IntRange(50, 300).Draw(t, "rounds")
			doc := map[string]interface{}{"test": "TestC02Burst", "pattern": p.name, "transport": tr, "senders": nsend, "rounds": rounds, "rseed": os.Getenv("VERIF_RSEED")}
			snd, rcv := fixture.New(p.snd), fixture.New(p.rcv)
			defer snd.Close()
			defer rcv.Close()
			if _, err := fixture.Connect(rcv, snd, tr); err != nil {
				t.Fatalf("harness: %v", err)
			}
			_ = snd.SetOption(mangos.OptionSendDeadline, 5*time.Second)
			_ = rcv.SetOption(mangos.OptionRecvDeadline, 5*time.Second)
			for r := 0; r < rounds; r++ {
				start := make(chan struct{})
				errs := make(chan error, nsend)
				for s := 0; s < nsend; s++ {
					go func(s int) {
						m := mangos.NewMessage(16)
						m.Body = append(m.Body, []byte(fmt.Sprintf("b%d-%d", s, r))...)
						if p.hdr != nil {
							m.Header = append(m.Header, p.hdr...)
						}
						<-start
						err := snd.SendMsg(m)
						if err != nil {
							m.Free()
						}
						errs <- err
					}(s)
				}
				close(start)
				seen := map[string]bool{}
				for i := 0; i < nsend; i++ {
					b, err := rcv.Recv()
					if err != nil {
						stats.Fail(t, "C02:burst-lost", doc, "%s over %s: round %d: %d goroutines sent one message each at the same instant on an idle socket, %d arrived, then Recv: %v", p.name, tr, r, nsend, i, err)
						return
					}
					var s, rr int
					if _, e := fmt.Sscanf(string(b), "b%d-%d", &s, &rr); e != nil || rr != r || s < 0 || s >= nsend || seen[string(b)] {
						stats.Fail(t, "C02:burst-wrong", doc, "%s over %s: round %d: received %q (duplicate, stale or invented)", p.name, tr, r, b)
						return
					}
					seen[string(b)] = true
				}
				for i := 0; i < nsend; i++ {
					if err := <-errs; err != nil {
						stats.Fail(t, "C02:send-never-completes", doc, "%s over %s: round %d: Send failed: %v", p.name, tr, r, err)
						return
					}
				}
			}
			stats.Eval()
			stats.Class("burst:" + p.name)
			stats.NonTrivial(fmt.Sprintf("C|%s|%s|%d|%d", p.name, tr, nsend, rounds))
			stats.Sample(doc)
		})
	})
}

// TestC02PeerReplaced: the only peer stops reading, so accepted messages pile up in
// the connection and in the send queue; then it goes away and a new peer takes its
// place.  Messages may be lost with the connection, but what the new peer receives
// must be in send order, without duplicates (also with respect to what the first
// peer got) and without inventions, and everything sent once the new connection is
// up must be delivered.
func TestC02PeerReplaced(t *testing.T) {
	stats.ScaledChecks(3, 5, func() { rapid.Check(t, replacedProp) })
}

func replacedProp(t *rapid.T) {
	p := rapid.SampledFrom(pats).Draw(t, "pattern")
	tr := rapid.SampledFrom([]string{"inproc", "inproc", "ipc", "tcp"}).Draw(t, "transport")
	wq := rapid.SampledFrom([]int{0, 1, 2, 16, 128}).Draw(t, "writeq")
	if p.multi && wq == 0 && stats.Known(knownPushWQ0) {
		stats.Excluded(knownPushWQ0)
		wq = 1
	}
	n1 := rapid.IntRange(1, 40).Draw(t, "beforeLoss")
	k1 := rapid.IntRange(0, 3).Draw(t, "firstPeerReads")
	n2 := rapid.IntRange(0, 10).Draw(t, "afterReplacement")
	doc := map[string]interface{}{"test": "TestC02PeerReplaced", "pattern": p.name, "transport": tr, "writeq": wq,
		"beforeLoss": n1, "firstPeerReads": k1, "afterReplacement": n2, "rseed": os.Getenv("VERIF_RSEED")}
	fail := func(k, f string, a ...interface{}) {
		stats.Fail(t, "C02:replaced:"+k, doc, "%s wq=%d over %s: %s", p.name, wq, tr, fmt.Sprintf(f, a...))
	}
	snd := fixture.New(p.snd)
	defer snd.Close()
	if err := snd.SetOption(mangos.OptionWriteQLen, wq); err != nil {
		t.Fatalf("harness: %v", err)
	}
	sev := fixture.Hook(snd)
	addr, _, err := fixture.Listen(snd, tr)
	if err != nil {
		t.Fatalf("harness: %v", err)
	}
	mk := func(seq int) *mangos.Message {
		m := mangos.NewMessage(16)
		m.Body = append(m.Body, []byte(fmt.Sprintf("s0-%d", seq))...)
		if p.hdr != nil {
			m.Header = append(m.Header, p.hdr...)
		}
		return m
	}
	parse := func(who string, m *mangos.Message) (int, bool) {
		var s, q int
		if _, err := fmt.Sscanf(string(m.Body), "s%d-%d", &s, &q); err != nil || s != 0 {
			fail("invented", "%s received %q, which was never sent", who, m.Body)
			return 0, false
		}
		return q, true
	}
	// first peer: reads k1 messages, then stalls
	r1 := fixture.New(p.rcv)
	defer r1.Close()
	if _, err := fixture.Dial(r1, addr); err != nil {
		t.Fatalf("harness: %v", err)
	}
	if !sev.WaitAttached(1, 5*time.Second) {
		t.Fatalf("harness: attach timeout")
	}
	_ = snd.SetOption(mangos.OptionSendDeadline, 150*time.Millisecond)
	accepted := 0
	for ; accepted < n1; accepted++ {
		m := mk(accepted)
		if err := snd.SendMsg(m); err != nil {
			m.Free()
			if err != mangos.ErrSendTimeout {
				fail("send", "Send %d: %v", accepted, err)
				return
			}
			break
		}
	}
	seen := map[int]string{}
	_ = r1.SetOption(mangos.OptionRecvDeadline, 500*time.Millisecond)
	last := -1
	for i := 0; i < k1 && i < accepted; i++ {
		m, err := r1.RecvMsg()
		if err != nil {
			fail("lost", "first peer: Recv %d of %d accepted messages: %v (connection up)", i, accepted, err)
			return
		}
		q, ok := parse("first peer", m)
		m.Free()
		if !ok {
			return
		}
		if q <= last {
			fail("reordered", "first peer received message %d after message %d", q, last)
			return
		}
		last = q
		seen[q] = "first peer"
	}
	_ = r1.Close()
	if !sev.WaitDetached(1, 5*time.Second) {
		fail("no-detach", "sender did not drop the closed peer within 5s")
		return
	}
	// the replacement
	r2 := fixture.New(p.rcv)
	defer r2.Close()
	if _, err := fixture.Dial(r2, addr); err != nil {
		fail("replacement-refused", "a new peer could not connect after the first had gone: %v", err)
		return
	}
	if !sev.WaitAttached(2, 5*time.Second) {
		fail("replacement-refused", "a new peer was not admitted within 5s after the first had gone")
		return
	}
	time.Sleep(30 * time.Millisecond)
	_ = snd.SetOption(mangos.OptionSendDeadline, 5*time.Second)
	sendErr := make(chan error, 1)
	var sendDone int32
	go func() {
		defer atomic.StoreInt32(&sendDone, 1)
		for i := 0; i < n2; i++ {
			m := mk(n1 + i)
			if err := snd.SendMsg(m); err != nil {
				m.Free()
				sendErr <- fmt.Errorf("Send %d: %v", n1+i, err)
				return
			}
		}
		sendErr <- nil
	}()
	_ = r2.SetOption(mangos.OptionRecvDeadline, 250*time.Millisecond)
	var order []int
	late := 0
	for {
		// the stream has ended when a whole quiet period begins after the
		// last Send returned
		done := atomic.LoadInt32(&sendDone) == 1
		m, err := r2.RecvMsg()
		if err != nil {
			if err == mangos.ErrRecvTimeout && !done {
				continue
			}
			break
		}
		q, ok := parse("replacement peer", m)
		m.Free()
		if !ok {
			return
		}
		if who, dup := seen[q]; dup {
			fail("duplicate", "message %d was delivered to the replacement peer although the %s already had it (received %v)", q, who, order)
			return
		}
		if q < 0 || q >= n1+n2 || (q < n1 && q >= accepted) {
			fail("invented", "replacement peer received message %d which Send never accepted", q)
			return
		}
		seen[q] = "replacement peer"
		if len(order) > 0 && q < order[len(order)-1] {
			fail("reordered", "replacement peer received message %d after message %d, which was sent later, on the same connection: %v", q, order[len(order)-1], append(order, q))
			return
		}
		order = append(order, q)
		if q >= n1 {
			late++
		}
	}
	if e := <-sendErr; e != nil {
		fail("send-never-completes", "with the replacement peer connected and receiving: %v", e)
		return
	}
	if late < n2 {
		fail("lost", "%d of the %d messages sent after the replacement peer was connected were not delivered (received %v)", n2-late, n2, order)
		return
	}
	stats.Eval()
	stats.Class("replaced:" + p.name)
	carried := 0
	for _, q := range order {
		if q < n1 {
			carried++
		}
	}
	if carried > 0 {
		stats.Class("replaced_carried_over")
		stats.NonTrivial(fmt.Sprintf("R|%s|%s|%d|%d|%d|%d", p.name, tr, wq, accepted, k1, n2))
	}
	doc["accepted"], doc["order"] = accepted, order
	stats.Sample(doc)
}
