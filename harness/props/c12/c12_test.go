// C12 — a failed operation leaves the object usable; nothing stays locked.
//
// Fault enumeration x generated follow-ups: each scenario provokes one API error
// outcome (missing/empty TLS config, address in use, refused dial, bad address or
// scheme, handshake failure from a raw peer, pipe rejected by the hook or by the
// protocol, connection lost right after attach, timeouts, no peers, closed
// endpoint), then runs a generated sequence of other calls on the same object
// and its socket under a watchdog, then corrects the cause and retries on the SAME
// object and proves liveness with a message round trip.
package c12

import (
	"crypto/tls"
	"fmt"
	"io"
	"net"
	"os"
	"path/filepath"
	"strings"
	"testing"
	"time"

	"go.nanomsg.org/mangos/v3"
	"go.nanomsg.org/mangos/v3/verifharness/fixture"
	"go.nanomsg.org/mangos/v3/verifharness/stats"
	"pgregory.net/rapid"
)

func TestMain(m *testing.M) {
	stats.Init("C12")
	stats.Rule("scenario in {handshake-fails-dialer, tls-no-config, tls-no-cert, addr-in-use, listen-twice, dial-refused, bad-address, bad-scheme, handshake-garbage, handshake-truncated, hook-reject-listener, hook-reject-dialer, proto-reject, lost-after-attach, recv-timeout, send-timeout, no-peers, proto-state, closed-listener, closed-dialer} x applicable transports x 3-8 generated follow-up calls (GetOption/SetOption good+bad/Address/Listen/Dial/Send/Recv with deadlines/Close of siblings) x correct-and-retry. Also: address-in-use with the loser closed instead of retried; protocol refusal on the dialer side. Non-trivial: the error actually occurred and >=1 follow-up addressed the same object; distinct by (scenario, transport, follow-up sequence). Round 5: bad addresses drawn from per-transport pools (ports, brackets, escapes; ipc: regular file, directory, over-long path)")
	stats.Assume("every follow-up must return within 2 s (the documented blockers are only issued with deadlines); this reaches the error paths in the catalogue, not every lock-to-return path")
	rc := m.Run()
	stats.Flush()
	fixture.Cleanup()
	os.Exit(rc)
}

const limit = 2 * time.Second

type env struct {
	t     *rapid.T
	doc   map[string]interface{}
	trace []string
	bad   bool
}

func (e *env) fail(key, f string, a ...interface{}) {
	if e.bad {
		return
	}
	e.bad = true
	e.doc["trace"] = e.trace
	stats.Fail(e.t, "C12:"+key, e.doc, "%s/%s: %s — calls so far: %v", e.doc["scenario"], e.doc["transport"], fmt.Sprintf(f, a...), e.trace)
}

// call runs f under the watchdog; a hang is the violation this property is about.
func (e *env) call(name string, f func() error) (error, bool) {
	var err error
	ok := fixture.Within(limit, func() { err = f() })
	e.trace = append(e.trace, fmt.Sprintf("%s=%v", name, func() interface{} {
		if !ok {
			return "HANG"
		}
		return err
	}()))
	if !ok {
		e.fail("hang:"+fmt.Sprint(e.doc["scenario"])+":"+strings.SplitN(name, "(", 2)[0], "%s did not return within %v after the earlier error", name, limit)
	}
	return err, ok
}

type optObj interface {
	GetOption(string) (interface{}, error)
	SetOption(string, interface{}) error
}

// followUps issues generated calls on the failed object (listener/dialer) and on its socket.
func (e *env) followUps(s mangos.Socket, l mangos.Listener, d mangos.Dialer) int {
	n := rapid.IntRange(3, 8).Draw(e.t, "nfollow")
	same := 0
	for i := 0; i < n && !e.bad; i++ {
		var obj optObj
		who := rapid.SampledFrom([]string{"obj", "obj", "sock"}).Draw(e.t, "who")
		oname := "sock"
		if who == "obj" && l != nil {
			obj, oname = l, "listener"
		} else if who == "obj" && d != nil {
			obj, oname = d, "dialer"
		} else {
			obj = s
		}
		if oname != "sock" {
			same++
		}
		switch rapid.IntRange(0, 6).Draw(e.t, "op") {
		case 0:
			name := rapid.SampledFrom([]string{mangos.OptionMaxRecvSize, mangos.OptionTLSConfig, mangos.OptionRecvDeadline, mangos.OptionReconnectTime, "NO-SUCH", mangos.OptionKeepAlive, mangos.OptionLocalAddr}).Draw(e.t, "gname")
			e.call(fmt.Sprintf("%s.GetOption(%s)", oname, name), func() error { _, err := obj.GetOption(name); return err })
		case 1:
			name := rapid.SampledFrom([]string{mangos.OptionMaxRecvSize, mangos.OptionReconnectTime, mangos.OptionNoDelay, "NO-SUCH"}).Draw(e.t, "sname")
			var v interface{}
			switch rapid.IntRange(0, 3).Draw(e.t, "sval") {
			case 0:
				v = 4096
			case 1:
				v = 10 * time.Millisecond
			case 2:
				v = true
			case 3:
				v = "bogus"
			}
			e.call(fmt.Sprintf("%s.SetOption(%s,%v)", oname, name, v), func() error { return obj.SetOption(name, v) })
		case 2:
			if l != nil {
				e.call("listener.Address()", func() error { _ = l.Address(); return nil })
			} else if d != nil {
				e.call("dialer.Address()", func() error { _ = d.Address(); return nil })
			}
		case 3:
			e.call("sock.SetOption(RECV-DEADLINE,10ms)", func() error { return s.SetOption(mangos.OptionRecvDeadline, 10*time.Millisecond) })
			e.call("sock.Recv()", func() error { _, err := s.Recv(); return err })
		case 4:
			e.call("sock.SetOption(SEND-DEADLINE,10ms)", func() error { return s.SetOption(mangos.OptionSendDeadline, 10*time.Millisecond) })
			e.call("sock.Send()", func() error { return s.Send([]byte("follow-up")) })
		case 5:
			e.call("sock.GetOption(RAW)", func() error { _, err := s.GetOption(mangos.OptionRaw); return err })
		case 6:
			// a sibling endpoint on the same socket comes and goes
			a := fixture.Addr("inproc")
			e.call("sock.NewListener(inproc)+Listen+Close", func() error {
				nl, err := s.NewListener(a, nil)
				if err != nil {
					return err
				}
				if err := nl.Listen(); err != nil {
					return err
				}
				return nl.Close()
			})
		}
	}
	return same
}

// roundTrip proves that srv and cli (pair sockets) can talk.
func (e *env) roundTrip(a, b mangos.Socket, why string) {
	if e.bad {
		return
	}
	_ = a.SetOption(mangos.OptionSendDeadline, 100*time.Millisecond)
	_ = b.SetOption(mangos.OptionRecvDeadline, 100*time.Millisecond)
	deadline := time.Now().Add(3 * time.Second)
	tag := fmt.Sprintf("ping-%d", len(e.trace))
	for time.Now().Before(deadline) {
		_ = a.Send([]byte(tag))
		for {
			m, err := b.Recv()
			if err != nil {
				break
			}
			if string(m) == tag {
				e.trace = append(e.trace, "roundtrip ok")
				return
			}
		}
	}
	e.fail("not-usable:"+fmt.Sprint(e.doc["scenario"]), "%s: no message got through within 3s", why)
}

// osBind reports an operating-system bind failure (a port grabbed by an unrelated process),
// as opposed to the library's own ErrAddrInUse.
func osBind(err error) bool {
	return err != nil && err != mangos.ErrAddrInUse && strings.Contains(err.Error(), "bind:")
}

var streamTr = []string{"tcp", "ipc"}
var allTr = fixture.Transports

func rawAddr(addr string) (string, string) {
	if strings.HasPrefix(addr, "ipc://") {
		return "unix", strings.TrimPrefix(addr, "ipc://")
	}
	return "tcp", strings.TrimPrefix(addr, "tcp://")
}

// badAddress draws an address of the transport that cannot be dialled or listened on (or, for a few
// entries, that the transport happens to accept: then nothing has failed and the socket must simply
// keep working).  No entry needs name resolution.
func badAddress(t *rapid.T, tr string) string {
	var pool []string
	switch tr {
	case "tcp", "tls+tcp":
		pool = []string{"127.0.0.1:notaport", "", ":", "127.0.0.1", "127.0.0.1:", "127.0.0.1:99999", "127.0.0.1:-1", "[::1", "[::1]:x", "300.1.1.1:80", "127.0.0.1:80:90", "127.0.0.1:0x50", " 127.0.0.1:80", "127.0.0.1:80/path"}
	case "ws", "wss":
		pool = []string{"127.0.0.1:notaport/x", "", "/", "127.0.0.1", "127.0.0.1:99999/sp", "127.0.0.1:-1/sp", "[::1/sp", "300.1.1.1:80/sp", "127.0.0.1:80:90/sp", "%zz/sp", "127.0.0.1:1/%zz"}
	case "ipc":
		dir := fixture.ScratchDir()
		n := rapid.IntRange(0, 1<<30).Draw(t, "n")
		file := filepath.Join(dir, fmt.Sprintf("regular%d", n))
		_ = os.WriteFile(file, []byte("not a socket"), 0o600)
		sub := filepath.Join(dir, fmt.Sprintf("dir%d", n))
		_ = os.MkdirAll(sub, 0o700)
		long := filepath.Join(dir, strings.Repeat("x", 200))
		pool = []string{"/nonexistent-dir-verif/x/y/z", file, sub, long, "", file + "/below-a-file"}
	default:
		return "inproc://" // accepted by inproc: not an error case
	}
	return tr + "://" + rapid.SampledFrom(pool).Draw(t, "badAddress")
}

func TestC12(t *testing.T) {
	scenarios := []string{"tls-no-config", "tls-no-cert", "addr-in-use", "listen-twice", "dial-refused", "bad-address", "bad-scheme",
		"handshake-garbage", "handshake-truncated", "handshake-fails-dialer", "hook-reject-listener", "hook-reject-dialer", "proto-reject", "proto-reject-dialer", "lost-after-attach",
		"recv-timeout", "send-timeout", "no-peers", "proto-state", "closed-listener", "closed-dialer"}
	rapid.Check(t, func(t *rapid.T) {
		sc := rapid.SampledFrom(scenarios).Draw(t, "scenario")
		var tr string
		switch sc {
		case "tls-no-config":
			tr = rapid.SampledFrom([]string{"tls+tcp", "wss"}).Draw(t, "transport")
		case "tls-no-cert":
			tr = "tls+tcp" // the only transport that documents a no-certificate error
		case "handshake-garbage", "handshake-truncated":
			tr = rapid.SampledFrom(streamTr).Draw(t, "transport")
		case "handshake-fails-dialer":
			tr = rapid.SampledFrom([]string{"tcp", "ipc"}).Draw(t, "transport")
		case "addr-in-use":
			tr = rapid.SampledFrom([]string{"tcp", "ipc", "inproc", "ws", "tls+tcp"}).Draw(t, "transport")
		default:
			tr = rapid.SampledFrom(allTr).Draw(t, "transport")
		}
		e := &env{t: t, doc: map[string]interface{}{"test": "TestC12", "scenario": sc, "transport": tr, "rseed": os.Getenv("VERIF_RSEED")}}
		S := fixture.New("pair")
		peer := fixture.New("pair")
		// a wedged object must not wedge the harness too
		defer fixture.Within(limit, func() { _ = S.Close(); _ = peer.Close() })
		occurred := false
		same := 0
		addr := fixture.Addr(tr)

		asyncOpts := func() map[string]interface{} {
			o := fixture.DialOpts(tr)
			if o == nil {
				o = map[string]interface{}{}
			}
			o[mangos.OptionDialAsynch] = true
			o[mangos.OptionReconnectTime] = 3 * time.Millisecond
			o[mangos.OptionMaxReconnectTime] = 6 * time.Millisecond
			return o
		}

		switch sc {
		case "tls-no-config", "tls-no-cert":
			var opts map[string]interface{}
			if sc == "tls-no-cert" {
				opts = map[string]interface{}{mangos.OptionTLSConfig: &tls.Config{}}
			}
			l, err := S.NewListener(addr, opts)
			if err != nil {
				t.Fatalf("harness: %v", err)
			}
			err, _ = e.call("listener.Listen()", l.Listen)
			occurred = err != nil
			if err == nil {
				e.fail("missing-error:"+sc, "Listen without usable TLS material succeeded")
			}
			same = e.followUps(S, l, nil)
			// correct and retry on the same listener
			if err, _ := e.call("listener.SetOption(TLS-CONFIG,valid)", func() error { return l.SetOption(mangos.OptionTLSConfig, fixture.TLSServer()) }); err != nil {
				e.fail("retry:"+sc, "supplying the TLS config afterwards failed: %v", err)
			}
			if err, _ := e.call("listener.Listen() again", l.Listen); err != nil {
				if osBind(err) {
					t.Skip("port taken by another process meanwhile")
				}
				e.fail("retry:"+sc, "after supplying the missing TLS config, Listen on the same listener still fails: %v", err)
			}
			if _, err := fixture.Dial(peer, addr); err != nil && !e.bad {
				e.fail("retry:"+sc, "a peer cannot connect to the corrected listener: %v", err)
			}
			e.roundTrip(peer, S, "after correcting the TLS configuration")
		case "addr-in-use", "listen-twice":
			var l mangos.Listener
			var X mangos.Socket
			if sc == "addr-in-use" {
				X = fixture.New("pair")
				defer X.Close()
				if err := X.ListenOptions(addr, fixture.ListenOpts(tr)); err != nil {
					t.Skip("port busy")
				}
			}
			l, err := S.NewListener(addr, fixture.ListenOpts(tr))
			if err != nil {
				t.Fatalf("harness: %v", err)
			}
			if sc == "listen-twice" {
				if err, _ := e.call("listener.Listen()", l.Listen); err != nil {
					t.Skip("port busy")
				}
			}
			err, _ = e.call("listener.Listen() [expected to fail]", l.Listen)
			occurred = err != nil
			if err == nil {
				e.fail("missing-error:"+sc, "Listen on an address in use succeeded")
			}
			same = e.followUps(S, l, nil)
			if sc == "addr-in-use" && rapid.Bool().Draw(t, "giveUp") {
				// the loser gives up instead: that must not disturb the
				// listener that owns the address
				e.doc["giveUp"] = true
				e.call("listener.Close() [the one that failed]", l.Close)
				if !e.bad {
					if _, err := fixture.Dial(peer, addr); err != nil {
						e.fail("owner-disturbed:"+sc, "after a second listener failed with address-in-use and was closed, a peer cannot connect to the listener that owns the address: %v", err)
					}
				}
				e.roundTrip(peer, X, "with the listener that owns the address, after the failed one was closed")
				stats.Class("addr_in_use_give_up")
				break
			}
			if sc == "addr-in-use" {
				e.call("other.Close()", X.Close)
				var lerr error
				dl := time.Now().Add(2 * time.Second)
				for {
					lerr, _ = e.call("listener.Listen() again", l.Listen)
					if lerr == nil || e.bad || time.Now().After(dl) {
						break
					}
					time.Sleep(10 * time.Millisecond)
				}
				if osBind(lerr) {
					t.Skip("port taken by another process meanwhile")
				}
				if lerr != nil {
					e.fail("retry:"+sc, "after the address was freed, Listen on the same listener still fails: %v", lerr)
				}
			}
			if !e.bad {
				if _, err := fixture.Dial(peer, addr); err != nil {
					e.fail("retry:"+sc, "a peer cannot connect: %v", err)
				}
			}
			e.roundTrip(peer, S, "after the listener finally listened")
		case "dial-refused":
			d, err := S.NewDialer(addr, fixture.DialOpts(tr))
			if err != nil {
				t.Fatalf("harness: %v", err)
			}
			err, _ = e.call("dialer.Dial() [refused]", d.Dial)
			occurred = err != nil
			if err == nil {
				e.fail("missing-error:"+sc, "synchronous Dial to an absent listener succeeded")
			}
			same = e.followUps(S, nil, d)
			if err := peer.ListenOptions(addr, fixture.ListenOpts(tr)); err != nil {
				t.Skip("port busy")
			}
			if err, _ := e.call("dialer.Dial() again", d.Dial); err != nil {
				e.fail("retry:"+sc, "after the listener was started, Dial on the same dialer fails: %v", err)
			}
			e.roundTrip(S, peer, "after the refused dial was retried")
		case "bad-address", "bad-scheme":
			bad := map[string]string{"bad-scheme": "bogus://127.0.0.1:1", "bad-address": tr + "://"}[sc]
			if sc == "bad-address" {
				bad = badAddress(t, tr)
				e.doc["bad_address"] = bad
			}
			err1, _ := e.call("sock.Dial(bad)", func() error { return S.DialOptions(bad, fixture.DialOpts(tr)) })
			err2, _ := e.call("sock.Listen(bad)", func() error { return S.ListenOptions(bad, fixture.ListenOpts(tr)) })
			occurred = err1 != nil || err2 != nil
			if sc == "bad-scheme" && (err1 != mangos.ErrBadTran || err2 != mangos.ErrBadTran) {
				e.fail("missing-error:"+sc, "unknown scheme: Dial=%v Listen=%v, want ErrBadTran", err1, err2)
			}
			same = e.followUps(S, nil, nil) + 1
			if err := S.ListenOptions(addr, fixture.ListenOpts(tr)); err != nil {
				t.Skip("port busy")
			}
			if _, err := fixture.Dial(peer, addr); err != nil {
				e.fail("retry:"+sc, "after a bad address the socket cannot be used with a good one: %v", err)
			}
			e.roundTrip(peer, S, "after a bad address was rejected")
		case "handshake-garbage", "handshake-truncated":
			l, err := S.NewListener(addr, nil)
			if err != nil {
				t.Fatalf("harness: %v", err)
			}
			if err := l.Listen(); err != nil {
				t.Skip("port busy")
			}
			nw, a := rawAddr(addr)
			nbad := rapid.IntRange(1, 4).Draw(t, "nbad")
			for i := 0; i < nbad; i++ {
				c, err := net.Dial(nw, a)
				if err != nil {
					t.Fatalf("harness: raw dial: %v", err)
				}
				if sc == "handshake-garbage" {
					g := rapid.SliceOfN(rapid.Byte(), 8, 16).Draw(t, "garbage")
					if g[0] == 0 && g[1] == 'S' {
						g[1] = 'X'
					}
					_, _ = c.Write(g)
				} else {
					_, _ = c.Write([]byte{0, 'S', 'P'}[:rapid.IntRange(0, 3).Draw(t, "ntrunc")])
				}
				if rapid.Bool().Draw(t, "closeNow") {
					_ = c.Close()
				} else {
					defer c.Close()
				}
			}
			occurred = true
			same = e.followUps(S, l, nil)
			if _, err := fixture.Dial(peer, addr); err != nil {
				e.fail("retry:"+sc, "after %d failed handshakes a well-behaved peer cannot connect: %v", nbad, err)
			}
			e.roundTrip(peer, S, "after failed handshakes on the listener")
		case "handshake-fails-dialer":
			// the dialer reaches something that is not (yet) a well-behaved SP peer: it answers with
			// garbage, hangs up after reading our header, or hangs up at once; then a real listener
			// takes the address and the same dialer must get through
			nw, a := rawAddr(addr)
			ln, err := net.Listen(nw, a)
			if err != nil {
				t.Skip("port busy")
			}
			d, err := S.NewDialer(addr, asyncOpts())
			if err != nil {
				_ = ln.Close()
				t.Fatalf("harness: %v", err)
			}
			if err, _ := e.call("dialer.Dial() [asynchronous]", d.Dial); err != nil {
				_ = ln.Close()
				e.fail("dial:"+sc, "asynchronous Dial: %v", err)
				break
			}
			nbad := rapid.IntRange(1, 4).Draw(t, "nbad")
			for i := 0; i < nbad; i++ {
				if dl, ok := ln.(interface{ SetDeadline(time.Time) error }); ok {
					_ = dl.SetDeadline(time.Now().Add(3 * time.Second))
				}
				c, err := ln.Accept()
				if err != nil {
					_ = ln.Close()
					e.fail("no-redial:"+sc, "after %d failed handshakes the dialer made no further attempt within 3s", i)
					break
				}
				switch rapid.SampledFrom([]string{"garbage", "eof-after-header", "eof-at-once"}).Draw(t, "how") {
				case "garbage":
					_, _ = c.Write([]byte{0, 'X', 'P', 0, 9, 9, 0, 0})
				case "eof-after-header":
					_ = c.SetReadDeadline(time.Now().Add(time.Second))
					_, _ = io.ReadFull(c, make([]byte, 8))
				}
				_ = c.Close()
			}
			_ = ln.Close()
			if e.bad {
				break
			}
			occurred = true
			same = e.followUps(S, nil, d)
			dl := time.Now().Add(2 * time.Second)
			for {
				err := peer.ListenOptions(addr, fixture.ListenOpts(tr))
				if err == nil {
					break
				}
				if time.Now().After(dl) {
					t.Skip("address not available again")
				}
				time.Sleep(5 * time.Millisecond)
			}
			e.roundTrip(S, peer, "through the same dialer, after its handshakes had failed and a real listener appeared")
		case "hook-reject-listener", "hook-reject-dialer", "proto-reject":
			rejects := rapid.IntRange(1, 3).Draw(t, "rejects")
			hookSock := S
			left := rejects
			if sc != "proto-reject" {
				hookSock.SetPipeEventHook(func(ev mangos.PipeEvent, p mangos.Pipe) {
					if ev == mangos.PipeEventAttaching && left > 0 {
						left--
						_ = p.Close()
					}
				})
			}
			var l mangos.Listener
			var d mangos.Dialer
			var err error
			if sc == "hook-reject-dialer" {
				if err := peer.ListenOptions(addr, fixture.ListenOpts(tr)); err != nil {
					t.Skip("port busy")
				}
				d, err = S.NewDialer(addr, asyncOpts())
				if err != nil {
					t.Fatalf("harness: %v", err)
				}
				e.call("dialer.Dial()", d.Dial)
			} else {
				l, err = S.NewListener(addr, fixture.ListenOpts(tr))
				if err != nil {
					t.Fatalf("harness: %v", err)
				}
				if err := l.Listen(); err != nil {
					t.Skip("port busy")
				}
				if sc == "proto-reject" {
					// a first peer occupies the PAIR socket; intruders are refused by the protocol
					first := fixture.New("pair")
					defer first.Close()
					fev := fixture.Hook(first)
					if _, err := fixture.Dial(first, addr); err != nil {
						t.Fatalf("harness: %v", err)
					}
					fev.WaitAttached(1, 3*time.Second)
					for i := 0; i < rejects; i++ {
						in := fixture.New("pair")
						_ = in.DialOptions(addr, fixture.DialOpts(tr))
						time.Sleep(2 * time.Millisecond)
						_ = in.Close()
					}
					_ = first.Close()
					time.Sleep(5 * time.Millisecond)
				}
				if err := peer.DialOptions(addr, asyncOpts()); err != nil {
					t.Fatalf("harness: %v", err)
				}
			}
			occurred = true
			time.Sleep(10 * time.Millisecond)
			same = e.followUps(S, l, d)
			e.roundTrip(peer, S, fmt.Sprintf("after %d rejected connection(s) the endpoint must carry on", rejects))
		case "proto-reject-dialer":
			// S (PAIR) already has a peer through its listener; a dialer of S reaches a second
			// listener, so S's own protocol refuses that pipe (repeatedly).  The dialer must carry
			// on: once the first peer has gone it takes over.
			l, err := S.NewListener(addr, fixture.ListenOpts(tr))
			if err != nil {
				t.Fatalf("harness: %v", err)
			}
			if err := l.Listen(); err != nil {
				t.Skip("port busy")
			}
			first := fixture.New("pair")
			fev := fixture.Hook(first)
			if _, err := fixture.Dial(first, addr); err != nil {
				t.Fatalf("harness: %v", err)
			}
			if !fev.WaitAttached(1, 3*time.Second) {
				t.Fatalf("harness: first peer not attached")
			}
			addr2 := fixture.Addr(tr)
			if err := peer.ListenOptions(addr2, fixture.ListenOpts(tr)); err != nil {
				_ = first.Close()
				t.Skip("port busy")
			}
			d, err := S.NewDialer(addr2, asyncOpts())
			if err != nil {
				t.Fatalf("harness: %v", err)
			}
			e.call("dialer.Dial()", d.Dial)
			time.Sleep(time.Duration(rapid.IntRange(5, 40).Draw(t, "refusalMs")) * time.Millisecond) // several refusals
			occurred = true
			same = e.followUps(S, nil, d)
			e.call("first.Close()", first.Close)
			e.roundTrip(S, peer, "after the protocol refused the dialer's connections while another peer was attached, the dialer must take over once that peer is gone")
		case "lost-after-attach":
			l, err := S.NewListener(addr, fixture.ListenOpts(tr))
			if err != nil {
				t.Fatalf("harness: %v", err)
			}
			if err := l.Listen(); err != nil {
				t.Skip("port busy")
			}
			n := rapid.IntRange(1, 3).Draw(t, "losses")
			for i := 0; i < n; i++ {
				tmp := fixture.New("pair")
				tev := fixture.Hook(tmp)
				if _, err := fixture.Dial(tmp, addr); err == nil {
					tev.WaitAttached(1, time.Second)
				}
				_ = tmp.Close()
			}
			occurred = true
			same = e.followUps(S, l, nil)
			if err := peer.DialOptions(addr, asyncOpts()); err != nil {
				t.Fatalf("harness: %v", err)
			}
			e.roundTrip(peer, S, "after connections were lost right after attach")
		case "recv-timeout", "send-timeout", "no-peers", "proto-state":
			var X mangos.Socket
			var err error
			switch sc {
			case "recv-timeout":
				X = fixture.New(rapid.SampledFrom([]string{"pair", "sub", "pull", "rep", "bus", "xreq", "respondent"}).Draw(t, "sock"))
				_ = X.SetOption(mangos.OptionRecvDeadline, 5*time.Millisecond)
				err, _ = e.call("Recv()", func() error { _, err := X.Recv(); return err })
			case "send-timeout":
				X = fixture.New(rapid.SampledFrom([]string{"pair", "push", "req", "xreq", "pair1"}).Draw(t, "sock"))
				_ = X.SetOption(mangos.OptionSendDeadline, 5*time.Millisecond)
				_ = X.SetOption(mangos.OptionWriteQLen, 1)
				for i := 0; i < 4 && err == nil; i++ {
					err, _ = e.call("Send()", func() error { return X.Send([]byte("x")) })
				}
			case "no-peers":
				X = fixture.New(rapid.SampledFrom([]string{"push", "req", "xpush"}).Draw(t, "sock"))
				_ = X.SetOption(mangos.OptionFailNoPeers, true)
				err, _ = e.call("Send()", func() error { return X.Send([]byte("x")) })
			case "proto-state":
				X = fixture.New(rapid.SampledFrom([]string{"req", "rep", "surveyor", "respondent"}).Draw(t, "sock"))
				_ = X.SetOption(mangos.OptionRecvDeadline, 5*time.Millisecond)
				_ = X.SetOption(mangos.OptionSendDeadline, 5*time.Millisecond)
				if X.Info().SelfName == "req" || X.Info().SelfName == "surveyor" {
					err, _ = e.call("Recv() without request", func() error { _, err := X.Recv(); return err })
				} else {
					err, _ = e.call("Send() without request", func() error { return X.Send([]byte("x")) })
				}
			}
			defer X.Close()
			occurred = err != nil
			if err == nil {
				e.fail("missing-error:"+sc, "expected an error from %s on %s", sc, X.Info().SelfName)
			}
			e.doc["socket"] = X.Info().SelfName
			same = e.followUps(X, nil, nil) + 1
			// the socket must still be able to listen and be closed
			e.call("Listen(inproc)", func() error { return X.Listen(fixture.Addr("inproc")) })
			e.call("Close()", X.Close)
		case "closed-listener":
			l, err := S.NewListener(addr, fixture.ListenOpts(tr))
			if err != nil {
				t.Fatalf("harness: %v", err)
			}
			if rapid.Bool().Draw(t, "listenFirst") {
				if err := l.Listen(); err != nil {
					t.Skip("port busy")
				}
			}
			e.call("listener.Close()", l.Close)
			err, _ = e.call("listener.Listen() after Close", l.Listen)
			occurred = err != nil
			if err != mangos.ErrClosed {
				e.fail("missing-error:"+sc, "Listen on a closed listener = %v, want ErrClosed", err)
			}
			same = e.followUps(S, l, nil)
			addr2 := fixture.Addr(tr)
			if err := S.ListenOptions(addr2, fixture.ListenOpts(tr)); err != nil {
				t.Skip("port busy")
			}
			if _, err := fixture.Dial(peer, addr2); err != nil {
				e.fail("retry:"+sc, "socket unusable after a listener was closed: %v", err)
			}
			e.roundTrip(peer, S, "after a listener was closed, through a new listener")
		case "closed-dialer":
			d, err := S.NewDialer(addr, asyncOpts())
			if err != nil {
				t.Fatalf("harness: %v", err)
			}
			if rapid.Bool().Draw(t, "dialFirst") {
				e.call("dialer.Dial()", d.Dial)
			}
			e.call("dialer.Close()", d.Close)
			err, _ = e.call("dialer.Dial() after Close", d.Dial)
			occurred = err != nil
			if err == nil {
				e.fail("missing-error:"+sc, "Dial on a closed dialer succeeded")
			}
			same = e.followUps(S, nil, d)
			addr2 := fixture.Addr(tr)
			if err := peer.ListenOptions(addr2, fixture.ListenOpts(tr)); err != nil {
				t.Skip("port busy")
			}
			if _, err := fixture.Dial(S, addr2); err != nil {
				e.fail("retry:"+sc, "socket unusable after a dialer was closed: %v", err)
			}
			e.roundTrip(S, peer, "after a dialer was closed, through a new dialer")
		}
		// the socket itself must close
		e.call("sock.Close()", S.Close)
		if e.bad {
			return
		}
		stats.Eval()
		stats.Class("scenario:" + sc)
		stats.Class("tr:" + tr)
		if occurred && same > 0 {
			stats.NonTrivial(fmt.Sprintf("%s|%s|%v", sc, tr, e.trace))
		}
		stats.Sample(map[string]interface{}{"scenario": sc, "transport": tr, "calls": e.trace})
	})
}
