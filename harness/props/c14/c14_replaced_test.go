package c14

import (
	"fmt"
	"os"
	"sync"
	"testing"
	"time"

	"go.nanomsg.org/mangos/v3"
	"go.nanomsg.org/mangos/v3/verifharness/fixture"
	"go.nanomsg.org/mangos/v3/verifharness/stats"
	"pgregory.net/rapid"
)

// TestC14ListenerReplaced: the listener goes away while a dial attempt is in progress — its
// accept loop is held inside an Attaching callback for an earlier connection, so the new
// attempt is parked (inproc) or sits in the handshake (stream transports) — and another
// socket then listens on the same address.  The dialer must notice, redial and carry traffic
// to the new listener without application action.
func TestC14ListenerReplaced(t *testing.T) {
	stats.ScaledChecks(10, 4, func() {
		rapid.Check(t, func(t *rapid.T) {
			tr := rapid.SampledFrom([]string{"inproc", "inproc", "tcp", "ipc", "ws", "tls+tcp"}).Draw(t, "transport")
			r := rapid.SampledFrom([]int{5, 20, 50}).Draw(t, "r")
			parkMs := rapid.SampledFrom([]int{0, 5, 40}).Draw(t, "parkMs")
			ndial := rapid.IntRange(1, 3).Draw(t, "dialers")
			doc := map[string]interface{}{"test": "TestC14ListenerReplaced", "transport": tr, "r_ms": r, "park_ms": parkMs, "dialers": ndial, "rseed": os.Getenv("VERIF_RSEED")}
			fail := func(k, f string, a ...interface{}) {
				stats.Fail(t, "C14:replaced-"+k, doc, "%s r=%dms: %s", tr, r, fmt.Sprintf(f, a...))
			}
			addr := fixture.Addr(tr)
			old := fixture.New("pull")
			gate := make(chan struct{})
			entered := make(chan struct{}, 16)
			var once sync.Once
			release := func() { once.Do(func() { close(gate) }) }
			defer release()
			old.SetPipeEventHook(func(ev mangos.PipeEvent, _ mangos.Pipe) {
				if ev == mangos.PipeEventAttaching {
					entered <- struct{}{}
					<-gate
				}
			})
			if err := old.ListenOptions(addr, fixture.ListenOpts(tr)); err != nil {
				_ = old.Close()
				t.Skip("port busy")
			}
			dopts := func() map[string]interface{} {
				o := fixture.DialOpts(tr)
				if o == nil {
					o = map[string]interface{}{}
				}
				o[mangos.OptionDialAsynch] = true
				o[mangos.OptionReconnectTime] = time.Duration(r) * time.Millisecond
				o[mangos.OptionMaxReconnectTime] = time.Duration(2*r) * time.Millisecond
				return o
			}
			// the first connection holds the accept loop
			first := fixture.New("push")
			defer first.Close()
			if err := first.DialOptions(addr, dopts()); err != nil {
				_ = old.Close()
				t.Fatalf("harness: %v", err)
			}
			select {
			case <-entered:
			case <-time.After(5 * time.Second):
				_ = old.Close()
				t.Fatalf("harness: first connection never reached the Attaching callback")
			}
			// the dialers under test start while nobody is accepting
			clis := make([]mangos.Socket, ndial)
			for i := range clis {
				clis[i] = fixture.New("push")
				defer clis[i].Close()
				_ = clis[i].SetOption(mangos.OptionSendDeadline, 50*time.Millisecond)
				if err := clis[i].DialOptions(addr, dopts()); err != nil {
					_ = old.Close()
					fail("dial", "asynchronous Dial: %v", err)
					return
				}
			}
			time.Sleep(time.Duration(parkMs) * time.Millisecond)
			// the listener goes away (its callback is let go once Close is under way) ...
			closed := make(chan struct{})
			go func() { _ = old.Close(); close(closed) }()
			time.Sleep(2 * time.Millisecond)
			release()
			select {
			case <-closed:
			case <-time.After(10 * time.Second):
				fail("close-hangs", "closing the first listening socket did not return within 10s")
				return
			}
			// ... and another one takes the address
			repl := fixture.New("pull")
			defer repl.Close()
			_ = repl.SetOption(mangos.OptionRecvDeadline, 100*time.Millisecond)
			dl := time.Now().Add(3 * time.Second)
			for {
				err := repl.ListenOptions(addr, fixture.ListenOpts(tr))
				if err == nil {
					break
				}
				if time.Now().After(dl) {
					t.Skip("address not available again")
				}
				time.Sleep(5 * time.Millisecond)
			}
			seen := map[string]bool{}
			deadline := time.Now().Add(5 * time.Second)
			for time.Now().Before(deadline) && len(seen) < ndial {
				for i, c := range clis {
					if !seen[fmt.Sprintf("cli%d", i)] {
						_ = c.Send([]byte(fmt.Sprintf("cli%d", i)))
					}
				}
				for {
					b, err := repl.Recv()
					if err != nil {
						break
					}
					seen[string(b)] = true
				}
			}
			for i := range clis {
				if !seen[fmt.Sprintf("cli%d", i)] {
					fail("no-traffic", "dialer %d of %d, whose attempt was pending when the listener went away, carried no message to the replacement listener within 5s (reconnect time %dms): it did not redial", i, ndial, r)
					return
				}
			}
			stats.Eval()
			stats.Class("replaced:" + tr)
			stats.NonTrivial(fmt.Sprintf("LR|%s|%d|%d|%d", tr, r, parkMs, ndial))
			stats.Sample(doc)
		})
	})
}
