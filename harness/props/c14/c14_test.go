// C14 — dialers reconnect after loss, back off as configured, stop when closed.
//
// The virtual transport time-stamps every Dial invocation and answers it from a
// generated script (refuse / connect-then-reject / connect-then-drop / connect-and-stay
// / hang).  Oracle over the attempt log: synchronous first failure stops, otherwise
// attempts continue; every gap >= reconnect time (exact lower bound), grown lower
// bound after consecutive refusals, capped upper bound, reset after a lasting attach,
// no attempt starts after Close.  Tight upper bounds use the 3x re-execution rule.
package c14

import (
	"fmt"
	"math"
	"os"
	"sync"
	"testing"
	"time"

	"go.nanomsg.org/mangos/v3"
	"go.nanomsg.org/mangos/v3/protocol"
	"go.nanomsg.org/mangos/v3/protocol/bus"
	"go.nanomsg.org/mangos/v3/verifharness/fixture"
	"go.nanomsg.org/mangos/v3/verifharness/stats"
	"go.nanomsg.org/mangos/v3/verifharness/vt"
	"pgregory.net/rapid"
)

func TestMain(m *testing.M) {
	stats.Init("C14")
	stats.Rule("dial scripts of 3-14 steps over {refuse, reject (closed in Attaching), drop after 0/5/120 ms, stay}, ReconnectTime r in {5,10,20,50 ms}, MaxReconnectTime in {0,r,2r,8r,40r}, DialAsynch in {true,false}, Close of dialer or socket at a drawn phase (between attempts, during a hanging attempt, while connected); dedicated reset scripts (>=10 refusals, lasting attach, drop); real-socket variant with the listener restarted 1-3 times. Also: rejection by the Attaching callback or by the protocol's AddPipe; listener closed and replaced on the same address while 1-3 dial attempts are pending (5 transports). Non-trivial: >=2 faults in sequence; distinct by (script, r, max, asynch, close phase)")
	stats.Assume("lower bounds (gap >= reconnect time / grown delay) are exact; upper bounds carry 40 ms + 5 % slack and, like the back-off reset and no-attempt-after-Close checks, count only if they fail in 3 consecutive executions of the same case")
	rc := m.Run()
	stats.Flush()
	fixture.Cleanup()
	os.Exit(rc)
}

type step struct {
	Kind  string `json:"kind"` // refuse | reject | drop | stay
	Delta int    `json:"delta_ms,omitempty"`
}

type scenario struct {
	Test      string `json:"test"`
	R         int    `json:"r_ms"`
	Max       int    `json:"max_ms"`
	Asynch    bool   `json:"asynch"`
	Steps     []step `json:"steps"`
	CloseAt   int    `json:"close_at"`   // after this many steps (len = at the end)
	CloseWhat string `json:"close_what"` // dialer | socket
	CloseHang bool   `json:"close_during_attempt"`
	RejectBy  string `json:"reject_by"` // "" / "hook": closed in the Attaching callback; "protocol": the protocol's AddPipe refuses
	RSeed     string `json:"rseed"`
}

type verdict struct {
	key, msg string
	soft     bool // timing-sensitive: subject to the 3x rule
}

// slackFor is the tolerance added to an upper bound on a gap: scheduling noise plus 5 %.  It is
// deliberately small (a delay that overshoots the configured maximum by 10-50 % must be visible);
// gaps that exceed it are "soft" violations, reported only when 3 executions in a row show them.
func slackFor(upper time.Duration) time.Duration { return 40*time.Millisecond + upper/20 }

// run executes the scenario once and returns the violations it saw.
func run(sc scenario) (vs []verdict, harnessErr error) {
	r := time.Duration(sc.R) * time.Millisecond
	max := time.Duration(sc.Max) * time.Millisecond
	var mu sync.Mutex
	rejectNext := false
	ref := &refuser{Protocol: bus.NewProtocol(), mu: &mu}
	sock := protocol.MakeSocket(ref)
	defer sock.Close()
	ep := vt.New()
	defer ep.Forget()
	add := func(soft bool, key, f string, a ...interface{}) {
		vs = append(vs, verdict{key, fmt.Sprintf(f, a...), soft})
	}

	// hook: reject plan + attach tracking
	attached, detached := 0, 0
	cv := sync.NewCond(&mu)
	sock.SetPipeEventHook(func(ev mangos.PipeEvent, p mangos.Pipe) {
		mu.Lock()
		rej := false
		switch ev {
		case mangos.PipeEventAttaching:
			rej = rejectNext
			rejectNext = false
		case mangos.PipeEventAttached:
			attached++
		case mangos.PipeEventDetached:
			detached++
		}
		cv.Broadcast()
		mu.Unlock()
		if rej {
			_ = p.Close()
		}
	})
	waitCount := func(d time.Duration, f func() bool) bool {
		deadline := time.Now().Add(d)
		tm := time.AfterFunc(d, func() { mu.Lock(); cv.Broadcast(); mu.Unlock() })
		defer tm.Stop()
		mu.Lock()
		defer mu.Unlock()
		for !f() {
			if !time.Now().Before(deadline) {
				return false
			}
			cv.Wait()
		}
		return true
	}

	outcomes := make(chan step, len(sc.Steps)+1)
	hang := make(chan struct{})
	pipes := make(chan *vt.Pipe, len(sc.Steps)+1)
	ep.SetDial(func(n int) (*vt.Pipe, error) {
		select {
		case st := <-outcomes:
			switch st.Kind {
			case "refuse":
				return nil, mangos.ErrConnRefused
			case "reject":
				mu.Lock()
				if sc.RejectBy == "protocol" {
					ref.next = true
				} else {
					rejectNext = true
				}
				mu.Unlock()
				p := ep.NewPipe()
				pipes <- p
				return p, nil
			default:
				p := ep.NewPipe()
				pipes <- p
				return p, nil
			}
		default:
		}
		<-hang // script exhausted: the attempt hangs until the case ends
		return nil, mangos.ErrConnRefused
	})
	var hangOnce sync.Once
	releaseHang := func() { hangOnce.Do(func() { close(hang) }) }
	defer releaseHang()

	d, err := sock.NewDialer(ep.Addr, map[string]interface{}{
		mangos.OptionReconnectTime: r, mangos.OptionMaxReconnectTime: max, mangos.OptionDialAsynch: sc.Asynch})
	if err != nil {
		return nil, err
	}
	steps := sc.Steps
	closeAt := sc.CloseAt
	if closeAt > len(steps) {
		closeAt = len(steps)
	}
	for _, st := range steps[:closeAt] {
		outcomes <- st
	}
	t0 := time.Now()
	derr := d.Dial()
	// synchronous dial: the first step decides
	if !sc.Asynch && closeAt > 0 {
		first := steps[0]
		if first.Kind == "refuse" {
			if derr == nil {
				add(false, "sync-dial-error-lost", "synchronous Dial returned nil although the connection was refused")
			}
			// no further attempt may follow
			time.Sleep(3*r + 30*time.Millisecond)
			if n := len(ep.Attempts()); n > 1 {
				add(false, "sync-redial-after-failure", "after a failed synchronous first Dial %d further attempt(s) were made", n-1)
			}
			return vs, nil
		}
		if derr != nil && first.Kind != "reject" {
			add(false, "sync-dial-error", "synchronous Dial returned %v although the connection was established", derr)
		}
	} else if sc.Asynch && derr != nil {
		add(false, "async-dial-error", "asynchronous Dial returned %v", derr)
		return vs, nil
	}
	_ = t0

	// walk the script
	prevEvent := time.Time{} // End of previous attempt, or drop time
	refusalsSinceAttach := 0
	lastWasRefusal := false
	var lastAttachAt time.Time
	resetCheck := false // the next gap must show the reset
	grownBefore := 0
	curUpper := r
	for i := 0; i < closeAt; i++ {
		st := steps[i]
		// wait for attempt i to finish
		upper := r
		if max != 0 && lastWasRefusal {
			g := time.Duration(float64(r) * math.Pow(1.5, float64(refusalsSinceAttach)))
			if g > max || g <= 0 {
				g = max
			}
			upper = g
		} else if max != 0 {
			upper = max
		}
		curUpper = upper
		if !ep.WaitAttempts(i+1, upper+3*time.Second) {
			add(false, "no-redial", "attempt %d did not happen within %v after the previous one ended (the dialer gave up while open)", i, upper+3*time.Second)
			return vs, nil
		}
		at := ep.Attempts()[i]
		if i > 0 {
			gap := at.Start.Sub(prevEvent)
			lower := r
			if max != 0 && lastWasRefusal {
				g := time.Duration(float64(r) * math.Pow(1.09, float64(refusalsSinceAttach-1)))
				if g > max {
					g = max
				}
				if g > lower {
					lower = g
				}
			}
			if gap < lower {
				add(false, "gap-too-short", "attempt %d started %v after the previous attempt/connection ended; the delay must be at least %v (r=%v max=%v, %d consecutive refusals)", i, gap, lower, r, max, refusalsSinceAttach)
			}
			if gap > upper+slackFor(upper) {
				add(true, "gap-too-long", "attempt %d started %v after the previous one ended; expected at most %v (r=%v max=%v, %d consecutive refusals)", i, gap, upper, r, max, refusalsSinceAttach)
			}
			if resetCheck {
				resetCheck = false
				bound := time.Duration(float64(r) * math.Pow(1.09, float64(grownBefore)))
				if max != 0 && bound > max {
					bound = max
				}
				if bound > r+2*time.Millisecond && gap >= bound {
					add(true, "no-reset-after-attach", "after %d refusals and a connection that lasted >=100 ms the next attempt came after %v: the delay was not reset to the initial %v (grown delay >= %v)", grownBefore, gap, r, bound)
				}
			}
		}
		switch st.Kind {
		case "refuse":
			prevEvent = at.End
			refusalsSinceAttach++
			lastWasRefusal = true
		case "reject":
			prevEvent = at.End
			lastWasRefusal = false
			p := <-pipes
			if !p.WaitClosed(3 * time.Second) {
				add(false, "rejected-pipe-open", "a pipe rejected (%s) was not closed", sc.RejectBy)
			}
		case "drop", "stay":
			p := <-pipes
			mu.Lock()
			want := attached + 1
			mu.Unlock()
			_ = want
			if !waitCount(3*time.Second, func() bool { return attached-detached >= 1 }) {
				add(false, "no-attach", "established connection %d was not attached within 3s", i)
				return vs, nil
			}
			lastAttachAt = time.Now()
			grown := refusalsSinceAttach
			refusalsSinceAttach = 0
			lastWasRefusal = false
			if st.Kind == "stay" && i == closeAt-1 {
				pipes <- p // still connected at close time
				continue
			}
			time.Sleep(time.Duration(st.Delta) * time.Millisecond)
			if time.Since(lastAttachAt) >= 100*time.Millisecond && grown >= 8 {
				resetCheck = true
				grownBefore = grown
			}
			prevEvent = time.Now()
			_ = p.Close()
			if !waitCount(3*time.Second, func() bool { return attached == detached }) {
				add(false, "no-detach", "dropped connection %d was not detached", i)
			}
		}
	}
	// Close at the chosen phase
	connected := closeAt > 0 && steps[closeAt-1].Kind == "stay"
	if sc.CloseHang && !connected {
		// let the next attempt start and hang, then close during the attempt
		ep.WaitStarted(closeAt+1, curUpper+3*time.Second)
	}
	nBefore := len(ep.Attempts())
	var cerr error
	if sc.CloseWhat == "socket" {
		cerr = sock.Close()
	} else {
		cerr = d.Close()
	}
	tClose := time.Now()
	releaseHang() // a hanging attempt now fails; the closed dialer must not try again
	if cerr != nil {
		add(false, "close-error", "Close returned %v", cerr)
	}
	// watch: no attempt may START after Close returned
	watch := curUpper + 200*time.Millisecond
	if max != 0 && max > watch {
		watch = max + 200*time.Millisecond
	}
	if watch > 1200*time.Millisecond {
		watch = 1200 * time.Millisecond
	}
	// if connected, drop the connection now: a closed dialer must not redial
	select {
	case p := <-pipes:
		_ = p.Close()
	default:
	}
	time.Sleep(watch)
	for _, a := range ep.Attempts()[nBefore:] {
		if a.Start.After(tClose) {
			add(true, "attempt-after-close", "a connection attempt started %v after Close(%s) had returned", a.Start.Sub(tClose), sc.CloseWhat)
			break
		}
	}
	return vs, nil
}

// refuser lets the protocol itself refuse the next pipe (a rejection at the protocol stage).
type refuser struct {
	protocol.Protocol
	mu   *sync.Mutex
	next bool
}

func (r *refuser) AddPipe(p protocol.Pipe) error {
	r.mu.Lock()
	rej := r.next
	r.next = false
	r.mu.Unlock()
	if rej {
		return mangos.ErrProtoState
	}
	return r.Protocol.AddPipe(p)
}

func genScenario(t *rapid.T) scenario {
	sc := scenario{Test: "TestC14", RSeed: os.Getenv("VERIF_RSEED")}
	sc.RejectBy = rapid.SampledFrom([]string{"hook", "protocol"}).Draw(t, "rejectBy")
	sc.R = rapid.SampledFrom([]int{5, 10, 20, 50}).Draw(t, "r")
	sc.Max = sc.R * rapid.SampledFrom([]int{0, 1, 2, 8, 40}).Draw(t, "maxMul")
	sc.Asynch = rapid.Bool().Draw(t, "asynch")
	if rapid.IntRange(0, 9).Draw(t, "capScript") == 0 {
		// dedicated cap script: refusals until the delay has reached the maximum, then connections
		// that are rejected before they attach (the delay neither grows nor shrinks), then success
		sc.R = 50
		sc.Max = 600
		sc.Asynch = true
		n := rapid.IntRange(11, 12).Draw(t, "nrefCap")
		for i := 0; i < n; i++ {
			sc.Steps = append(sc.Steps, step{Kind: "refuse"})
		}
		sc.Steps = append(sc.Steps, step{Kind: "reject"}, step{Kind: "reject"}, step{Kind: "stay"})
		sc.CloseAt = len(sc.Steps)
		sc.CloseWhat = rapid.SampledFrom([]string{"dialer", "socket"}).Draw(t, "closeWhat")
		return sc
	}
	if rapid.IntRange(0, 5).Draw(t, "resetScript") == 0 {
		// dedicated reset script
		sc.R = 5
		sc.Max = 200
		sc.Asynch = true
		n := rapid.IntRange(10, 13).Draw(t, "nref")
		for i := 0; i < n; i++ {
			sc.Steps = append(sc.Steps, step{Kind: "refuse"})
		}
		sc.Steps = append(sc.Steps, step{Kind: "drop", Delta: 120}, step{Kind: "refuse"}, step{Kind: "stay"})
	} else {
		n := rapid.IntRange(3, 12).Draw(t, "nsteps")
		for i := 0; i < n; i++ {
			k := rapid.SampledFrom([]string{"refuse", "refuse", "refuse", "reject", "drop", "stay"}).Draw(t, "kind")
			st := step{Kind: k}
			if k == "drop" || k == "stay" {
				st.Delta = rapid.SampledFrom([]int{0, 5, 120}).Draw(t, "delta")
				st.Kind = "drop"
				if k == "stay" && i == n-1 {
					st.Kind = "stay"
				}
			}
			sc.Steps = append(sc.Steps, st)
		}
	}
	sc.CloseAt = rapid.IntRange(1, len(sc.Steps)).Draw(t, "closeAt")
	sc.CloseWhat = rapid.SampledFrom([]string{"dialer", "socket"}).Draw(t, "closeWhat")
	sc.CloseHang = rapid.Bool().Draw(t, "closeDuringAttempt")
	return sc
}

func TestC14(t *testing.T) {
	stats.ScaledChecks(4, 5, func() {
		rapid.Check(t, func(t *rapid.T) {
			sc := genScenario(t)
			var hard *verdict
			softCount := map[string]int{}
			var lastSoft map[string]verdict
			for attempt := 0; attempt < 3; attempt++ {
				vs, err := run(sc)
				if err != nil {
					t.Fatalf("harness: %v", err)
				}
				soft := map[string]verdict{}
				for i := range vs {
					if !vs[i].soft {
						hard = &vs[i]
						break
					}
					soft[vs[i].key] = vs[i]
				}
				if hard != nil || len(soft) == 0 {
					lastSoft = nil
					if hard == nil {
						softCount = map[string]int{}
					}
					break
				}
				for k := range soft {
					softCount[k]++
				}
				lastSoft = soft
				stats.AddExtra("timing_retries", 1)
			}
			if hard != nil {
				stats.Fail(t, "C14:"+hard.key, sc, "r=%dms max=%dms asynch=%v: %s (script %v, close %s after %d steps)", sc.R, sc.Max, sc.Asynch, hard.msg, sc.Steps, sc.CloseWhat, sc.CloseAt)
			}
			for k, n := range softCount {
				if n >= 3 && lastSoft != nil {
					v := lastSoft[k]
					stats.Fail(t, "C14:"+k, sc, "r=%dms max=%dms asynch=%v (3 of 3 executions): %s (script %v, close %s after %d steps)", sc.R, sc.Max, sc.Asynch, v.msg, sc.Steps, sc.CloseWhat, sc.CloseAt)
				}
			}
			stats.Eval()
			faults := 0
			canon := fmt.Sprintf("%d|%d|%v|%d|%s|%v|", sc.R, sc.Max, sc.Asynch, sc.CloseAt, sc.CloseWhat, sc.CloseHang) + sc.RejectBy
			for i, s := range sc.Steps {
				if i < sc.CloseAt && s.Kind != "stay" {
					faults++
				}
				canon += s.Kind[:2]
			}
			if faults >= 2 {
				stats.NonTrivial(canon)
			}
			stats.Class(fmt.Sprintf("asynch=%v", sc.Asynch))
			stats.Class("close:" + sc.CloseWhat)
			stats.Sample(sc)
		})
	})
}

// TestC14Resume: real sockets; the listener goes away and comes back, traffic resumes
// on the new connection without any action on the dialing side.
func TestC14Resume(t *testing.T) {
	stats.ScaledChecks(12, 3, func() {
		rapid.Check(t, func(t *rapid.T) {
			tr := rapid.SampledFrom([]string{"inproc", "tcp", "ipc"}).Draw(t, "transport")
			restarts := rapid.IntRange(1, 3).Draw(t, "restarts")
			asynch := rapid.Bool().Draw(t, "asynchFirst")
			doc := map[string]interface{}{"test": "TestC14Resume", "transport": tr, "restarts": restarts, "asynch": asynch, "rseed": os.Getenv("VERIF_RSEED")}
			fail := func(k, f string, a ...interface{}) {
				stats.Fail(t, "C14:resume-"+k, doc, "%s restarts=%d: %s", tr, restarts, fmt.Sprintf(f, a...))
			}
			addr := fixture.Addr(tr)
			cli := fixture.New("pair")
			defer cli.Close()
			_ = cli.SetOption(mangos.OptionSendDeadline, 50*time.Millisecond)
			opts := fixture.DialOpts(tr)
			if opts == nil {
				opts = map[string]interface{}{}
			}
			opts[mangos.OptionReconnectTime] = 5 * time.Millisecond
			opts[mangos.OptionMaxReconnectTime] = 20 * time.Millisecond
			opts[mangos.OptionDialAsynch] = asynch
			mkServer := func() mangos.Socket {
				s := fixture.New("pair")
				_ = s.SetOption(mangos.OptionRecvDeadline, 100*time.Millisecond)
				deadline := time.Now().Add(3 * time.Second)
				for {
					err := s.ListenOptions(addr, fixture.ListenOpts(tr))
					if err == nil {
						return s
					}
					if time.Now().After(deadline) {
						t.Fatalf("harness: cannot listen on %s again: %v", addr, err)
					}
					time.Sleep(5 * time.Millisecond)
				}
			}
			var srv mangos.Socket
			if !asynch {
				srv = mkServer() // synchronous dial needs the listener first
			}
			if err := cli.DialOptions(addr, opts); err != nil {
				fail("dial", "Dial: %v", err)
				return
			}
			if srv == nil {
				srv = mkServer()
			}
			for gen := 0; gen <= restarts; gen++ {
				// a tagged message must get through within 5 s (client keeps sending; messages sent
				// while disconnected may be lost, that is allowed)
				tag := fmt.Sprintf("gen%d", gen)
				ok := false
				deadline := time.Now().Add(5 * time.Second)
				for time.Now().Before(deadline) && !ok {
					_ = cli.Send([]byte(tag))
					for {
						b, err := srv.Recv()
						if err != nil {
							break
						}
						if string(b) == tag {
							ok = true
							break
						}
					}
				}
				if !ok {
					fail("no-traffic", "after restart %d of the listener no message got through within 5s: the dialer did not re-establish the connection", gen)
					_ = srv.Close()
					return
				}
				_ = srv.Close()
				if gen < restarts {
					srv = mkServer()
				}
			}
			stats.Eval()
			stats.Class("resume:" + tr)
			stats.NonTrivial(fmt.Sprintf("R|%s|%d|%v", tr, restarts, asynch))
			stats.Sample(doc)
		})
	})
}
