package c03

import (
	"encoding/binary"
	"fmt"
	"os"
	"testing"
	"time"

	"go.nanomsg.org/mangos/v3"
	"go.nanomsg.org/mangos/v3/verifharness/fixture"
	"go.nanomsg.org/mangos/v3/verifharness/stats"
	"go.nanomsg.org/mangos/v3/verifharness/vt"
	"pgregory.net/rapid"
)

// TestC03IDWrap: request ids come from a 32-bit counter seeded with the clock.  The socket is
// created at a moment when the clock's low 31 bits are just below their wrap, so that the counter
// crosses 2^31 (and, every other time, 2^32) within the case's 60 000 - 100 000 requests.  Every
// request on the wire must carry an id with the top bit set (it ends the routing header: a
// replier cannot parse the request otherwise), consecutive requests must have different ids, and
// after the crossing a reply to the current id is delivered while one to the previous id is not.
func TestC03IDWrap(t *testing.T) {
	stats.ScaledChecks(400, 2, func() {
		rapid.Check(t, func(t *rapid.T) {
			windowUs := rapid.SampledFrom([]int{20, 40, 60}).Draw(t, "windowUs")
			useCtx := rapid.Bool().Draw(t, "context")
			doc := map[string]interface{}{"test": "TestC03IDWrap", "window_us": windowUs, "context": useCtx, "rseed": os.Getenv("VERIF_RSEED")}
			fail := func(k, f string, a ...interface{}) {
				stats.Fail(t, "C03:idwrap-"+k, doc, "REQ socket created %dus before the clock's low 31 bits wrap: %s", windowUs, fmt.Sprintf(f, a...))
			}
			// wait for the moment (period 2.147 s)
			const period = int64(1) << 31
			var sock mangos.Socket
			for {
				left := period - time.Now().UnixNano()&(period-1)
				if left <= int64(windowUs)*1000 {
					sock = fixture.New("req")
					break
				}
				if left > 3_000_000 {
					time.Sleep(time.Duration(left-2_000_000) * time.Nanosecond)
				}
			}
			defer sock.Close()
			ep, err := vt.Attach(sock)
			if err != nil {
				t.Fatalf("harness: %v", err)
			}
			defer ep.Forget()
			ev := fixture.Hook(sock)
			p, ok := ep.ConnectWait(5 * time.Second)
			if !ok || !ev.WaitAttached(1, 5*time.Second) {
				t.Fatalf("harness: pipe not attached")
			}
			var on mangos.Context = sock
			if useCtx {
				if on, err = sock.OpenContext(); err != nil {
					t.Fatalf("harness: %v", err)
				}
			}
			_ = on.SetOption(mangos.OptionRetryTime, time.Minute)
			_ = on.SetOption(mangos.OptionRecvDeadline, 2*time.Second)
			total := windowUs*1000 + 40000 // the counter is at most windowUs*1000 (+ scheduling slack) below the wrap
			var prev uint32
			crossed := false
			checked := 0
			for sent := 0; sent < total; {
				burst := 32
				for i := 0; i < burst; i++ {
					if err := on.Send([]byte("s")); err != nil {
						fail("send", "request %d: %v", sent, err)
						return
					}
					sent++
				}
				if !p.WaitSent(sent, 3*time.Second) {
					fail("not-sent", "request %d was not transmitted to the connected replier within 3s", sent)
					return
				}
				log := p.SentLog()
				for ; checked < len(log); checked++ {
					d := log[checked].Data
					if len(d) < 4 {
						fail("wire", "request %d went out as %x", checked, d)
						return
					}
					id := binary.BigEndian.Uint32(d)
					if id&0x80000000 == 0 {
						fail("top-bit", "request %d (previous id %#08x) went out with id %#08x: the top bit that ends the routing header is missing, no replier can parse it", checked, prev, id)
						return
					}
					if checked > 0 && id == prev {
						fail("repeat", "requests %d and %d went out with the same id %#08x", checked-1, checked, id)
						return
					}
					if checked > 0 && id < prev {
						crossed = true
					}
					prev = id
				}
			}
			// one full round after the crossing (everything sent so far is known to be transmitted)
			n := p.SentCount() + 1
			if err := on.Send([]byte("last")); err != nil {
				fail("send", "last request: %v", err)
				return
			}
			if !p.WaitSent(n, 3*time.Second) {
				fail("not-sent", "the last request was not transmitted within 3s")
				return
			}
			cur := p.SentLog()[n-1].Data[:4]
			old := make([]byte, 4)
			binary.BigEndian.PutUint32(old, prev)
			p.Inject(append(append([]byte{}, old...), "stale"...), 3*time.Second)
			p.Inject(append(append([]byte{}, cur...), "fresh"...), 3*time.Second)
			m, err := on.Recv()
			if err != nil || string(m) != "fresh" {
				fail("round", "after %d requests a reply to the current id %x was sent after one to the previous id %x: Recv returned (%q, %v), want \"fresh\"", n, cur, old, m, err)
				return
			}
			stats.Eval()
			if crossed {
				stats.Class("id_counter_crossed_2^31")
				stats.NonTrivial(fmt.Sprintf("IDW|%d|%v|%d", windowUs, useCtx, prev>>20))
			} else {
				stats.Class("id_counter_did_not_cross")
			}
			stats.Sample(doc)
		})
	})
}
