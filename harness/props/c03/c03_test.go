// C03 — REQ returns only the reply to its current request.
//
// State-machine test: a real REQ socket with 1..3 contexts is attached to 1..3
// virtual-transport pipes on which the harness plays the REP peers at transport
// message level.  A reference model tracks, per context, the current request id
// and the first valid reply; every Recv result is compared with the model.
package c03

import (
	"encoding/binary"
	"fmt"
	"os"
	"testing"
	"time"

	"go.nanomsg.org/mangos/v3"
	"go.nanomsg.org/mangos/v3/protocol/req"
	"go.nanomsg.org/mangos/v3/verifharness/fixture"
	"go.nanomsg.org/mangos/v3/verifharness/stats"
	"go.nanomsg.org/mangos/v3/verifharness/vt"
	"pgregory.net/rapid"
)

func TestMain(m *testing.M) {
	stats.Init("C03")
	stats.Rule("rapid state machine over a REQ socket with 1-3 contexts on 1-3 vt pipes; actions send/reply(kind)/recv/recvAsync/openCtx/closeCtx/dropPipe/addPipe; reply kinds: current, stale, other context, cancelled, duplicate, no request bit, random id, short body. Also: retry time default | 10 ms | 0 (disabled); 10 ms retry time with starve/release (all peers back-pressure) and forged replies carrying the next consecutive ids while a Send waits untransmitted. Non-trivial: history delivers >=1 non-current reply while a request is outstanding, or uses >=2 contexts with requests, or overlaps an async Recv with a Send; distinct by the sequence of (action, kind, outcome)")
	stats.Assume("replies are injected with the vt barrier (receiver back in Recv), so 'arrived' is exact; Recv that the model predicts to block is issued with a 40 ms deadline")
	rc := m.Run()
	stats.Flush()
	os.Exit(rc)
}

type asyncRes struct {
	b   []byte
	err error
}

type mctx struct {
	c        mangos.Context
	isSock   bool
	closed   bool
	curID    uint32
	curTag   string
	has      bool // request outstanding
	answered bool
	reply    []byte
	async    chan asyncRes
	oldIDs   []uint32
	nsent    int
}

type machine struct {
	t       *rapid.T
	sock    mangos.Socket
	ep      *vt.Endpoint
	ev      *fixture.Events
	pipes   []*vt.Pipe
	seen    map[*vt.Pipe]int
	ctxs    []*mctx
	serial  int
	trace   []string
	canon   string
	nonCur  int
	overlap bool
	multi   map[int]bool
	retry   time.Duration // 0 = library default (1 minute)
	noRetry bool          // RETRY-TIME 0: re-transmission disabled (a lost connection cancels; dropPipe is not drawn)
	starved bool          // all pipes are back-pressuring: re-transmissions pile up in the send queue
	starves int
}

// release lets every pipe transmit again.
func (m *machine) release() {
	if m.starved {
		for _, p := range m.pipes {
			p.SetMode(vt.ModeAccept, nil)
		}
		m.starved = false
		m.logf("release")
	}
}

func (m *machine) logf(format string, a ...interface{}) {
	s := fmt.Sprintf(format, a...)
	m.trace = append(m.trace, s)
}

func (m *machine) doc() interface{} {
	return map[string]interface{}{"test": "TestC03", "trace": m.trace, "rseed": os.Getenv("VERIF_RSEED")}
}

func (m *machine) fail(key, format string, a ...interface{}) {
	stats.Fail(m.t, "C03:"+key, m.doc(), format+" — history: %v", append(a, m.trace)...)
}

func (m *machine) addPipe() {
	p, ok := m.ep.ConnectWait(5 * time.Second)
	if !ok {
		m.t.Fatalf("harness: pipe not attached")
	}
	m.pipes = append(m.pipes, p)
}

// findTransmission waits for a new transmission whose body equals tag and returns its id.
func (m *machine) findTransmission(tag string, d time.Duration) (uint32, bool) {
	deadline := time.Now().Add(d)
	for {
		for _, p := range m.pipes {
			log := p.SentLog()
			for i := m.seen[p]; i < len(log); i++ {
				s := log[i]
				if len(s.Data) >= 4 && string(s.Data[4:]) == tag {
					m.seen[p] = i + 1
					return binary.BigEndian.Uint32(s.Data[:4]), true
				}
			}
		}
		if time.Now().After(deadline) {
			return 0, false
		}
		time.Sleep(200 * time.Microsecond)
	}
}

func errName(err error) string {
	if err == nil {
		return "nil"
	}
	return err.Error()
}

func (m *machine) expectAsync(c *mctx, ci int, wantErr error, wantBody []byte, why string) {
	select {
	case r := <-c.async:
		c.async = nil
		if wantErr != nil {
			if r.err != wantErr {
				if r.err == nil {
					m.fail("async-wrong-delivery", "ctx %d: pending Recv returned payload %q after %s, want error %v", ci, r.b, why, wantErr)
				} else {
					m.fail("async-wrong-error", "ctx %d: pending Recv returned %v after %s, want %v", ci, r.err, why, wantErr)
				}
			}
		} else if r.err != nil || string(r.b) != string(wantBody) {
			m.fail("async-wrong-reply", "ctx %d: pending Recv returned (%q,%v) after %s, want %q", ci, r.b, r.err, why, wantBody)
		}
	case <-time.After(3 * time.Second):
		m.fail("async-stuck", "ctx %d: pending Recv still blocked 3s after %s (want %v/%q)", ci, why, wantErr, wantBody)
		c.async = nil
	}
}

func TestC03(t *testing.T) {
	rapid.Check(t, func(t *rapid.T) {
		sock, err := req.NewSocket()
		if err != nil {
			t.Fatalf("harness: %v", err)
		}
		defer sock.Close()
		m := &machine{t: t, sock: sock, seen: map[*vt.Pipe]int{}, multi: map[int]bool{}}
		m.ev = fixture.Hook(sock)
		m.ep, err = vt.Attach(sock)
		if err != nil {
			t.Fatalf("harness: %v", err)
		}
		defer m.ep.Forget()
		_ = sock.SetOption(mangos.OptionSendDeadline, 3*time.Second)
		switch rapid.IntRange(0, 3).Draw(t, "fastRetry") {
		case 0:
			// short retry time: re-transmissions happen during the history (needed for "starve")
			m.retry = 10 * time.Millisecond
			if err := sock.SetOption(mangos.OptionRetryTime, m.retry); err != nil {
				t.Fatalf("harness: %v", err)
			}
		case 3:
			// re-transmission disabled: no request ever has a retry timer
			m.noRetry = true
			if err := sock.SetOption(mangos.OptionRetryTime, time.Duration(0)); err != nil {
				t.Fatalf("harness: %v", err)
			}
		}
		np := rapid.IntRange(1, 3).Draw(t, "npipes")
		for i := 0; i < np; i++ {
			m.addPipe()
		}
		m.ctxs = append(m.ctxs, &mctx{c: sock, isSock: true})

		pickCtx := func(label string) (int, *mctx) {
			i := rapid.IntRange(0, len(m.ctxs)-1).Draw(t, label)
			if m.ctxs[i].closed && rapid.IntRange(0, 3).Draw(t, label+"keepClosed") != 0 {
				i = 0
			}
			return i, m.ctxs[i]
		}

		acts := map[string]func(*rapid.T){
			"send": func(t *rapid.T) {
				ci, c := pickCtx("ctx")
				m.release() // a Send needs a pipe that takes the message
				c.nsent++
				tag := fmt.Sprintf("Q%d:%d", ci, c.nsent)
				err := c.c.Send([]byte(tag))
				m.logf("send(ctx%d,%s)=%s", ci, tag, errName(err))
				if c.closed {
					if err != mangos.ErrClosed {
						m.fail("send-closed", "Send on closed ctx %d returned %v, want ErrClosed", ci, err)
					}
					return
				}
				if err != nil {
					m.fail("send-error", "Send on ctx %d failed: %v (a pipe was ready)", ci, err)
					return
				}
				id, ok := m.findTransmission(tag, 3*time.Second)
				if !ok {
					m.fail("no-transmission", "request %s accepted by Send was not transmitted on any pipe within 3s", tag)
					return
				}
				if id&0x80000000 == 0 {
					m.fail("id-no-request-bit", "request id %08x lacks the request bit", id)
				}
				if c.async != nil {
					m.overlap = true
					m.expectAsync(c, ci, mangos.ErrCanceled, nil, "a new Send on the same context")
				}
				if c.has {
					c.oldIDs = append(c.oldIDs, c.curID)
				}
				for oi, o := range m.ctxs {
					if o != c && o.has && o.curID == id {
						m.fail("id-collision", "ctx %d and ctx %d share request id %08x", ci, oi, id)
					}
				}
				c.curID, c.curTag, c.has, c.answered, c.reply = id, tag, true, false, nil
				m.multi[ci] = true
				m.canon += "S"
			},
			"reply": func(t *rapid.T) {
				pi := rapid.IntRange(0, len(m.pipes)-1).Draw(t, "pipe")
				kind := rapid.SampledFrom([]string{"current", "current", "current", "stale", "other", "dup", "nobit", "random", "short"}).Draw(t, "kind")
				ci, c := pickCtx("forctx")
				m.serial++
				payload := []byte(fmt.Sprintf("R%d:%s:ctx%d", m.serial, kind, ci))
				var id uint32
				haveID := true
				switch kind {
				case "current":
					if !c.has {
						haveID = false
					}
					id = c.curID
				case "stale", "dup":
					if len(c.oldIDs) == 0 {
						haveID = false
					} else {
						id = c.oldIDs[rapid.IntRange(0, len(c.oldIDs)-1).Draw(t, "old")]
					}
				case "other":
					// a current id, delivered while we look at another context: same as current of ctx ci
					if !c.has {
						haveID = false
					}
					id = c.curID
				case "nobit":
					if !c.has {
						haveID = false
					}
					id = c.curID & 0x7fffffff
				case "random":
					id = rapid.Uint32().Draw(t, "rid")
				}
				var wire []byte
				if kind == "short" {
					wire = make([]byte, rapid.IntRange(0, 3).Draw(t, "shortlen"))
					if c.has {
						var idb [4]byte
						binary.BigEndian.PutUint32(idb[:], c.curID)
						copy(wire, idb[:])
					}
				} else {
					if !haveID {
						id = rapid.Uint32().Draw(t, "rid2")
						kind = "random"
					}
					wire = make([]byte, 4, 4+len(payload))
					binary.BigEndian.PutUint32(wire, id)
					wire = append(wire, payload...)
				}
				res := m.pipes[pi].Inject(wire, 3*time.Second)
				m.logf("reply(pipe%d,%s,id=%08x,%q)=%d", pi, kind, id, payload, res)
				if res != vt.InjProcessed {
					m.fail("receiver-stalled", "pipe %d receiver did not process an injected reply within 3s (result %d)", pi, res)
					return
				}
				// model
				matched := false
				if kind != "short" {
					for oi, o := range m.ctxs {
						if !o.closed && o.has && !o.answered && o.curID == id {
							o.answered, o.reply = true, payload
							matched = true
							if o.async != nil {
								m.expectAsync(o, oi, nil, payload, "its reply arrived")
								o.oldIDs = append(o.oldIDs, o.curID)
								o.has, o.answered, o.reply = false, false, nil
							}
						}
					}
				}
				if !matched {
					for _, o := range m.ctxs {
						if o.has && !o.answered {
							m.nonCur++
							break
						}
					}
				}
				m.canon += "r" + kind[:1]
				if matched {
					m.canon += "+"
				}
			},
			"recv": func(t *rapid.T) {
				ci, c := pickCtx("ctx")
				wantBlock := !c.closed && c.async == nil && c.has && !c.answered
				d := 3 * time.Second
				if wantBlock {
					d = 40 * time.Millisecond
				}
				if !c.closed {
					if err := c.c.SetOption(mangos.OptionRecvDeadline, d); err != nil {
						t.Fatalf("harness: set deadline: %v", err)
					}
				}
				start := time.Now()
				b, err := c.c.Recv()
				el := time.Since(start)
				m.logf("recv(ctx%d)=(%q,%s)", ci, b, errName(err))
				m.canon += "R"
				switch {
				case c.closed:
					if err != mangos.ErrClosed {
						m.fail("recv-closed", "Recv on closed ctx %d returned (%q,%v), want ErrClosed", ci, b, err)
					}
				case c.async != nil:
					if err != mangos.ErrProtoState {
						m.fail("recv-while-pending", "second Recv on ctx %d while one is pending returned (%q,%v), want ErrProtoState", ci, b, err)
					}
				case !c.has:
					if err == nil {
						m.fail("delivered-without-request", "Recv on ctx %d with no request outstanding returned %q", ci, b)
					} else if err != mangos.ErrProtoState {
						m.fail("recv-nostate-error", "Recv on ctx %d with no request outstanding returned %v, want ErrProtoState", ci, err)
					}
				case c.answered:
					if err != nil {
						m.fail("reply-lost", "Recv on ctx %d returned %v although the reply %q to its current request had arrived", ci, err, c.reply)
					} else if string(b) != string(c.reply) {
						m.fail("wrong-reply", "Recv on ctx %d returned %q, want the first valid reply %q to request %s", ci, b, c.reply, c.curTag)
					}
					c.oldIDs = append(c.oldIDs, c.curID)
					c.has, c.answered, c.reply = false, false, nil
					m.canon += "+"
				default:
					if err == nil {
						m.fail("wrong-delivery", "Recv on ctx %d returned %q although no valid reply to request %s (id %08x) had arrived", ci, b, c.curTag, c.curID)
					} else if err != mangos.ErrRecvTimeout {
						m.fail("recv-timeout-error", "Recv on ctx %d returned %v, want ErrRecvTimeout", ci, err)
					} else if el < d {
						m.fail("timeout-early", "Recv timed out after %v, before its %v deadline", el, d)
					}
					// the request timed out: it is abandoned
					c.oldIDs = append(c.oldIDs, c.curID)
					c.has = false
					m.canon += "t"
				}
			},
			"recvAsync": func(t *rapid.T) {
				ci, c := pickCtx("ctx")
				if c.closed || c.async != nil || !c.has || c.answered {
					t.Skip("not applicable")
				}
				if err := c.c.SetOption(mangos.OptionRecvDeadline, time.Duration(0)); err != nil {
					t.Fatalf("harness: %v", err)
				}
				ch := make(chan asyncRes, 1)
				before := fixture.CountGoroutines("protocol/req.(*context).RecvMsg", "sync.(*Cond).Wait")
				c.async = ch
				cc := c.c
				go func() {
					b, err := cc.Recv()
					ch <- asyncRes{b, err}
				}()
				// Wait until the Recv is really blocked inside the library.
				if !fixture.WaitGoroutines(before+1, 3*time.Second, "protocol/req.(*context).RecvMsg", "sync.(*Cond).Wait") {
					select {
					case r := <-ch:
						m.fail("async-early-return", "ctx %d: blocking Recv returned (%q,%v) with no reply", ci, r.b, r.err)
						c.async = nil
						return
					default:
					}
					t.Fatalf("harness: async recv never became pending")
				}
				m.logf("recvAsync(ctx%d)", ci)
				m.canon += "A"
			},
			"starve": func(t *rapid.T) {
				// All peers stop taking data: re-transmissions of outstanding requests are handed to
				// the pipes until every pipe is busy, after which the requests wait in the send
				// queue.  Whatever is cancelled or replaced in that state must still be forgotten.
				if m.retry == 0 || m.starved {
					t.Skip("needs the short retry time")
				}
				outstanding := false
				for _, c := range m.ctxs {
					if !c.closed && c.has && !c.answered {
						outstanding = true
					}
				}
				if !outstanding {
					t.Skip("nothing outstanding")
				}
				for _, p := range m.pipes {
					p.SetMode(vt.ModeBlock, nil)
				}
				m.starved = true
				m.starves++
				time.Sleep(time.Duration(len(m.pipes)+2)*m.retry + 10*time.Millisecond)
				m.logf("starve")
				m.canon += "V"
			},
			"forgedWhileQueued": func(t *rapid.T) {
				// While every pipe is busy a new request can only wait in the send queue: nobody has
				// seen it, so nothing a peer sends can be its reply — not even a message carrying the
				// id it is going to get (ids are consecutive, a peer can guess).
				if !m.starved || len(m.ctxs) >= 4 {
					t.Skip("needs the starved state")
				}
				f, err := m.sock.OpenContext()
				if err != nil {
					m.fail("opencontext", "OpenContext: %v", err)
					return
				}
				var maxID uint32
				for _, c := range m.ctxs {
					if c.curID > maxID {
						maxID = c.curID
					}
					for _, o := range c.oldIDs {
						if o > maxID {
							maxID = o
						}
					}
				}
				sendDone := make(chan error, 1)
				go func() { sendDone <- f.Send([]byte("QUEUED")) }()
				time.Sleep(5 * time.Millisecond)
				pi := rapid.IntRange(0, len(m.pipes)-1).Draw(t, "pipe")
				for k := uint32(1); k <= 3; k++ {
					wire := make([]byte, 4, 16)
					binary.BigEndian.PutUint32(wire, (maxID+k)|0x80000000)
					wire = append(wire, []byte(fmt.Sprintf("FORGED+%d", k))...)
					if res := m.pipes[pi].Inject(wire, 3*time.Second); res != vt.InjProcessed {
						m.fail("receiver-stalled", "pipe %d receiver did not process an injected reply within 3s (result %d)", pi, res)
						return
					}
				}
				m.logf("forgedWhileQueued(pipe%d, ids %08x+1..3)", pi, maxID)
				// If the Send gets through after all (a pipe was free: the starved state is best effort),
				// the request has been seen and the guessed ids are no longer forgeries: no verdict then.
				sent := false
				select {
				case err := <-sendDone:
					if err != nil {
						m.fail("queued-send-aborted", "a Send waiting in the queue (all pipes busy, request never transmitted) returned %v after a peer sent messages carrying guessed request ids", err)
						_ = f.Close()
						return
					}
					sent = true
				case <-time.After(30 * time.Millisecond):
				}
				if !sent {
					_ = f.SetOption(mangos.OptionRecvDeadline, 30*time.Millisecond)
					b, err := f.Recv()
					if err == nil {
						// delivered: legitimate only if the request was transmitted meanwhile, in which
						// case the Send is about to report success
						select {
						case serr := <-sendDone:
							sent = true
							if serr != nil {
								m.fail("forged-reply-delivered", "Recv returned %q for a request whose Send then failed with %v (a peer guessed its id)", b, serr)
							}
						case <-time.After(time.Second):
							m.fail("forged-reply-delivered", "Recv returned %q for a request that was never transmitted (a peer guessed its id; its Send is still waiting)", b)
						}
					}
				}
				_ = f.Close()
				if !sent {
					select {
					case <-sendDone:
					case <-time.After(3 * time.Second):
						m.fail("send-stuck", "Send on a closed context did not return within 3s")
					}
				} else {
					stats.Class("forged_case_without_verdict_send_got_through")
				}
				stats.Class("forged_reply_for_queued_request")
				m.canon += "F"
			},
			"release": func(t *rapid.T) {
				if !m.starved {
					t.Skip("not starved")
				}
				m.release()
				m.canon += "v"
			},
			"openCtx": func(t *rapid.T) {
				if len(m.ctxs) >= 3 {
					t.Skip("enough contexts")
				}
				c, err := m.sock.OpenContext()
				if err != nil {
					m.fail("opencontext", "OpenContext: %v", err)
					return
				}
				m.ctxs = append(m.ctxs, &mctx{c: c})
				m.logf("openCtx=%d", len(m.ctxs)-1)
				m.canon += "O"
			},
			"closeCtx": func(t *rapid.T) {
				ci, c := pickCtx("ctx")
				if c.isSock || c.closed {
					t.Skip("not closable")
				}
				err := c.c.Close()
				m.logf("closeCtx(%d)=%s", ci, errName(err))
				if err != nil {
					m.fail("ctx-close", "closing ctx %d: %v", ci, err)
				}
				c.closed = true
				if c.async != nil {
					m.expectAsync(c, ci, mangos.ErrClosed, nil, "its context was closed")
				}
				if c.has {
					c.oldIDs = append(c.oldIDs, c.curID)
				}
				c.has = false
				m.canon += "C"
			},
			"dropPipe": func(t *rapid.T) {
				if len(m.pipes) < 2 || m.noRetry {
					t.Skip("keep one pipe; without retries a lost connection cancels requests (C04's subject)")
				}
				m.release()
				pi := rapid.IntRange(0, len(m.pipes)-1).Draw(t, "pipe")
				before := m.ev.Detached()
				_ = m.pipes[pi].Close()
				if !m.ev.WaitDetached(before+1, 3*time.Second) {
					m.fail("no-detach", "pipe %d dropped by the peer was not detached within 3s", pi)
				}
				m.pipes = append(m.pipes[:pi], m.pipes[pi+1:]...)
				m.logf("dropPipe(%d)", pi)
				m.canon += "D"
			},
			"addPipe": func(t *rapid.T) {
				if len(m.pipes) >= 3 {
					t.Skip("enough pipes")
				}
				m.release()
				m.addPipe()
				m.logf("addPipe")
				m.canon += "P"
			},
		}
		// weights: replies, sends and receives are the interesting actions
		acts["send2"] = acts["send"]
		acts["reply2"] = acts["reply"]
		acts["reply3"] = acts["reply"]
		acts["reply4"] = acts["reply"]
		acts["recv2"] = acts["recv"]
		acts["recvAsync2"] = acts["recvAsync"]
		acts["starve2"] = acts["starve"]
		t.Repeat(acts)

		m.release()
		// drain pending async receivers
		for _, c := range m.ctxs {
			if c.async != nil && !c.closed {
				_ = c.c.Close()
			}
		}
		_ = sock.Close()
		for ci, c := range m.ctxs {
			if c.async != nil {
				select {
				case r := <-c.async:
					if r.err != mangos.ErrClosed {
						m.fail("async-close", "ctx %d: pending Recv returned (%q,%v) on close, want ErrClosed", ci, r.b, r.err)
					}
				case <-time.After(3 * time.Second):
					m.fail("async-stuck-close", "ctx %d: pending Recv still blocked 3s after socket close", ci)
				}
			}
		}

		stats.Eval()
		nmulti := 0
		for range m.multi {
			nmulti++
		}
		if m.nonCur > 0 {
			stats.Class("noncurrent_reply_while_outstanding")
		}
		if nmulti >= 2 {
			stats.Class("multi_context")
		}
		if m.overlap {
			stats.Class("async_recv_overlapped_by_send")
		}
		if m.noRetry {
			stats.Class("retry_disabled")
		}
		if m.starves > 0 {
			stats.Class("starved_retransmission")
		}
		if m.nonCur > 0 || nmulti >= 2 || m.overlap || m.starves > 0 {
			stats.NonTrivial(m.canon)
		}
		stats.Sample(map[string]interface{}{"trace": m.trace})
	})
}
