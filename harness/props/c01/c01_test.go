// C01 — messages arrive byte-identical and whole over every transport.
//
// Generator: configuration (6 transports x 8 patterns x {cooked,raw}) enumerated;
// per case a fresh connection, a receive limit (default 1 MiB or a small drawn one)
// and a sequence of body lengths biased to the buffer-pool class boundaries and
// to the receive limit.  Oracle: round trip — the receiver sees exactly the
// sender's sequence, element-wise, followed by a sentinel (nothing extra queued).
package c01

import (
	"bytes"
	"fmt"
	"os"
	"strconv"
	"testing"
	"time"

	"go.nanomsg.org/mangos/v3"
	"go.nanomsg.org/mangos/v3/verifharness/fixture"
	"go.nanomsg.org/mangos/v3/verifharness/stats"
	"pgregory.net/rapid"
)

func TestMain(m *testing.M) {
	stats.Init("C01")
	stats.Rule("config axis (transport x pattern x mode) enumerated across shards; per case a fresh link, a drawn receive limit and 1-12 body lengths drawn from pool-class/limit boundaries (c-h-1..c-h+1, c-1..c+1, L-h-1, L-h), small and uniform values; content = PRF(key,index). Also: broadcasting patterns optionally with a second receiver. Non-trivial: the sequence contains a length adjacent (+-1, +-h) to a pool class or to the limit, or >=2 different pool classes back to back; distinct by (transport, pattern, mode, limit class, sorted size classes). Round 5: raw request/survey messages with application-built backtraces of 1-15 words (headers > 32 bytes), header filled before or after the body")
	stats.Assume("sizes above 1 MiB and MaxRecvSize=0 are outside the domain")
	rc := m.Run()
	stats.Flush()
	fixture.Cleanup()
	os.Exit(rc)
}

type pattern struct {
	name         string
	a, b         string // cooked constructor names: a sends first
	xa, xb       string // raw ones
	reply        bool   // b answers a (req/rep style)
	hdrAB, hdrBA int    // protocol header bytes on the wire
	symmetric    bool
}

var patterns = []pattern{
	{"pair", "pair", "pair", "xpair", "xpair", false, 0, 0, true},
	{"pair1", "pair1", "pair1", "xpair1", "xpair1", false, 4, 4, true},
	{"reqrep", "req", "rep", "xreq", "xrep", true, 4, 4, false},
	{"pubsub", "pub", "sub", "xpub", "xsub", false, 0, 0, false},
	{"pushpull", "push", "pull", "xpush", "xpull", false, 0, 0, false},
	{"survey", "surveyor", "respondent", "xsurveyor", "xrespondent", true, 4, 4, false},
	{"bus", "bus", "bus", "xbus", "xbus", false, 0, 0, true},
	{"star", "star", "star", "xstar", "xstar", false, 4, 4, true},
}

var classes = []int{64, 128, 256, 512, 1024, 4096, 8192, 65536}

const defaultLimit = 1024 * 1024

type config struct {
	tr   string
	pat  pattern
	raw  bool
	name string
}

func allConfigs() []config {
	var out []config
	for _, tr := range fixture.Transports {
		for _, p := range patterns {
			for _, raw := range []bool{false, true} {
				m := "cooked"
				if raw {
					m = "raw"
				}
				out = append(out, config{tr, p, raw, fmt.Sprintf("%s/%s/%s", tr, p.name, m)})
			}
		}
	}
	return out
}

func sizeClass(n int) int {
	for i, c := range classes {
		if n < c {
			return i
		}
	}
	return len(classes)
}

// near reports whether n is adjacent to a pool class (for header size h) or the limit.
func near(n, h, limit int) bool {
	for _, c := range classes {
		for _, hh := range []int{0, h, 4, 8} {
			d := n - (c - hh)
			if d >= -1 && d <= 1 {
				return true
			}
		}
	}
	d := limit - h - n
	return d >= 0 && d <= 1
}

func genSize(t *rapid.T, label string, h, limit int) int {
	maxBody := limit - h
	var n int
	switch rapid.IntRange(0, 9).Draw(t, label+"kind") {
	case 0, 1, 2, 3:
		c := rapid.SampledFrom(classes).Draw(t, label+"class")
		hh := rapid.SampledFrom([]int{0, 4, 8, h}).Draw(t, label+"h")
		n = c - hh + rapid.IntRange(-1, 1).Draw(t, label+"delta")
	case 4:
		n = rapid.IntRange(0, 2).Draw(t, label+"tiny")
	case 5:
		n = rapid.IntRange(0, 300).Draw(t, label+"small")
	case 6:
		n = rapid.IntRange(0, 70000).Draw(t, label+"uni")
	case 7, 8:
		// adjacent to the limit (only cheap when the limit is small; for the
		// default 1 MiB limit one case in ten may do it)
		if limit < defaultLimit || rapid.IntRange(0, 9).Draw(t, label+"big") == 0 {
			n = maxBody - rapid.IntRange(0, 1).Draw(t, label+"lim")
		} else {
			n = rapid.IntRange(0, 1100).Draw(t, label+"mid")
		}
	case 9:
		n = rapid.IntRange(60, 1100).Draw(t, label+"mid2")
	}
	if n < 0 {
		n = 0
	}
	if n > maxBody {
		n = maxBody
	}
	return n
}

type caseDoc struct {
	Test    string `json:"test"`
	Config  string `json:"config"`
	Limit   int    `json:"limit"`
	Sizes   []int  `json:"sizes"`
	RSizes  []int  `json:"reply_sizes,omitempty"`
	Key     uint64 `json:"key"`
	Flip    bool   `json:"flip"`
	Pipelnd bool   `json:"pipelined"`
	MsgAPI  bool   `json:"msg_api"`
	Ctx     bool   `json:"contexts"`
	Fan     bool   `json:"two_receivers"`
	Stale   bool   `json:"stale_header"`
	Hops    int    `json:"raw_backtrace_words,omitempty"`
	HdrFrst bool   `json:"header_filled_first,omitempty"`
	RSeed   string `json:"rseed"`
}

func setOpt(t *rapid.T, s mangos.Socket, n string, v interface{}) {
	if err := s.SetOption(n, v); err != nil {
		t.Fatalf("harness: SetOption(%s,%v): %v", n, v, err)
	}
}

func rawHeader(proto string, id uint32) []byte {
	switch proto {
	case "xreq", "xsurveyor":
		id |= 0x80000000
		return []byte{byte(id >> 24), byte(id >> 16), byte(id >> 8), byte(id)}
	case "xpair1", "xstar":
		return []byte{0, 0, 0, 0}
	}
	return nil
}

// fixedSizes, when set, replaces the generated size sequence (exhaustive boundary sweep).
var fixedSizes []int

func runCase(t *rapid.T, cfg config) {
	doc := caseDoc{Test: "TestC01", Config: cfg.name, RSeed: os.Getenv("VERIF_RSEED")}
	limit := defaultLimit
	if fixedSizes == nil && rapid.IntRange(0, 2).Draw(t, "smallLimit") == 0 {
		limit = rapid.IntRange(16, 4096).Draw(t, "limit")
	}
	doc.Limit = limit
	pat := cfg.pat
	an, bn := pat.a, pat.b
	if cfg.raw {
		an, bn = pat.xa, pat.xb
	}
	flip := rapid.Bool().Draw(t, "flip") // who listens
	doc.Flip = flip
	n := rapid.IntRange(1, 12).Draw(t, "n")
	if fixedSizes != nil {
		n = len(fixedSizes)
	}
	key := rapid.Uint64().Draw(t, "key")
	doc.Key = key
	sizes := make([]int, n)
	rsizes := make([]int, n)
	for i := range sizes {
		if fixedSizes != nil {
			sizes[i], rsizes[i] = fixedSizes[i], fixedSizes[n-1-i]
			continue
		}
		sizes[i] = genSize(t, fmt.Sprintf("s%d", i), pat.hdrAB, limit)
		if pat.reply {
			rsizes[i] = genSize(t, fmt.Sprintf("r%d", i), pat.hdrBA, limit)
		}
	}
	doc.Sizes = sizes
	if pat.reply {
		doc.RSizes = rsizes
	}
	pipelined := !pat.reply && rapid.Bool().Draw(t, "pipelined")
	doc.Pipelnd = pipelined
	msgAPI := cfg.raw || rapid.Bool().Draw(t, "msgAPI")
	doc.MsgAPI = msgAPI
	// Cooked sockets of the patterns that own the header (they write or strip it themselves) take no
	// header from the application: a message re-used from elsewhere may still carry one.
	stale := !cfg.raw && msgAPI && pat.name != "pair" && pat.name != "pubsub" && pat.name != "pushpull" && rapid.IntRange(0, 3).Draw(t, "staleHeader") == 0
	doc.Stale = stale

	// Raw request/survey messages may carry a backtrace as if they had crossed devices: the header the
	// application builds is then longer than the 32 bytes a new message reserves for it.
	hops := 0
	if cfg.raw && pat.reply && fixedSizes == nil && limit >= 256 {
		hops = rapid.SampledFrom([]int{0, 0, 1, 6, 7, 8, 9, 15}).Draw(t, "backtraceWords")
		for i := range sizes {
			if max := limit - 4*hops - 16; hops > 0 && sizes[i] > max {
				sizes[i] = max
			}
			if max := limit - 4*hops - 16; hops > 0 && rsizes[i] > max {
				rsizes[i] = max
			}
		}
	}
	headerFirst := cfg.raw && rapid.Bool().Draw(t, "headerFirst")
	doc.Hops, doc.HdrFrst = hops, headerFirst
	backtrace := make([]byte, 4*hops)
	for i := range backtrace {
		backtrace[i] = byte(key>>uint(8*(i%8))) ^ byte(i)
		if i%4 == 0 {
			backtrace[i] &= 0x7f // not the last word
		}
	}

	a, b := fixture.New(an), fixture.New(bn)
	defer a.Close()
	defer b.Close()
	// the broadcasting patterns may have a second receiver: one send then yields one receive on each,
	// and the same message object goes out twice
	fan := (pat.name == "pubsub" || pat.name == "bus" || pat.name == "star" || pat.name == "survey") && fixedSizes == nil && rapid.Bool().Draw(t, "twoReceivers")
	doc.Fan = fan
	socks := []mangos.Socket{a, b}
	recvs := []mangos.Socket{b}
	if fan {
		b2 := fixture.New(bn)
		defer b2.Close()
		socks = append(socks, b2)
		recvs = append(recvs, b2)
	}
	for _, s := range socks {
		setOpt(t, s, mangos.OptionMaxRecvSize, limit)
		_ = s.SetOption(mangos.OptionRecvDeadline, 10*time.Second)
		_ = s.SetOption(mangos.OptionSendDeadline, 10*time.Second)
	}
	if pat.name == "survey" && !cfg.raw {
		setOpt(t, a, mangos.OptionSurveyTime, 20*time.Second)
	}
	for _, rb := range recvs {
		if hops > 0 {
			setOpt(t, rb, mangos.OptionTTL, 255)
		}
		if bn == "sub" {
			setOpt(t, rb, mangos.OptionSubscribe, []byte{})
		}
		var err error
		if flip {
			_, err = fixture.Connect(rb, a, cfg.tr)
		} else {
			_, err = fixture.Connect(a, rb, cfg.tr)
		}
		if err != nil {
			t.Fatalf("harness: connect %s: %v", cfg.name, err)
		}
	}

	// Where the pattern has contexts, a case may go through Context.Send/Recv instead of the socket.
	useCtx := !cfg.raw && (pat.name == "reqrep" || pat.name == "survey" || pat.name == "pubsub") && rapid.Bool().Draw(t, "useContexts")
	doc.Ctx = useCtx
	handle := map[mangos.Socket]mangos.Context{}
	for _, s := range socks {
		handle[s] = s
	}
	if useCtx {
		for _, s := range socks {
			if c, err := s.OpenContext(); err == nil {
				_ = c.SetOption(mangos.OptionRecvDeadline, 10*time.Second)
				_ = c.SetOption(mangos.OptionSendDeadline, 10*time.Second)
				if pat.name == "survey" {
					_ = c.SetOption(mangos.OptionSurveyTime, 20*time.Second)
				}
				if s != a && bn == "sub" {
					_ = c.SetOption(mangos.OptionSubscribe, []byte{})
				}
				handle[s] = c
			}
		}
	}
	send := func(sk mangos.Socket, proto string, hdr []byte, body []byte) error {
		s := handle[sk]
		if !msgAPI {
			// the caller's buffer is the caller's again once Send has returned: reuse it at once
			buf := append([]byte(nil), body...)
			err := s.Send(buf)
			for i := range buf {
				buf[i] = 0xEE
			}
			return err
		}
		m := mangos.NewMessage(len(body))
		if headerFirst && hdr != nil {
			m.Header = append(m.Header, hdr...)
			m.Body = append(m.Body, body...)
			return s.SendMsg(m)
		}
		m.Body = append(m.Body, body...)
		if hdr != nil {
			m.Header = append(m.Header, hdr...)
		} else if stale {
			m.Header = append(m.Header, 0x80, 0, 0, 1, 0x80, 0, 0, 2)
		}
		return s.SendMsg(m)
	}
	recv := func(sk mangos.Socket) ([]byte, []byte, error) {
		s := handle[sk]
		if !msgAPI {
			b, err := s.Recv()
			return nil, b, err
		}
		m, err := s.RecvMsg()
		if err != nil {
			return nil, nil, err
		}
		h := append([]byte(nil), m.Header...)
		bd := append([]byte(nil), m.Body...)
		m.Free()
		return h, bd, nil
	}
	fail := func(key string, format string, args ...interface{}) {
		stats.Fail(t, "C01:"+key+":"+cfg.tr+"/"+pat.name, doc, "%s limit=%d: %s", cfg.name, limit, fmt.Sprintf(format, args...))
	}
	check := func(dir string, i int, want, got []byte, err error) {
		if err != nil {
			fail("recv-error", "%s message %d (len %d) not received: %v", dir, i, len(want), err)
			return
		}
		if !bytes.Equal(want, got) {
			at := 0
			for at < len(want) && at < len(got) && want[at] == got[at] {
				at++
			}
			fail("mismatch", "%s message %d: sent %d bytes, received %d bytes, first difference at offset %d", dir, i, len(want), len(got), at)
		}
	}

	sentinel := []byte("\x00SENTINEL\xff")
	if pat.reply {
		for i := 0; i < n; i++ {
			body := fixture.Payload(key+uint64(i), sizes[i])
			sentHdr := rawHeader(an, uint32(i+1))
			if hops > 0 {
				sentHdr = append(append([]byte(nil), backtrace...), sentHdr...)
			}
			if err := send(a, an, sentHdr, body); err != nil {
				fail("send-error", "request %d (len %d): %v", i, len(body), err)
				return
			}
			h, got, err := recv(b)
			check("request", i, body, got, err)
			if err != nil {
				return
			}
			if cfg.raw && (len(h) < 4 || !bytes.Equal(h[4:], sentHdr)) {
				fail("mismatch", "request %d: sent with the %d-byte header %x, received with header %x (want a connection id followed by the header sent)", i, len(sentHdr), sentHdr, h)
				return
			}
			if fan {
				_, got2, err2 := recv(recvs[1])
				check("request at the second receiver", i, body, got2, err2)
				if err2 != nil {
					return
				}
			}
			rbody := fixture.Payload(key+uint64(i)+1000, rsizes[i])
			var rh []byte
			if cfg.raw {
				rh = h
			}
			if err := send(b, bn, rh, rbody); err != nil {
				fail("send-error", "reply %d (len %d): %v", i, len(rbody), err)
				return
			}
			_, got, err = recv(a)
			if hops > 0 && err == nil {
				// the raw requester keeps the first word as header; the rest of the backtrace stays in front of the body
				check("reply", i, append(append([]byte(nil), sentHdr[4:]...), rbody...), got, err)
			} else {
				check("reply", i, rbody, got, err)
			}
			if err != nil {
				return
			}
		}
	} else {
		bodies := make([][]byte, n+1)
		for i := 0; i < n; i++ {
			bodies[i] = fixture.Payload(key+uint64(i), sizes[i])
		}
		bodies[n] = sentinel
		if pipelined {
			errc := make(chan error, 1)
			go func() {
				for i, body := range bodies {
					if err := send(a, an, rawHeader(an, 0), body); err != nil {
						errc <- fmt.Errorf("message %d: %v", i, err)
						return
					}
				}
				errc <- nil
			}()
			for i, body := range bodies {
				var err error
				for k, rb := range recvs {
					var got []byte
					_, got, err = recv(rb)
					check(fmt.Sprintf("pipelined (receiver %d)", k), i, body, got, err)
					if err != nil {
						break
					}
				}
				if err != nil {
					break
				}
			}
			if err := <-errc; err != nil {
				fail("send-error", "%v", err)
			}
		} else {
			for i, body := range bodies {
				if err := send(a, an, rawHeader(an, 0), body); err != nil {
					fail("send-error", "message %d (len %d): %v", i, len(body), err)
					return
				}
				for k, rb := range recvs {
					_, got, err := recv(rb)
					check(fmt.Sprintf("lockstep (receiver %d)", k), i, body, got, err)
					if err != nil {
						return
					}
				}
			}
		}
	}

	// bookkeeping
	stats.Eval()
	stats.Class("tr:" + cfg.tr)
	stats.Class("pat:" + pat.name)
	if hops >= 8 {
		stats.Class("raw_header_over_32_bytes")
	}
	if fan {
		stats.Class("two_receivers")
	}
	if stale {
		stats.Class("cooked_send_with_stale_header")
	}
	nt := false
	cls := map[int]bool{}
	all := append([]int{}, sizes...)
	if pat.reply {
		all = append(all, rsizes...)
	}
	prev := -1
	for _, s := range all {
		if near(s, pat.hdrAB, limit) {
			nt = true
			stats.Class("near_boundary")
		}
		c := sizeClass(s + pat.hdrAB)
		if prev >= 0 && c != prev {
			nt = true
		}
		prev = c
		cls[c] = true
		if limit-pat.hdrAB-s == 0 {
			stats.Class("exactly_at_limit")
		}
	}
	if limit == defaultLimit {
		stats.Class("limit_default")
	} else {
		stats.Class("limit_small")
	}
	if nt {
		canon := cfg.name + "|" + strconv.Itoa(limit/1024)
		for c := 0; c <= len(classes); c++ {
			if cls[c] {
				canon += "," + strconv.Itoa(c)
			}
		}
		for _, s := range all {
			if near(s, pat.hdrAB, limit) {
				canon += ";" + strconv.Itoa(s)
			}
		}
		stats.NonTrivial(canon)
	}
	stats.Sample(doc)
}

func TestC01(t *testing.T) {
	shard, _ := strconv.Atoi(os.Getenv("VERIF_SHARD"))
	nshards, _ := strconv.Atoi(os.Getenv("VERIF_NSHARDS"))
	if nshards <= 0 {
		nshards = 1
	}
	for i, cfg := range allConfigs() {
		if i%nshards != shard {
			continue
		}
		cfg := cfg
		t.Run(cfg.name, func(t *testing.T) {
			rapid.Check(t, func(rt *rapid.T) { runCase(rt, cfg) })
		})
	}
}

// TestC01BoundarySweep (thorough tier): every configuration x every length adjacent to a pool
// class (c-h-1..c-h+1 for h in {0,4,8}) and to the 1 MiB limit, enumerated completely.
func TestC01BoundarySweep(t *testing.T) {
	if !stats.Thorough() {
		t.Skip("thorough tier only")
	}
	shard, _ := strconv.Atoi(os.Getenv("VERIF_SHARD"))
	nshards, _ := strconv.Atoi(os.Getenv("VERIF_NSHARDS"))
	if nshards <= 0 {
		nshards = 1
	}
	seen := map[int]bool{}
	var all []int
	add := func(n int) {
		if n >= 0 && !seen[n] {
			seen[n] = true
			all = append(all, n)
		}
	}
	add(0)
	add(1)
	for _, c := range classes {
		for _, h := range []int{0, 4, 8} {
			for d := -1; d <= 1; d++ {
				add(c - h + d)
			}
		}
	}
	defer func() { fixedSizes = nil }()
	for i, cfg := range allConfigs() {
		if i%nshards != shard {
			continue
		}
		cfg := cfg
		// limit-adjacent sizes for this pattern's header
		sizes := append([]int{}, all...)
		sizes = append(sizes, defaultLimit-cfg.pat.hdrAB-1, defaultLimit-cfg.pat.hdrAB)
		if cfg.pat.hdrBA != cfg.pat.hdrAB {
			sizes = append(sizes, defaultLimit-cfg.pat.hdrBA)
		}
		for from := 0; from < len(sizes); from += 20 {
			to := from + 20
			if to > len(sizes) {
				to = len(sizes)
			}
			fixedSizes = sizes[from:to]
			// reply legs use the reversed list: keep the limit sizes valid for both header sizes
			t.Run(fmt.Sprintf("%s/%d", cfg.name, from), func(t *testing.T) {
				stats.ScaledChecks(1<<30, 1, func() { rapid.Check(t, func(rt *rapid.T) { runCase(rt, cfg) }) })
			})
		}
	}
	stats.Extra("exhaustive_axis", "96 configurations x {0,1, c-h-1..c-h+1 for 8 pool classes and h in 0/4/8, L-h-1, L-h}")
}
