package c18

import (
	"fmt"
	"os"
	"testing"
	"time"

	"go.nanomsg.org/mangos/v3"
	"go.nanomsg.org/mangos/v3/verifharness/stats"
	"pgregory.net/rapid"
)

// 5. two calls waiting on one REQ context
//
// A Send that waits for a connection and a Recv started behind it on the same REQ socket or
// context both carry positive deadlines.  Whichever deadline ends the request first, each
// call returns no later than its own deadline (+ the hang allowance), a timeout error never
// comes before the deadline it names, and the Send — which never got a connection — does
// not report success.

type behindCase struct {
	Test   string `json:"test"`
	Kind   string `json:"kind"`
	SendMs int    `json:"send_deadline_ms"`
	RecvMs int    `json:"recv_deadline_ms"`
	GapMs  int    `json:"recv_starts_after_ms"`
	Rseed  string `json:"rseed"`
}

func TestC18RecvBehindBlockedSend(t *testing.T) {
	var bc behindCase
	if replayInto("TestC18RecvBehindBlockedSend", &bc) {
		behindRun(t, bc)
		return
	}
	stats.ScaledChecks(4, 6, func() {
		rapid.Check(t, func(t *rapid.T) {
			c := behindCase{Test: "TestC18RecvBehindBlockedSend", Rseed: os.Getenv("VERIF_RSEED")}
			c.Kind = rapid.SampledFrom([]string{"req", "req+ctx"}).Draw(t, "kind")
			c.SendMs = rapid.SampledFrom([]int{60, 150, 300}).Draw(t, "sendMs")
			c.RecvMs = rapid.SampledFrom([]int{40, 150, 400, 700}).Draw(t, "recvMs")
			c.GapMs = rapid.SampledFrom([]int{5, 20}).Draw(t, "gapMs")
			behindRun(t, c)
		})
	})
}

func behindRun(t stats.TB, bc behindCase) {
	canon := fmt.Sprintf("behind|%s|%d|%d|%d", bc.Kind, bc.SendMs, bc.RecvMs, bc.GapMs)
	run(t, bc, bc.Kind, canon, "recvbehind:nopeer", func(c *cse) {
		c.setup(bc.Kind, -1)
		sd, rd := ms(bc.SendMs), ms(bc.RecvMs)
		c.setOpt(c.sub, mangos.OptionSendDeadline, sd)
		c.setOpt(c.sub, mangos.OptionRecvDeadline, rd)
		what := fmt.Sprintf("%s without a peer, Send (deadline %v) and %v later Recv (deadline %v) on the same context", bc.Kind, sd, ms(bc.GapMs), rd)
		m := c.newMsg(c.body("behind"))
		sch := async(func() (*mangos.Message, error) { return nil, c.sub.SendMsg(m) })
		time.Sleep(ms(bc.GapMs))
		rch := async(func() (*mangos.Message, error) { return c.sub.RecvMsg() })
		sr, sok := waitRes(sch, sd+upper)
		rr, rok := waitRes(rch, rd+upper)
		if !sok {
			c.add("send-hangs", false, "%s: Send was still blocked %v after its deadline", what, upper)
		}
		if !rok {
			c.add("recv-hangs", false, "%s: Recv was still blocked %v after its deadline (Send returned %v)", what, upper, errName(sr.err))
		}
		if !sok || !rok {
			c.closeSock()
			return
		}
		c.blocked = true
		if sr.err == nil {
			c.add("send-succeeded-without-peer", false, "%s: Send returned nil after %v although no connection ever existed", what, sr.el)
		} else {
			m.Free()
		}
		if sr.err == mangos.ErrSendTimeout && sr.el < sd {
			c.add("send-early", false, "%s: Send timed out after %v, before its deadline", what, sr.el)
		}
		if rr.err == nil {
			c.add("recv-delivered", false, "%s: Recv returned a message although no request was ever transmitted", what)
			rr.m.Free()
		}
		if rr.err == mangos.ErrRecvTimeout && rr.el < rd {
			c.add("recv-early", false, "%s: Recv timed out after %v, before its deadline", what, rr.el)
		}
	})
}
