// C18 — deadlines, best-effort and fail-no-peers modes never block or fire early.
//
// Every case builds one fresh socket of a drawn pattern (optionally a context of
// it), attaches it to the scripted virtual transport (the harness is the peer and
// can hold the peer silent, exert back-pressure, or make it leave mid-call) and
// times exactly one API call with the monotonic clock:
//
//	TestC18RecvDeadline  blocked Recv + deadline d  => ErrRecvTimeout, d <= elapsed < d+2s;
//	                     message already queued     => delivered, never a timeout;
//	                     no deadline                => still blocked after 150 ms, then
//	                                                   completes when the harness unblocks it.
//	TestC18SendDeadline  the same three for Send on a full / not full queue (+ the message
//	                     stays with the caller on timeout); patterns whose Send never
//	                     blocks (pub, bus, star, surveyor) just have to return promptly.
//	TestC18BestEffort    Send returns nil within 1 s in every queue/peer state and the
//	                     message is transmitted at most once.
//	TestC18FailNoPeers   ErrNoPeers at once without peers, also when the last peer leaves
//	                     during the wait; not while a peer is connected; option off => waits.
//
// Timing policy: lower bounds are exact (Go timers never fire early on the
// monotonic clock), upper bounds are generous (d+2s, "at once" = 1 s), and a call
// that can complete at once but times out is re-executed (whole case, 3 times)
// before it counts.
package c18

import (
	"bytes"
	"encoding/json"
	"errors"
	"fmt"
	"os"
	"strings"
	"testing"
	"time"

	"go.nanomsg.org/mangos/v3"
	"go.nanomsg.org/mangos/v3/verifharness/fixture"
	"go.nanomsg.org/mangos/v3/verifharness/stats"
	"go.nanomsg.org/mangos/v3/verifharness/vt"
	"pgregory.net/rapid"
)

func TestMain(m *testing.M) {
	stats.Init("C18")
	stats.Rule("rapid draws (pattern, socket|context) from the support table of the option under test (RECV-DEADLINE 25 kinds, SEND-DEADLINE/BEST-EFFORT 15 kinds, FAIL-NO-PEERS 4 kinds, never-blocking senders 9 kinds), d in {5,20,50} ms, WRITEQ-LEN in {0,1,2} (push: {1,2}), queue state (send side: empty / partially full / full, filled through vt back-pressure; receive side: empty / 1-3 queued / READQ-LEN exactly full), peer state (none / connected silent or blocked / accepting / leaving mid-call / left before) and the way a no-deadline call is unblocked (inject, release, connect, close). One timed API call per case. Also: best effort next to a 5 s send deadline; REQ Send waiting for a connection with a Recv behind it; REQ request sent under a 30 ms send deadline; fail-no-peers with one of two stuck peers leaving. Non-trivial: the timed call really blocked (a probe saw it still pending after d/2, or after 150 ms for no-deadline calls), or — for best-effort / fail-no-peers — the same call without the option would have blocked (full queue or no peer); distinct by (test, kind, scenario, peer, d, wq, pre, unblock). A (scenario, peer, kind) shape that hit a listed known finding twice is no longer generated in that process. Round 5: other options re-set every d/3 while a timed Recv/Send waits; fail-no-peers states second-arrives-all-leave and left-then-off")
	stats.Assume("lower bounds exact, upper bounds generous (d+2s), at-once success under the 3x re-execution rule")
	stats.Assume("'at once' / 'immediately' = within 1 s; 'it waits' = still blocked after 150 ms")
	stats.Assume("negative deadlines (documented as non-blocking, implemented as no deadline) are outside the statement and not generated")
	rc := m.Run()
	stats.Flush()
	fixture.Cleanup()
	os.Exit(rc)
}

const (
	upper     = 2 * time.Second        // a call with deadline d must be back before d+upper
	atOnce    = time.Second            // "immediately"
	waitProbe = 150 * time.Millisecond // "it waits"
	fillProbe = 25 * time.Millisecond  // deadline of the sends that look for the fill level
)

// ---------------------------------------------------------------------------
// support table (input domain; DESIGN.md appendix A, verified against the sources)

type patInfo struct {
	name    string
	ctx     bool // has contexts
	raw     bool
	recvDL  bool
	sendDL  bool // also BEST-EFFORT (same set)
	fnp     bool // FAIL-NO-PEERS
	posOnly bool // deadlines accept values > 0 only (cooked rep / respondent)
	wq      bool // WRITEQ-LEN bounds the queue a Send can block on
	wq0     bool // WRITEQ-LEN 0 usable (push/xpush: known defect owned by C02)
	repLike bool // a Send needs a received request
	nbSend  bool // Send never blocks (drop on overflow)
}

var pats = []patInfo{
	{name: "pair", recvDL: true, sendDL: true, wq: true, wq0: true},
	{name: "xpair", raw: true, recvDL: true, sendDL: true, wq: true, wq0: true},
	{name: "pair1", recvDL: true, sendDL: true, wq: true, wq0: true},
	{name: "xpair1", raw: true, recvDL: true, sendDL: true, wq: true, wq0: true},
	{name: "pub", nbSend: true},
	{name: "xpub", raw: true, nbSend: true},
	{name: "sub", ctx: true, recvDL: true},
	{name: "xsub", raw: true, recvDL: true},
	{name: "req", ctx: true, recvDL: true, sendDL: true, fnp: true},
	{name: "xreq", raw: true, recvDL: true, sendDL: true, wq: true, wq0: true},
	{name: "rep", ctx: true, recvDL: true, sendDL: true, posOnly: true, wq: true, wq0: true, repLike: true},
	{name: "xrep", raw: true, recvDL: true, sendDL: true, wq: true, wq0: true, repLike: true},
	{name: "push", sendDL: true, fnp: true, wq: true},
	{name: "xpush", raw: true, sendDL: true, fnp: true, wq: true},
	{name: "pull", recvDL: true},
	{name: "xpull", raw: true, recvDL: true},
	{name: "surveyor", ctx: true, recvDL: true, nbSend: true},
	{name: "xsurveyor", raw: true, recvDL: true, nbSend: true},
	{name: "respondent", ctx: true, recvDL: true, sendDL: true, posOnly: true, wq: true, wq0: true, repLike: true},
	{name: "xrespondent", raw: true, recvDL: true, sendDL: true, wq: true, wq0: true, repLike: true},
	{name: "bus", recvDL: true, nbSend: true},
	{name: "xbus", raw: true, recvDL: true, nbSend: true},
	{name: "star", recvDL: true, nbSend: true},
	{name: "xstar", raw: true, recvDL: true, nbSend: true},
}

func kindNames(f func(*patInfo) bool) []string {
	var out []string
	for i := range pats {
		if f(&pats[i]) {
			out = append(out, pats[i].name)
			if pats[i].ctx {
				out = append(out, pats[i].name+"+ctx")
			}
		}
	}
	return out
}

func kindOf(k string) (*patInfo, bool) {
	useCtx := false
	if len(k) > 4 && k[len(k)-4:] == "+ctx" {
		useCtx = true
		k = k[:len(k)-4]
	}
	for i := range pats {
		if pats[i].name == k {
			return &pats[i], useCtx
		}
	}
	panic("unknown kind " + k)
}

// ---------------------------------------------------------------------------
// one case execution

type viol struct {
	key   string
	msg   string
	retry bool // timing-only: counts only if the whole case fails 3 times
}

type harnessErr string

// abortCase ends a case early after a violation has been recorded.
type abortCase struct{}

func hfail(f string, a ...interface{}) { panic(harnessErr(fmt.Sprintf(f, a...))) }

type cse struct {
	kind    string
	pat     *patInfo
	useCtx  bool
	sock    mangos.Socket
	sub     mangos.Context // the object under test: the socket or one of its contexts
	ep      *vt.Endpoint
	ev      *fixture.Events
	p       *vt.Pipe   // current peer (nil: none)
	pipes   []*vt.Pipe // every peer ever connected
	rawHdr  []byte     // xrep/xrespondent: routing header of a received request
	respID  []byte     // req/surveyor: id the socket transmitted
	viols   []viol
	seq     int
	closed  bool
	blocked bool          // the timed call was seen pending by the probe
	lastEl  time.Duration // duration of the last untimed Send
	reqDL   time.Duration // send deadline in force when armRecv sends the REQ request (0: 3 s)
}

func (c *cse) add(key string, retry bool, f string, a ...interface{}) {
	c.viols = append(c.viols, viol{"C18:" + key + ":" + c.kind, fmt.Sprintf(f, a...), retry})
}

func (c *cse) setup(kind string, wq int) {
	c.kind = kind
	c.pat, c.useCtx = kindOf(kind)
	c.sock = fixture.New(c.pat.name)
	c.ev = fixture.Hook(c.sock)
	if wq >= 0 {
		if err := c.sock.SetOption(mangos.OptionWriteQLen, wq); err != nil {
			hfail("%s: WRITEQ-LEN=%d: %v", kind, wq, err)
		}
	}
	ep, err := vt.Attach(c.sock)
	if err != nil {
		hfail("attach: %v", err)
	}
	c.ep = ep
	c.sub = c.sock
	if c.useCtx {
		if c.sub, err = c.sock.OpenContext(); err != nil {
			hfail("%s: OpenContext: %v", kind, err)
		}
	}
	if c.pat.name == "sub" {
		c.setOpt(c.sub, mangos.OptionSubscribe, "")
	}
}

func (c *cse) closeSock() {
	if !c.closed {
		c.closed = true
		_ = c.sock.Close()
	}
}

func (c *cse) cleanup() {
	if c.sock != nil {
		c.closeSock()
	}
	for _, p := range c.pipes {
		_ = p.Close()
	}
	if c.ep != nil {
		c.ep.Forget()
	}
}

func (c *cse) setOpt(on mangos.Context, name string, v interface{}) {
	if err := on.SetOption(name, v); err != nil {
		hfail("%s: SetOption(%s,%v): %v", c.kind, name, v, err)
	}
}

// connect attaches a harness pipe; with block its Send blocks from the start.
func (c *cse) connect(block bool) *vt.Pipe {
	p := c.ep.NewPipe()
	if block {
		p.SetMode(vt.ModeBlock, nil)
	}
	n := c.ev.Attached()
	c.ep.ConnectPipe(p)
	c.pipes = append(c.pipes, p)
	if !p.WaitReceiving(5*time.Second) || !c.ev.WaitAttached(n+1, 5*time.Second) {
		hfail("%s: pipe not attached within 5s", c.kind)
	}
	c.p = p
	return p
}

// dropPeer closes the peer and waits until the socket has detached it.
func (c *cse) dropPeer() {
	n := c.ev.Detached()
	_ = c.p.Close()
	if !c.ev.WaitDetached(n+1, 5*time.Second) {
		hfail("%s: closed pipe not detached within 5s", c.kind)
	}
	c.p = nil
}

func (c *cse) body(tag string) []byte {
	c.seq++
	return []byte(fmt.Sprintf("C18-%s-%d-%s", tag, c.seq, c.kind))
}

// wire returns the transport message that makes the socket deliver body to the subject.
func (c *cse) wire(body []byte) []byte {
	var h []byte
	switch c.pat.name {
	case "pair1", "xpair1", "star", "xstar":
		h = []byte{0, 0, 0, 0}
	case "req", "surveyor":
		if c.respID == nil {
			hfail("%s: no request id", c.kind)
		}
		h = c.respID
	case "xreq", "xsurveyor", "rep", "xrep", "respondent", "xrespondent":
		h = []byte{0x80, 0, 0, 1}
	}
	return append(append([]byte{}, h...), body...)
}

// deliver injects body so that a Recv on the subject can return it.
func (c *cse) deliver(body []byte) {
	w := c.wire(body)
	if c.pat.name == "rep" {
		// cooked REP has no receive queue: its receiver blocks until a Recv takes the message
		if c.p.Handoff(w, 3*time.Second) != vt.InjTaken {
			hfail("%s: receiver did not take the injected message", c.kind)
		}
		time.Sleep(5 * time.Millisecond)
		return
	}
	if r := c.p.Inject(w, 3*time.Second); r != vt.InjProcessed {
		hfail("%s: receiver did not process the injected message (%d)", c.kind, r)
	}
}

// newMsg makes a message the subject's SendMsg accepts.
func (c *cse) newMsg(body []byte) *mangos.Message {
	m := mangos.NewMessage(len(body))
	m.Body = append(m.Body, body...)
	switch c.pat.name {
	case "xpair1", "xstar":
		m.Header = append(m.Header, 0, 0, 0, 0)
	case "xreq", "xsurveyor":
		m.Header = append(m.Header, 0x80, 0, 0, 1)
	case "xrep", "xrespondent":
		m.Header = append(m.Header, c.rawHdr...)
	}
	return m
}

// prepSend gives a rep-like sender the request its next Send answers.
func (c *cse) prepSend(on mangos.Context) {
	if !c.pat.repLike || (c.pat.raw && c.rawHdr != nil) {
		return
	}
	if c.p == nil {
		hfail("%s: request without peer", c.kind)
	}
	c.setOpt(on, mangos.OptionRecvDeadline, 3*time.Second)
	if c.p.Handoff(append([]byte{0x80, 0, 0, 1}, "rq"...), 3*time.Second) != vt.InjTaken {
		hfail("%s: request not taken", c.kind)
	}
	m, err, _ := c.doRecv(on, 3*time.Second, "request delivered")
	if err != nil {
		hfail("%s: request not received: %v", c.kind, err)
	}
	if c.pat.raw {
		c.rawHdr = append([]byte{}, m.Header...)
	}
	m.Free()
}

// send does one untimed Send with deadline d (set on `on`); the message is freed on error.
func (c *cse) send(on mangos.Context, tag string, d time.Duration) error {
	c.prepSend(on)
	c.setOpt(on, mangos.OptionSendDeadline, d)
	m := c.newMsg(c.body(tag))
	err, el := c.doSend(on, m, d, tag)
	c.lastEl = el
	if err != nil {
		m.Free()
	}
	return err
}

func (c *cse) mustSend(on mangos.Context, tag string) {
	if err := c.send(on, tag, 3*time.Second); err != nil {
		hfail("%s: preparatory Send failed: %v", c.kind, err)
	}
}

// fill sends (through `on`, with a short deadline) until the queue the subject's Send
// blocks on is full and stays full: the timed-out probe must have started while the peer's
// pipe was already stuck with a message (or without any peer), so nothing drains any more.
func (c *cse) fill(on mangos.Context, wq int) int {
	n := 0
	limit := wq + 10
	if wq < 0 {
		limit = 10
	}
	for i := 0; i < limit; i++ {
		stuck := c.p == nil || c.p.Blocked() >= 1
		err := c.send(on, "fill", fillProbe)
		switch err {
		case nil:
			n++
			peer := "none"
			if c.p != nil {
				peer = "blocked"
			}
			if cp := capacity(c.pat, wq, peer); n > cp {
				if c.lastEl >= fillProbe {
					// it waited for the whole deadline and then reported success with nowhere to put the message
					c.add("send-wrong-error", false, "%s Send #%d with deadline %v (WRITEQ-LEN %d, peer %s: room for %d) blocked for %v and then returned nil, want ErrSendTimeout", c.kind, n, fillProbe, wq, peer, cp, c.lastEl)
					panic(abortCase{})
				}
				hfail("%s: %d Sends accepted at once with WRITEQ-LEN=%d and peer %s (room for %d)", c.kind, n, wq, peer, cp)
			}
		case mangos.ErrSendTimeout:
			if stuck {
				return n
			}
			c.p.WaitBlocked(1, 300*time.Millisecond)
		default:
			hfail("%s: fill Send: %v", c.kind, err)
		}
	}
	hfail("%s: queue did not fill (wq=%d, %d accepted)", c.kind, wq, n)
	return 0
}

// armRecv brings the subject into the state in which Recv waits for a message.
func (c *cse) armRecv() {
	switch c.pat.name {
	case "req":
		if c.p == nil {
			// no peer: queue the request without blocking
			c.setOpt(c.sub, mangos.OptionBestEffort, true)
		}
		n := 0
		if c.p != nil {
			n = c.p.SentCount()
		}
		rd := 3 * time.Second
		if c.reqDL > 0 && c.p != nil {
			rd = c.reqDL // a send deadline much shorter than the wait for the reply: it concerns the Send only
		}
		if err := c.send(c.sub, "request", rd); err != nil {
			hfail("req: request Send: %v", err)
		}
		if c.p != nil {
			if !c.p.WaitSent(n+1, 3*time.Second) {
				hfail("req: request not transmitted")
			}
			c.respID = append([]byte{}, c.p.SentLog()[n].Data[:4]...)
		}
	case "surveyor":
		c.setOpt(c.sub, mangos.OptionSurveyTime, 10*time.Second)
		n := 0
		if c.p != nil {
			n = c.p.SentCount()
		}
		m := c.newMsg(c.body("survey"))
		if err, _ := c.doSend(c.sub, m, time.Second, "survey, never blocks"); err != nil {
			hfail("surveyor: survey Send: %v", err)
		}
		if c.p != nil {
			if !c.p.WaitSent(n+1, 3*time.Second) {
				hfail("surveyor: survey not transmitted")
			}
			c.respID = append([]byte{}, c.p.SentLog()[n].Data[:4]...)
		}
	}
}

type res struct {
	m   *mangos.Message
	err error
	el  time.Duration
}

func async(fn func() (*mangos.Message, error)) <-chan res {
	ch := make(chan res, 1)
	go func() {
		t0 := time.Now()
		m, err := fn()
		ch <- res{m, err, time.Since(t0)}
	}()
	return ch
}

func waitRes(ch <-chan res, d time.Duration) (res, bool) {
	t := time.NewTimer(d)
	defer t.Stop()
	select {
	case r := <-ch:
		return r, true
	case <-t.C:
		return res{}, false
	}
}

// doSend / doRecv run a call that has a positive deadline d under a watchdog: if it is not
// back d+2s later that is a hang in its own right; the case ends there.
func (c *cse) doSend(on mangos.Context, m *mangos.Message, d time.Duration, what string) (error, time.Duration) {
	ch := async(func() (*mangos.Message, error) { return nil, on.SendMsg(m) })
	r, ok := waitRes(ch, d+upper)
	if !ok {
		c.add("send-hang", false, "%s Send with deadline %v (%s) was still blocked %v after it started", c.kind, d, what, d+upper)
		c.join(ch)
		panic(abortCase{})
	}
	return r.err, r.el
}

func (c *cse) doRecv(on mangos.Context, d time.Duration, what string) (*mangos.Message, error, time.Duration) {
	ch := async(on.RecvMsg)
	r, ok := waitRes(ch, d+upper)
	if !ok {
		c.add("recv-hang", false, "%s Recv with deadline %v (%s) was still blocked %v after it started", c.kind, d, what, d+upper)
		c.join(ch)
		panic(abortCase{})
	}
	return r.m, r.err, r.el
}

func errName(err error) string {
	if err == nil {
		return "nil"
	}
	return err.Error()
}

// join ends a call that is still pending by closing the socket.
func (c *cse) join(ch <-chan res) {
	c.closeSock()
	if r, ok := waitRes(ch, 3*time.Second); ok && r.m != nil && r.err == nil {
		r.m.Free()
	}
}

// timed runs a call that must block for d and then fail with want.  mid (optional) runs
// at about d/4.  Returns the result (ok=false: the call hung and was ended by Close).
func (c *cse) timed(op, what string, d time.Duration, want error, call func() (*mangos.Message, error), mid func()) (res, bool) {
	half := time.NewTimer(d / 2)
	defer half.Stop()
	ch := async(call)
	if mid != nil {
		time.Sleep(d / 4)
		mid()
	}
	var r res
	got := false
	select {
	case r = <-ch:
		got = true
	case <-half.C:
		c.blocked = true
	}
	if !got {
		r, got = waitRes(ch, d+upper)
	}
	if !got {
		c.add(op+"-hang", false, "%s with deadline %v was still blocked %v after it started (must fail with %v before deadline+%v)", what, d, d/2+d+upper, want, upper)
		c.join(ch)
		return res{}, false
	}
	switch {
	case r.err == want:
		if r.el < d {
			c.add(op+"-early", false, "%s with deadline %v returned %v after only %v", what, d, want, r.el)
		} else if r.el >= d+upper {
			c.add(op+"-hang", false, "%s with deadline %v returned %v only after %v", what, d, want, r.el)
		}
	case r.err == nil:
		b := []byte(nil)
		if r.m != nil {
			b = r.m.Body
		}
		c.add(op+"-wrong-error", false, "%s with deadline %v could not complete but returned success after %v (message %q), want %v", what, d, r.el, b, want)
	default:
		c.add(op+"-wrong-error", false, "%s with deadline %v returned %v after %v, want %v", what, d, r.err, r.el, want)
	}
	return r, true
}

// waits checks "with no deadline it waits": the call is still pending after 150 ms.
// Returns false (and records the violation) if it came back.
func (c *cse) waits(op, what string, ch <-chan res) bool {
	if r, ok := waitRes(ch, waitProbe); ok {
		b := []byte(nil)
		if r.m != nil {
			b = r.m.Body
		}
		c.add("nodeadline-returned", false, "%s returned (%q, %s) after %v although it had no deadline and nothing could complete it", what, b, errName(r.err), r.el)
		if r.m != nil && r.err == nil && op == "recv" {
			r.m.Free()
		}
		return false
	}
	c.blocked = true
	return true
}

// exec runs one case body on a fresh cse and converts harness panics into an error.
func exec(fn func(c *cse)) (c *cse, herr error) {
	c = &cse{}
	defer func() {
		r := recover()
		c.cleanup()
		if r != nil {
			if h, ok := r.(harnessErr); ok {
				herr = errors.New(string(h))
				return
			}
			if _, ok := r.(abortCase); ok {
				return
			}
			panic(r)
		}
	}()
	fn(c)
	return c, nil
}

func allRetry(v []viol) bool {
	for _, x := range v {
		if !x.retry {
			return false
		}
	}
	return true
}

// run executes the case under the 3x re-execution rule and reports what is left.
func run(t stats.TB, doc interface{}, kind, canon, class string, fn func(c *cse)) {
	// a shape (scenario, peer state, kind) that has hit a listed known finding twice is not
	// generated again in this process, so that the budget goes to what lies behind it
	shape := class + "|" + kind
	if knownShapeHits[shape] >= 2 {
		stats.Excluded(knownShapeKey[shape])
		return
	}
	var c *cse
	for attempt := 1; ; attempt++ {
		var err error
		c, err = exec(fn)
		if err != nil {
			if attempt < 3 {
				stats.AddExtra("harness_retries", 1)
				continue
			}
			t.Fatalf("harness: %v (case %+v)", err, doc)
		}
		if len(c.viols) == 0 || attempt == 3 || !allRetry(c.viols) {
			break
		}
		stats.AddExtra("timing_retries", 1)
	}
	stats.Eval()
	stats.Class(class)
	stats.Class(class[:strings.Index(class, ":")] + "|" + c.kind)
	if c.blocked {
		stats.NonTrivial(canon)
	}
	stats.Sample(doc)
	for _, x := range c.viols {
		if stats.Known(x.key) {
			knownShapeKey[shape] = x.key
			knownShapeHits[shape]++
		}
		stats.Fail(t, x.key, doc, "%s", x.msg)
	}
}

var (
	knownShapeKey  = map[string]string{}
	knownShapeHits = map[string]int{}
)

// replayInto loads the case of a replay document written for test name into p.
func replayInto(name string, p interface{}) bool {
	path := os.Getenv("VERIF_REPLAY")
	if path == "" {
		return false
	}
	b, err := os.ReadFile(path)
	if err != nil {
		return false
	}
	var doc struct {
		Case json.RawMessage `json:"case"`
	}
	var probe struct {
		Test string `json:"test"`
	}
	if json.Unmarshal(b, &doc) != nil || json.Unmarshal(doc.Case, &probe) != nil || probe.Test != name {
		return false
	}
	return json.Unmarshal(doc.Case, p) == nil
}

func ms(n int) time.Duration { return time.Duration(n) * time.Millisecond }

// ---------------------------------------------------------------------------
// 1. receive deadline

type recvCase struct {
	Test     string `json:"test"`
	Kind     string `json:"kind"`
	Scenario string `json:"scenario"` // timeout | queued | nodeadline
	Peer     string `json:"peer"`     // none | silent | leaving
	Dms      int    `json:"d_ms"`
	NQ       int    `json:"queued"`
	QFull    bool   `json:"rq_full"`             // READQ-LEN = number of queued messages (receive queue full)
	Zero     bool   `json:"explicit_zero"`       // set a positive deadline first, then 0
	Unblock  string `json:"unblock"`             // inject | close
	ShortSD  bool   `json:"short_send_deadline"` // REQ: the request is sent under a 30 ms send deadline
	Churn    string `json:"churn"`               // timeout scenario: options re-set on the object while the call is blocked (none | readq | topics | other)
	Rseed    string `json:"rseed"`
}

// churn re-sets options on the object under test (and its socket) every `every` until stop is
// closed: a call blocked under a deadline must still return by that deadline, not by one counted
// from the latest option change.  Errors (option not supported by the pattern) are ignored.
func (c *cse) churn(stop <-chan struct{}, every time.Duration, what string, sendSide bool) {
	if every < time.Millisecond {
		every = time.Millisecond
	}
	tk := time.NewTicker(every)
	defer tk.Stop()
	for i := 0; ; i++ {
		select {
		case <-stop:
			return
		case <-tk.C:
		}
		switch {
		case what == "topics" && c.pat.name == "sub":
			if i%2 == 0 {
				_ = c.sub.SetOption(mangos.OptionSubscribe, "zz-unrelated")
			} else {
				_ = c.sub.SetOption(mangos.OptionUnsubscribe, "zz-unrelated")
			}
		case what == "readq" || (what == "topics" && !sendSide):
			_ = c.sub.SetOption(mangos.OptionReadQLen, 16+i%2)
			if c.useCtx {
				_ = c.sock.SetOption(mangos.OptionReadQLen, 16+i%2)
			}
		default:
			if sendSide {
				_ = c.sub.SetOption(mangos.OptionRecvDeadline, time.Second)
			} else {
				_ = c.sub.SetOption(mangos.OptionSendDeadline, time.Second)
			}
			_ = c.sub.SetOption(mangos.OptionBestEffort, false)
			_ = c.sock.SetOption(mangos.OptionMaxRecvSize, 1<<20)
		}
	}
}

func TestC18RecvDeadline(t *testing.T) {
	var rc recvCase
	if replayInto("TestC18RecvDeadline", &rc) {
		recvRun(t, rc)
		return
	}
	names := kindNames(func(p *patInfo) bool { return p.recvDL })
	stats.ScaledChecks(1, 10, func() {
		rapid.Check(t, func(t *rapid.T) {
			c := recvCase{Test: "TestC18RecvDeadline", Rseed: os.Getenv("VERIF_RSEED")}
			c.Kind = rapid.SampledFrom(names).Draw(t, "kind")
			c.Scenario = rapid.SampledFrom([]string{"timeout", "timeout", "timeout", "queued", "queued", "nodeadline"}).Draw(t, "scenario")
			c.Peer = rapid.SampledFrom([]string{"none", "silent", "leaving"}).Draw(t, "peer")
			c.Dms = rapid.SampledFrom([]int{5, 20, 50}).Draw(t, "d")
			c.NQ = rapid.IntRange(1, 3).Draw(t, "nq")
			c.QFull = rapid.Bool().Draw(t, "rqfull")
			c.Zero = rapid.Bool().Draw(t, "zero")
			c.Unblock = rapid.SampledFrom([]string{"inject", "close"}).Draw(t, "unblock")
			c.ShortSD = rapid.Bool().Draw(t, "shortSendDeadline")
			c.Churn = rapid.SampledFrom([]string{"none", "none", "readq", "topics", "other"}).Draw(t, "churn")
			recvRun(t, c)
		})
	})
}

func recvRun(t stats.TB, rc recvCase) {
	pat, _ := kindOf(rc.Kind)
	// normalise infeasible combinations
	switch rc.Scenario {
	case "queued":
		rc.Peer = "silent"
		if rc.Dms < 50 {
			rc.Dms = 50
		}
		if pat.name == "rep" || pat.name == "req" {
			rc.NQ = 1 // no receive queue / one reply per request
			rc.QFull = false
		}
	case "nodeadline":
		if rc.Peer == "leaving" {
			rc.Peer = "silent"
		}
		if rc.Peer == "none" {
			rc.Unblock = "close"
		}
		if pat.posOnly {
			rc.Zero = false
		}
	}
	if rc.Scenario != "queued" {
		rc.NQ, rc.QFull = 0, false
	}
	if rc.Scenario != "nodeadline" {
		rc.Zero, rc.Unblock = false, ""
	}
	if rc.Scenario != "timeout" || rc.Churn == "" {
		rc.Churn = "none"
	}
	d := ms(rc.Dms)
	if pat.name != "req" || rc.Peer == "none" {
		rc.ShortSD = false
	}
	canon := fmt.Sprintf("recv|%s|%s|%s|%d|%d|%v|%v|%s|%v|%s", rc.Kind, rc.Scenario, rc.Peer, rc.Dms, rc.NQ, rc.QFull, rc.Zero, rc.Unblock, rc.ShortSD, rc.Churn)
	run(t, rc, rc.Kind, canon, "recv:"+rc.Scenario+":"+rc.Peer, func(c *cse) {
		c.setup(rc.Kind, -1)
		if rc.ShortSD {
			c.reqDL = 30 * time.Millisecond
		}
		if rc.QFull {
			// READQ-LEN is a socket option, except SUB and SURVEYOR where each context has its own
			on := c.sub
			if pat.name == "respondent" {
				on = c.sock
			}
			c.setOpt(on, mangos.OptionReadQLen, rc.NQ)
		}
		if rc.Peer != "none" {
			c.connect(false)
		}
		c.armRecv()
		what := fmt.Sprintf("%s Recv (peer %s, nothing to receive)", rc.Kind, rc.Peer)
		switch rc.Scenario {
		case "timeout":
			c.setOpt(c.sub, mangos.OptionRecvDeadline, d)
			var mid func()
			if rc.Peer == "leaving" {
				p := c.p
				mid = func() { _ = p.Close() }
			}
			if rc.Churn != "none" {
				what += ", options re-set while it waits: " + rc.Churn
				stop := make(chan struct{})
				defer close(stop)
				leave := mid
				mid = func() {
					if leave != nil {
						leave()
					}
					go c.churn(stop, d/3, rc.Churn, false)
				}
			}
			if r, ok := c.timed("recv", what, d, mangos.ErrRecvTimeout, c.sub.RecvMsg, mid); ok && r.m != nil && r.err == nil {
				r.m.Free()
			}

		case "queued":
			var bodies [][]byte
			for i := 0; i < rc.NQ; i++ {
				b := c.body("queued")
				bodies = append(bodies, b)
				c.deliver(b)
			}
			c.setOpt(c.sub, mangos.OptionRecvDeadline, d)
			for i, want := range bodies {
				m, err, el := c.doRecv(c.sub, d, "message queued")
				switch {
				case err == mangos.ErrRecvTimeout:
					c.add("recv-spurious-timeout", true, "%s Recv #%d with deadline %v timed out after %v although %d message(s) had been delivered to the socket before the call", rc.Kind, i+1, d, el, rc.NQ-i)
					return
				case err != nil || m == nil:
					c.add("recv-wrong-error", false, "%s Recv #%d with deadline %v returned (%v, %s) although message %q was queued", rc.Kind, i+1, d, m, errName(err), want)
					return
				case !bytes.Equal(m.Body, want):
					c.add("recv-wrong-error", false, "%s Recv #%d returned %q, want the queued %q", rc.Kind, i+1, m.Body, want)
				}
				m.Free()
			}

		case "nodeadline":
			if rc.Zero {
				c.setOpt(c.sub, mangos.OptionRecvDeadline, 20*time.Millisecond)
				c.setOpt(c.sub, mangos.OptionRecvDeadline, time.Duration(0))
			}
			ch := async(c.sub.RecvMsg)
			if !c.waits("recv", fmt.Sprintf("%s Recv (peer %s, explicit zero %v)", rc.Kind, rc.Peer, rc.Zero), ch) {
				return
			}
			if rc.Unblock == "inject" {
				want := c.body("late")
				w := c.wire(want)
				if c.p.Handoff(w, 3*time.Second) != vt.InjTaken {
					hfail("%s: late message not taken", rc.Kind)
				}
				r, ok := waitRes(ch, upper)
				switch {
				case !ok:
					c.add("recv-hang", false, "%s Recv without deadline did not return within %v after a message arrived", rc.Kind, upper)
					c.join(ch)
				case r.err != nil || r.m == nil:
					c.add("recv-wrong-error", false, "%s Recv without deadline returned (%v, %s) when message %q arrived", rc.Kind, r.m, errName(r.err), want)
				default:
					if !bytes.Equal(r.m.Body, want) {
						c.add("recv-wrong-error", false, "%s Recv without deadline returned %q, want %q", rc.Kind, r.m.Body, want)
					}
					r.m.Free()
				}
			} else {
				c.closeSock()
				r, ok := waitRes(ch, upper)
				switch {
				case !ok:
					c.add("recv-hang", false, "%s Recv without deadline did not return within %v after Close", rc.Kind, upper)
				case r.err == mangos.ErrRecvTimeout:
					// what a call ended by Close returns is not part of the statement, but a timeout it cannot be
					c.add("recv-wrong-error", false, "%s Recv without deadline returned %s on Close", rc.Kind, errName(r.err))
				}
			}
		}
	})
}

// ---------------------------------------------------------------------------
// 2. send deadline

type sendCase struct {
	Test     string `json:"test"`
	Kind     string `json:"kind"`
	Scenario string `json:"scenario"` // full | room | nodeadline | nonblocking
	Peer     string `json:"peer"`     // none | blocked | accepting | leaving
	Dms      int    `json:"d_ms"`
	WQ       int    `json:"wq"`
	Pre      int    `json:"pre"`     // messages sent before the timed call (room)
	Unblock  string `json:"unblock"` // release | connect | close
	Churn    string `json:"churn"`   // full scenario: options other than the send queue's re-set while the call is blocked
	Rseed    string `json:"rseed"`
}

func TestC18SendDeadline(t *testing.T) {
	var sc sendCase
	if replayInto("TestC18SendDeadline", &sc) {
		sendRun(t, sc)
		return
	}
	names := kindNames(func(p *patInfo) bool { return p.sendDL })
	nb := kindNames(func(p *patInfo) bool { return p.nbSend })
	stats.ScaledChecks(1, 10, func() {
		rapid.Check(t, func(t *rapid.T) {
			c := sendCase{Test: "TestC18SendDeadline", Rseed: os.Getenv("VERIF_RSEED")}
			c.Scenario = rapid.SampledFrom([]string{"full", "full", "full", "room", "room", "nodeadline", "nonblocking"}).Draw(t, "scenario")
			if c.Scenario == "nonblocking" {
				c.Kind = rapid.SampledFrom(nb).Draw(t, "kind")
			} else {
				c.Kind = rapid.SampledFrom(names).Draw(t, "kind")
			}
			c.Peer = rapid.SampledFrom([]string{"none", "blocked", "blocked", "accepting", "leaving"}).Draw(t, "peer")
			c.Dms = rapid.SampledFrom([]int{5, 20, 50}).Draw(t, "d")
			c.WQ = rapid.IntRange(0, 2).Draw(t, "wq")
			c.Pre = rapid.IntRange(0, 2).Draw(t, "pre")
			c.Unblock = rapid.SampledFrom([]string{"release", "close"}).Draw(t, "unblock")
			// (queue lengths are not touched on the send side: pair/pair1 share one resize signal between both
			// queues and a Send woken by it drops its message and reports success - observed, not claimed, DESIGN 5.3)
			c.Churn = rapid.SampledFrom([]string{"none", "none", "other"}).Draw(t, "churn")
			sendRun(t, c)
		})
	})
}

// normWQ maps a drawn queue length to what the pattern accepts (-1: not settable).
func normWQ(pat *patInfo, wq int) int {
	if pat.nbSend {
		return wq
	}
	if !pat.wq {
		return -1
	}
	if !pat.wq0 && wq == 0 {
		return 1
	}
	return wq
}

// capacity is the number of Sends that complete without any draining peer activity.
func capacity(pat *patInfo, wq int, peer string) int {
	inflight := 0
	if peer == "blocked" {
		inflight = 1 // the pipe's sender is stuck with one message
	}
	if !pat.wq {
		return inflight // req: a Send needs a ready pipe
	}
	return wq + inflight
}

func sendRun(t stats.TB, sc sendCase) {
	pat, _ := kindOf(sc.Kind)
	sc.WQ = normWQ(pat, sc.WQ)
	switch sc.Scenario {
	case "full":
		if sc.Peer == "accepting" {
			sc.Peer = "blocked"
		}
		if pat.repLike && sc.Peer != "blocked" {
			// no request without a peer; a leaving peer ends a rep-like Send with its own result
			sc.Peer = "blocked"
		}
		sc.Pre, sc.Unblock = 0, ""
	case "room":
		if sc.Peer == "leaving" {
			sc.Peer = "accepting"
		}
		if pat.repLike && sc.Peer == "none" {
			sc.Peer = "blocked"
		}
		if sc.Dms < 50 {
			sc.Dms = 50
		}
		if sc.Peer != "accepting" {
			if cp := capacity(pat, sc.WQ, sc.Peer); cp == 0 {
				sc.Peer = "accepting"
			} else if sc.Pre > cp-1 {
				sc.Pre = cp - 1
			}
		}
		sc.Unblock = ""
	case "nodeadline":
		if sc.Peer == "accepting" || sc.Peer == "leaving" {
			sc.Peer = "blocked"
		}
		if pat.repLike {
			sc.Peer = "blocked"
		}
		if sc.Peer == "none" && sc.Unblock == "release" {
			sc.Unblock = "connect"
		}
		sc.Pre, sc.Dms = 0, 0
	case "nonblocking":
		if sc.Peer == "leaving" {
			sc.Peer = "accepting"
		}
		sc.Pre, sc.Unblock, sc.Dms = 0, "", 0
	}
	d := ms(sc.Dms)
	if sc.Scenario != "full" || sc.Churn != "other" {
		sc.Churn = "none"
	}
	canon := fmt.Sprintf("send|%s|%s|%s|%d|%d|%d|%s|%s", sc.Kind, sc.Scenario, sc.Peer, sc.Dms, sc.WQ, sc.Pre, sc.Unblock, sc.Churn)
	run(t, sc, sc.Kind, canon, "send:"+sc.Scenario+":"+sc.Peer, func(c *cse) {
		c.setup(sc.Kind, sc.WQ)
		switch sc.Peer {
		case "blocked", "leaving":
			c.connect(true)
		case "accepting":
			c.connect(false)
		}
		switch sc.Scenario {
		case "full":
			n := c.fill(c.sub, sc.WQ)
			what := fmt.Sprintf("%s Send (WRITEQ-LEN %d, peer %s, queue full after %d messages)", sc.Kind, sc.WQ, sc.Peer, n)
			c.prepSend(c.sub)
			c.setOpt(c.sub, mangos.OptionSendDeadline, d)
			body := c.body("timed")
			m := c.newMsg(body)
			var mid func()
			if sc.Peer == "leaving" {
				p := c.p
				mid = func() { _ = p.Close() }
			}
			if sc.Churn != "none" {
				what += ", other options re-set while it waits: " + sc.Churn
				stop := make(chan struct{})
				defer close(stop)
				leave := mid
				mid = func() {
					if leave != nil {
						leave()
					}
					go c.churn(stop, d/3, sc.Churn, true)
				}
			}
			r, ok := c.timed("send", what, d, mangos.ErrSendTimeout, func() (*mangos.Message, error) { return nil, c.sub.SendMsg(m) }, mid)
			if ok && r.err == mangos.ErrSendTimeout {
				if mangos.VerifMessageReleased(m) {
					c.add("send-timeout-lost-message", false, "%s: Send returned ErrSendTimeout but the message was released (the caller still owns it)", what)
				} else {
					if !bytes.Equal(m.Body, body) {
						c.add("send-timeout-lost-message", false, "%s: after ErrSendTimeout the caller's message body is %q, was %q", what, m.Body, body)
					}
					m.Free()
				}
			}

		case "room":
			for i := 0; i < sc.Pre; i++ {
				c.mustSend(c.sub, "pre")
				if sc.Peer == "blocked" && i == 0 {
					if !c.p.WaitBlocked(1, 3*time.Second) {
						hfail("%s: first message did not reach the blocked pipe", sc.Kind)
					}
				}
			}
			if sc.Peer == "accepting" && sc.Pre > 0 {
				if !c.p.WaitSent(sc.Pre, 3*time.Second) {
					hfail("%s: %d preparatory messages not transmitted", sc.Kind, sc.Pre)
				}
			}
			c.prepSend(c.sub)
			c.setOpt(c.sub, mangos.OptionSendDeadline, d)
			m := c.newMsg(c.body("timed"))
			err, el := c.doSend(c.sub, m, d, "room in queue")
			switch err {
			case nil:
			case mangos.ErrSendTimeout:
				m.Free()
				c.add("send-spurious-timeout", true, "%s Send with deadline %v timed out after %v although there was room (WRITEQ-LEN %d, peer %s, %d sent before)", sc.Kind, d, el, sc.WQ, sc.Peer, sc.Pre)
			default:
				m.Free()
				c.add("send-wrong-error", false, "%s Send with deadline %v and room in the queue (WRITEQ-LEN %d, peer %s, %d sent before) returned %v", sc.Kind, d, sc.WQ, sc.Peer, sc.Pre, err)
			}

		case "nodeadline":
			filler := c.sub
			if pat.posOnly {
				// a positive deadline cannot be taken back: fill through another context
				f, err := c.sock.OpenContext()
				if err != nil {
					hfail("%s: OpenContext: %v", sc.Kind, err)
				}
				filler = f
			}
			n := c.fill(filler, sc.WQ)
			what := fmt.Sprintf("%s Send (WRITEQ-LEN %d, peer %s, queue full after %d messages)", sc.Kind, sc.WQ, sc.Peer, n)
			c.prepSend(c.sub)
			if !pat.posOnly {
				c.setOpt(c.sub, mangos.OptionSendDeadline, time.Duration(0))
			}
			m := c.newMsg(c.body("patient"))
			ch := async(func() (*mangos.Message, error) { return nil, c.sub.SendMsg(m) })
			if !c.waits("send", what, ch) {
				return
			}
			want := error(nil)
			anyEnd := false // what a call ended by Close returns is not part of the statement (rep-like: nil, message discarded)
			switch sc.Unblock {
			case "release":
				c.p.SetMode(vt.ModeAccept, nil)
			case "connect":
				c.connect(false)
			case "close":
				c.closeSock()
				anyEnd = true
			}
			r, ok := waitRes(ch, upper)
			switch {
			case !ok:
				c.add("send-hang", false, "%s without deadline did not return within %v after %s", what, upper, sc.Unblock)
				c.join(ch)
			case anyEnd && r.err == mangos.ErrSendTimeout:
				c.add("send-wrong-error", false, "%s without deadline returned %s on Close", what, errName(r.err))
			case !anyEnd && r.err != want:
				c.add("send-wrong-error", false, "%s without deadline returned %s after %s, want %s", what, errName(r.err), sc.Unblock, errName(want))
			}

		case "nonblocking":
			if pat.name == "surveyor" {
				c.setOpt(c.sub, mangos.OptionSurveyTime, 10*time.Second)
			}
			for i := 0; i < sc.WQ+3; i++ {
				m := c.newMsg(c.body("nb"))
				ch := async(func() (*mangos.Message, error) { return nil, c.sub.SendMsg(m) })
				r, ok := waitRes(ch, atOnce)
				if !ok {
					c.add("send-hang", false, "%s Send #%d (WRITEQ-LEN %d, peer %s) blocked for more than %v; this pattern drops on overflow and never blocks", sc.Kind, i+1, sc.WQ, sc.Peer, atOnce)
					c.join(ch)
					return
				}
				if r.err != nil {
					c.add("send-wrong-error", false, "%s Send #%d (WRITEQ-LEN %d, peer %s) returned %v", sc.Kind, i+1, sc.WQ, sc.Peer, r.err)
					return
				}
			}
			if sc.Peer != "accepting" {
				c.blocked = true // a blocking sender would have blocked here
			}
		}
	})
}

// ---------------------------------------------------------------------------
// 3. best effort

type beCase struct {
	Test   string `json:"test"`
	Kind   string `json:"kind"`
	State  string `json:"state"` // none | blocked-full | blocked-room | accepting | left
	WQ     int    `json:"wq"`
	K      int    `json:"k"`
	KeepDL bool   `json:"keep_deadline"` // a send deadline stays set next to best effort
	Rseed  string `json:"rseed"`
}

func TestC18BestEffort(t *testing.T) {
	var bc beCase
	if replayInto("TestC18BestEffort", &bc) {
		beRun(t, bc)
		return
	}
	names := kindNames(func(p *patInfo) bool { return p.sendDL })
	stats.ScaledChecks(2, 8, func() {
		rapid.Check(t, func(t *rapid.T) {
			c := beCase{Test: "TestC18BestEffort", Rseed: os.Getenv("VERIF_RSEED")}
			c.Kind = rapid.SampledFrom(names).Draw(t, "kind")
			c.State = rapid.SampledFrom([]string{"none", "blocked-full", "blocked-full", "blocked-room", "accepting", "left"}).Draw(t, "state")
			c.WQ = rapid.IntRange(0, 2).Draw(t, "wq")
			c.K = rapid.IntRange(1, 3).Draw(t, "k")
			c.KeepDL = rapid.Bool().Draw(t, "keepdl")
			beRun(t, c)
		})
	})
}

func (c *cse) settle() {
	count := func() int {
		n := 0
		for _, p := range c.pipes {
			n += p.SentCount()
		}
		return n
	}
	last, since := count(), time.Now()
	deadline := time.Now().Add(1500 * time.Millisecond)
	for time.Now().Before(deadline) {
		time.Sleep(5 * time.Millisecond)
		if n := count(); n != last {
			last, since = n, time.Now()
		} else if time.Since(since) > 40*time.Millisecond {
			return
		}
	}
}

func beRun(t stats.TB, bc beCase) {
	pat, _ := kindOf(bc.Kind)
	bc.WQ = normWQ(pat, bc.WQ)
	if pat.repLike {
		if bc.State == "none" {
			bc.State = "blocked-full"
		}
		if !pat.raw {
			bc.K = 1 // one reply per received request
		}
	}
	canon := fmt.Sprintf("be|%s|%s|%d|%d|%v", bc.Kind, bc.State, bc.WQ, bc.K, bc.KeepDL)
	run(t, bc, bc.Kind, canon, "besteffort:"+bc.State, func(c *cse) {
		c.setup(bc.Kind, bc.WQ)
		switch bc.State {
		case "blocked-full":
			c.connect(true)
			filler := c.sub
			if pat.posOnly {
				// a positive deadline cannot be taken back: fill through another context
				f, err := c.sock.OpenContext()
				if err != nil {
					hfail("%s: OpenContext: %v", bc.Kind, err)
				}
				filler = f
			}
			c.fill(filler, bc.WQ)
		case "blocked-room":
			c.connect(true)
		case "accepting", "left":
			c.connect(false)
		}
		c.prepSend(c.sub)
		if bc.State == "left" {
			c.dropPeer()
		}
		if bc.KeepDL {
			c.setOpt(c.sub, mangos.OptionSendDeadline, 5*time.Second) // far beyond "at once": waiting for it would show
		} else if !pat.posOnly {
			c.setOpt(c.sub, mangos.OptionSendDeadline, time.Duration(0))
		}
		c.setOpt(c.sub, mangos.OptionBestEffort, true)
		what := fmt.Sprintf("%s best-effort Send (WRITEQ-LEN %d, state %s, send deadline kept %v)", bc.Kind, bc.WQ, bc.State, bc.KeepDL)
		var bodies [][]byte
		for i := 0; i < bc.K; i++ {
			if i > 0 && pat.repLike && !pat.raw {
				break
			}
			b := c.body("be")
			bodies = append(bodies, b)
			m := c.newMsg(b)
			ch := async(func() (*mangos.Message, error) { return nil, c.sub.SendMsg(m) })
			r, ok := waitRes(ch, atOnce)
			if !ok {
				c.add("besteffort-blocked", false, "%s #%d was still blocked after %v", what, i+1, atOnce)
				c.join(ch)
				return
			}
			if r.err != nil {
				c.add("besteffort-error", false, "%s #%d returned %v after %v, want nil (queued or silently dropped)", what, i+1, r.err, r.el)
				return
			}
		}
		if bc.State == "none" || bc.State == "blocked-full" || bc.State == "left" {
			c.blocked = true // without the option this Send would have blocked
		}
		// let everything that was queued go out, then look for duplicates
		switch bc.State {
		case "blocked-full", "blocked-room":
			c.p.SetMode(vt.ModeAccept, nil)
		case "none", "left":
			if !pat.repLike {
				c.connect(false)
			}
		}
		c.settle()
		for _, b := range bodies {
			n := 0
			for _, p := range c.pipes {
				for _, s := range p.SentLog() {
					if bytes.HasSuffix(s.Data, b) {
						n++
					}
				}
			}
			if n > 1 {
				c.add("besteffort-duplicate", false, "%s: message %q was transmitted %d times", what, b, n)
			}
		}
	})
}

// ---------------------------------------------------------------------------
// 4. fail-no-peers

type npCase struct {
	Test  string `json:"test"`
	Kind  string `json:"kind"`
	State string `json:"state"` // none | left | leave-send | leave-recv | off-leave-send | connected | connected-full
	Dms   int    `json:"d_ms"`  // send/recv deadline set next to the option (0: none)
	WQ    int    `json:"wq"`
	Rseed string `json:"rseed"`
}

func TestC18FailNoPeers(t *testing.T) {
	var nc npCase
	if replayInto("TestC18FailNoPeers", &nc) {
		npRun(t, nc)
		return
	}
	names := kindNames(func(p *patInfo) bool { return p.fnp })
	stats.ScaledChecks(3, 8, func() {
		rapid.Check(t, func(t *rapid.T) {
			c := npCase{Test: "TestC18FailNoPeers", Rseed: os.Getenv("VERIF_RSEED")}
			c.Kind = rapid.SampledFrom(names).Draw(t, "kind")
			c.State = rapid.SampledFrom([]string{"none", "left", "leave-send", "leave-send", "leave-recv", "off-leave-send", "connected", "connected-full", "one-of-two-leaves", "second-arrives-all-leave", "left-then-off"}).Draw(t, "state")
			c.Dms = rapid.SampledFrom([]int{0, 5, 20, 50}).Draw(t, "d")
			c.WQ = rapid.IntRange(1, 2).Draw(t, "wq")
			npRun(t, c)
		})
	})
}

func npRun(t stats.TB, nc npCase) {
	pat, _ := kindOf(nc.Kind)
	nc.WQ = normWQ(pat, nc.WQ)
	isReq := pat.name == "req"
	if nc.State == "leave-recv" && !isReq {
		nc.State = "leave-send"
	}
	if (nc.State == "one-of-two-leaves" || nc.State == "second-arrives-all-leave") && isReq {
		nc.State = "leave-send" // a REQ context has one request at a time: no queue to fill behind two peers
	}
	switch nc.State {
	case "left-then-off":
		if nc.Dms == 0 {
			nc.Dms = 50
		}
	case "leave-send", "leave-recv", "off-leave-send", "one-of-two-leaves", "second-arrives-all-leave":
		nc.Dms = 0
	case "connected":
		if nc.Dms != 0 && nc.Dms < 50 {
			nc.Dms = 50
		}
	case "connected-full":
		if nc.Dms == 0 {
			nc.Dms = 20
		}
	}
	d := ms(nc.Dms)
	canon := fmt.Sprintf("np|%s|%s|%d|%d", nc.Kind, nc.State, nc.Dms, nc.WQ)
	run(t, nc, nc.Kind, canon, "nopeers:"+nc.State, func(c *cse) {
		c.setup(nc.Kind, nc.WQ)
		on := nc.State != "off-leave-send"
		c.setOpt(c.sub, mangos.OptionFailNoPeers, true)
		if !on {
			c.setOpt(c.sub, mangos.OptionFailNoPeers, false)
		}

		// immediate: a call issued without any peer
		immediate := func(op, what string, call func() (*mangos.Message, error)) {
			ch := async(call)
			r, ok := waitRes(ch, atOnce)
			switch {
			case !ok:
				c.add("nopeers-slow", false, "%s had not returned %v after the call although FAIL-NO-PEERS is set and no peer is connected", what, atOnce)
				c.join(ch)
			case r.err != mangos.ErrNoPeers:
				c.add("nopeers-wrong-error", false, "%s returned %s after %v, want ErrNoPeers (FAIL-NO-PEERS set, no peer connected)", what, errName(r.err), r.el)
				if r.m != nil && r.err == nil {
					r.m.Free()
				}
			case r.el >= atOnce:
				c.add("nopeers-slow", false, "%s returned ErrNoPeers only after %v", what, r.el)
			}
		}

		switch nc.State {
		case "none", "left":
			if nc.State == "left" {
				c.connect(false)
				c.mustSend(c.sub, "while-connected")
				c.dropPeer()
			}
			c.setOpt(c.sub, mangos.OptionSendDeadline, d)
			m := c.newMsg(c.body("nopeer"))
			immediate("send", fmt.Sprintf("%s Send (peer %s, send deadline %v)", nc.Kind, nc.State, d),
				func() (*mangos.Message, error) {
					err := c.sub.SendMsg(m)
					if err != nil {
						m.Free()
					}
					return nil, err
				})
			if isReq && len(c.viols) == 0 {
				c.setOpt(c.sub, mangos.OptionRecvDeadline, d)
				immediate("recv", fmt.Sprintf("%s Recv (peer %s, recv deadline %v)", nc.Kind, nc.State, d), c.sub.RecvMsg)
			}
			c.blocked = true

		case "leave-send", "off-leave-send":
			c.connect(true)
			n := c.fill(c.sub, nc.WQ)
			c.setOpt(c.sub, mangos.OptionSendDeadline, time.Duration(0))
			what := fmt.Sprintf("%s Send without deadline (FAIL-NO-PEERS %v, WRITEQ-LEN %d, queue full after %d messages, only peer stuck)", nc.Kind, on, nc.WQ, n)
			m := c.newMsg(c.body("waiting"))
			ch := async(func() (*mangos.Message, error) { return nil, c.sub.SendMsg(m) })
			if r, ok := waitRes(ch, waitProbe); ok {
				if r.err == mangos.ErrNoPeers {
					c.add("nopeers-wrong-error", false, "%s returned ErrNoPeers after %v while the peer was still connected", what, r.el)
				} else {
					c.add("nodeadline-returned", false, "%s returned %s after %v although nothing could complete it", what, errName(r.err), r.el)
				}
				return
			}
			c.blocked = true
			_ = c.p.Close()
			if on {
				r, ok := waitRes(ch, atOnce)
				switch {
				case !ok:
					c.add("nopeers-missed-leave", false, "%s was still blocked %v after the last peer left", what, atOnce)
					c.join(ch)
				case r.err != mangos.ErrNoPeers:
					c.add("nopeers-wrong-error", false, "%s returned %s when the last peer left, want ErrNoPeers", what, errName(r.err))
				}
				return
			}
			if r, ok := waitRes(ch, waitProbe); ok {
				c.add("nodeadline-returned", false, "%s returned %s when the last peer left although FAIL-NO-PEERS is off and there is no deadline", what, errName(r.err))
				return
			}
			c.closeSock()
			if r, ok := waitRes(ch, upper); !ok {
				c.add("send-hang", false, "%s did not return within %v after Close", what, upper)
			} else if r.err == mangos.ErrSendTimeout || r.err == mangos.ErrNoPeers {
				c.add("send-wrong-error", false, "%s returned %s on Close", what, errName(r.err))
			}

		case "one-of-two-leaves":
			// two peers, both stuck; one of them goes: a peer is still connected, so the option must
			// not fire; it fires when the second one goes too
			p1 := c.connect(true)
			p2 := c.connect(true)
			n, full := 0, false
			for i := 0; i < nc.WQ+14 && !full; i++ {
				switch err := c.send(c.sub, "fill", fillProbe); err {
				case nil:
					n++
				case mangos.ErrSendTimeout:
					full = p1.Blocked() >= 1 && p2.Blocked() >= 1
					if !full {
						p1.WaitBlocked(1, 300*time.Millisecond)
						p2.WaitBlocked(1, 300*time.Millisecond)
					}
				default:
					hfail("%s: fill Send: %v", c.kind, err)
				}
			}
			if !full {
				hfail("%s: queue did not fill with two stuck peers (wq=%d, %d accepted)", c.kind, nc.WQ, n)
			}
			c.setOpt(c.sub, mangos.OptionSendDeadline, time.Duration(0))
			what := fmt.Sprintf("%s Send without deadline (FAIL-NO-PEERS set, WRITEQ-LEN %d, queue full after %d messages, two peers stuck)", nc.Kind, nc.WQ, n)
			m := c.newMsg(c.body("waiting"))
			ch := async(func() (*mangos.Message, error) { return nil, c.sub.SendMsg(m) })
			if r, ok := waitRes(ch, waitProbe); ok {
				c.add("nodeadline-returned", false, "%s returned %s after %v although nothing could complete it", what, errName(r.err), r.el)
				return
			}
			c.blocked = true
			nd := c.ev.Detached()
			_ = p1.Close()
			if !c.ev.WaitDetached(nd+1, 5*time.Second) {
				hfail("%s: closed pipe not detached within 5s", c.kind)
			}
			if r, ok := waitRes(ch, waitProbe); ok {
				if r.err == mangos.ErrNoPeers {
					c.add("nopeers-while-connected", false, "%s returned ErrNoPeers when one of its two peers left although the other is still connected", what)
				} else if r.err != nil {
					c.add("nodeadline-returned", false, "%s returned %s when one of its two peers left", what, errName(r.err))
				}
				// nil: the departed peer's share of the queue went with it and made room — fine
				return
			}
			_ = p2.Close()
			r, ok := waitRes(ch, atOnce)
			switch {
			case !ok:
				c.add("nopeers-missed-leave", false, "%s was still blocked %v after the last peer left", what, atOnce)
				c.join(ch)
			case r.err != mangos.ErrNoPeers && r.err != nil:
				c.add("nopeers-wrong-error", false, "%s returned %s when the last peer left, want ErrNoPeers", what, errName(r.err))
			}

		case "left-then-off":
			// the last peer left while the option was on; the option is then turned off: Send waits again
			c.connect(false)
			c.mustSend(c.sub, "while-connected")
			c.dropPeer()
			c.setOpt(c.sub, mangos.OptionFailNoPeers, false)
			c.fill(c.sub, nc.WQ) // what the queue still takes is accepted; the next Send can only wait
			c.setOpt(c.sub, mangos.OptionSendDeadline, d)
			m := c.newMsg(c.body("after-off"))
			what := fmt.Sprintf("%s Send (FAIL-NO-PEERS turned off after the last peer left, no peer, send deadline %v)", nc.Kind, d)
			if r, ok := c.timed("send", what, d, mangos.ErrSendTimeout, func() (*mangos.Message, error) { return nil, c.sub.SendMsg(m) }, nil); ok && r.err != nil {
				m.Free()
			}

		case "second-arrives-all-leave":
			// one stuck peer, queue full, several Sends waiting; a second (stuck) peer arrives during
			// the wait; then both leave: every Send still waiting must fail with ErrNoPeers at once
			p1 := c.connect(true)
			n := c.fill(c.sub, nc.WQ)
			c.setOpt(c.sub, mangos.OptionSendDeadline, time.Duration(0))
			what := fmt.Sprintf("%s Send without deadline (FAIL-NO-PEERS set, WRITEQ-LEN %d, queue full after %d messages, a second peer arrived during the wait)", nc.Kind, nc.WQ, n)
			var chs []<-chan res
			for i := 0; i < 4; i++ {
				m := c.newMsg(c.body("waiting"))
				chs = append(chs, async(func() (*mangos.Message, error) { return nil, c.sub.SendMsg(m) }))
			}
			time.Sleep(waitProbe)
			p2 := c.connect(true)
			time.Sleep(20 * time.Millisecond)
			c.blocked = true
			_ = p1.Close()
			_ = p2.Close()
			for _, ch := range chs {
				r, ok := waitRes(ch, atOnce)
				switch {
				case !ok:
					c.add("nopeers-missed-leave", false, "%s was still blocked %v after the last peer left", what, atOnce)
					c.join(ch)
					return
				case r.err != mangos.ErrNoPeers && r.err != nil:
					c.add("nopeers-wrong-error", false, "%s returned %s when the last peer left, want ErrNoPeers", what, errName(r.err))
					return
				}
			}

		case "leave-recv":
			c.connect(false)
			c.armRecv()
			c.setOpt(c.sub, mangos.OptionRecvDeadline, time.Duration(0))
			what := fmt.Sprintf("%s Recv without deadline (FAIL-NO-PEERS set, request outstanding, peer silent)", nc.Kind)
			ch := async(c.sub.RecvMsg)
			if r, ok := waitRes(ch, waitProbe); ok {
				if r.err == mangos.ErrNoPeers {
					c.add("nopeers-wrong-error", false, "%s returned ErrNoPeers after %v while the peer was still connected", what, r.el)
				} else {
					c.add("nodeadline-returned", false, "%s returned %s after %v although nothing could complete it", what, errName(r.err), r.el)
				}
				return
			}
			c.blocked = true
			_ = c.p.Close()
			r, ok := waitRes(ch, atOnce)
			switch {
			case !ok:
				c.add("nopeers-missed-leave", false, "%s was still blocked %v after the last peer left", what, atOnce)
				c.join(ch)
			case r.err != mangos.ErrNoPeers:
				c.add("nopeers-wrong-error", false, "%s returned %s when the last peer left, want ErrNoPeers", what, errName(r.err))
			}

		case "connected":
			c.connect(false)
			c.setOpt(c.sub, mangos.OptionSendDeadline, d)
			m := c.newMsg(c.body("connected"))
			ch := async(func() (*mangos.Message, error) { return nil, c.sub.SendMsg(m) })
			r, ok := waitRes(ch, upper+d)
			what := fmt.Sprintf("%s Send (FAIL-NO-PEERS set, accepting peer connected, send deadline %v)", nc.Kind, d)
			switch {
			case !ok:
				c.add("send-hang", false, "%s did not return within %v", what, upper+d)
				c.join(ch)
				return
			case r.err == mangos.ErrSendTimeout:
				c.add("send-spurious-timeout", true, "%s timed out after %v although the peer accepts", what, r.el)
				return
			case r.err != nil:
				c.add("nopeers-wrong-error", false, "%s returned %v although a peer is connected", what, r.err)
				return
			}
			if isReq {
				if !c.p.WaitSent(1, 3*time.Second) {
					hfail("req: request not transmitted")
				}
				c.respID = append([]byte{}, c.p.SentLog()[0].Data[:4]...)
				want := c.body("reply")
				c.deliver(want)
				if d == 0 {
					d = 3 * time.Second
				}
				c.setOpt(c.sub, mangos.OptionRecvDeadline, d)
				rm, err, _ := c.doRecv(c.sub, d, "reply arrived")
				switch {
				case err == mangos.ErrRecvTimeout:
					c.add("recv-spurious-timeout", true, "%s Recv with deadline %v timed out although the reply had arrived", nc.Kind, d)
				case err != nil:
					c.add("nopeers-wrong-error", false, "%s Recv (FAIL-NO-PEERS set, peer connected, reply arrived) returned %v", nc.Kind, err)
				default:
					if !bytes.Equal(rm.Body, want) {
						c.add("recv-wrong-error", false, "%s Recv returned %q, want %q", nc.Kind, rm.Body, want)
					}
					rm.Free()
				}
			}

		case "connected-full":
			c.connect(true)
			n := c.fill(c.sub, nc.WQ)
			c.setOpt(c.sub, mangos.OptionSendDeadline, d)
			what := fmt.Sprintf("%s Send (FAIL-NO-PEERS set, WRITEQ-LEN %d, queue full after %d messages, stuck peer connected)", nc.Kind, nc.WQ, n)
			m := c.newMsg(c.body("full"))
			r, ok := c.timed("send", what, d, mangos.ErrSendTimeout, func() (*mangos.Message, error) { return nil, c.sub.SendMsg(m) }, nil)
			if ok && r.err != nil {
				m.Free()
			}
		}
	})
}
