// C07 — SURVEYOR delivers only responses to its current, unexpired survey.
//
// State machine over a real surveyor socket (1-3 contexts) with 1-3 virtual
// transport pipes on which the harness plays the respondents; a reference model
// keeps, per context, the current survey id and the queue of valid responses.
// A second property covers expiry with real (short) survey times.
package c07

import (
	"bytes"
	"encoding/binary"
	"fmt"
	"os"
	"testing"
	"time"

	"go.nanomsg.org/mangos/v3"
	"go.nanomsg.org/mangos/v3/protocol/surveyor"
	"go.nanomsg.org/mangos/v3/verifharness/fixture"
	"go.nanomsg.org/mangos/v3/verifharness/stats"
	"go.nanomsg.org/mangos/v3/verifharness/vt"
	"pgregory.net/rapid"
)

func TestMain(m *testing.M) {
	stats.Init("C07")
	stats.Rule("rapid state machine over a SURVEYOR socket with 1-3 contexts on 1-3 vt pipes; actions survey/respond(kind)/recv/openCtx/closeCtx/dropPipe/addPipe; response kinds: current, previous survey of the same context, other context's survey, no top bit, short body, random id; plus expiry scenarios with survey time 150-300 ms (response before/after expiry, Recv blocked across expiry, Recv after expiry). Also: survey time set on the context or inherited from the socket; surveys optionally replacing a pending one. Non-trivial: >=1 stale/foreign/malformed response while a survey is open, or an expiry, or >=2 contexts with surveys; distinct by action/outcome sequence. Round 5: survey-id counter crossing 2^31 (socket creation timed to the clock-seeded counter)")
	stats.Assume("expiry: lower bound exact (a Recv cannot report expiry before survey time has elapsed since before Send); 'after expiry' is taken as survey time + 300 ms")
	rc := m.Run()
	stats.Flush()
	os.Exit(rc)
}

type mctx struct {
	c      mangos.Context
	isSock bool
	closed bool
	cur    uint32
	tag    string
	queue  [][]byte
	old    []uint32
	n      int
}

func errName(err error) string {
	if err == nil {
		return "nil"
	}
	return err.Error()
}

func TestC07(t *testing.T) {
	rapid.Check(t, func(t *rapid.T) {
		sock, err := surveyor.NewSocket()
		if err != nil {
			t.Fatalf("harness: %v", err)
		}
		defer sock.Close()
		ev := fixture.Hook(sock)
		ep, err := vt.Attach(sock)
		if err != nil {
			t.Fatalf("harness: %v", err)
		}
		defer ep.Forget()
		var trace []string
		logf := func(f string, a ...interface{}) { trace = append(trace, fmt.Sprintf(f, a...)) }
		doc := func() interface{} {
			return map[string]interface{}{"test": "TestC07", "trace": trace, "rseed": os.Getenv("VERIF_RSEED")}
		}
		fail := func(key, f string, a ...interface{}) {
			stats.Fail(t, "C07:"+key, doc(), f+" — history: %v", append(a, trace)...)
		}
		var pipes []*vt.Pipe
		addPipe := func() {
			p, ok := ep.ConnectWait(5 * time.Second)
			if !ok {
				t.Fatalf("harness: pipe not attached")
			}
			pipes = append(pipes, p)
		}
		for i, n := 0, rapid.IntRange(1, 3).Draw(t, "npipes"); i < n; i++ {
			addPipe()
		}
		// no survey expires during a history: the survey time is either long or 0 (documented: never)
		surveyTime := rapid.SampledFrom([]time.Duration{30 * time.Second, 30 * time.Second, 0}).Draw(t, "surveyTime")
		if err := sock.SetOption(mangos.OptionSurveyTime, surveyTime); err != nil {
			t.Fatalf("harness: %v", err)
		}
		if surveyTime == 0 {
			stats.Class("machine_with_survey_time_0")
		}
		ctxs := []*mctx{{c: sock, isSock: true}}
		serial := 0
		stale, multi := 0, map[int]bool{}
		canon := ""
		pick := func(label string) (int, *mctx) {
			i := rapid.IntRange(0, len(ctxs)-1).Draw(t, label)
			if ctxs[i].closed && rapid.IntRange(0, 3).Draw(t, label+"k") != 0 {
				i = 0
			}
			return i, ctxs[i]
		}

		var doSurvey func(ci int, c *mctx)
		acts := map[string]func(*rapid.T){
			"survey": func(t *rapid.T) {
				ci, c := pick("ctx")
				doSurvey(ci, c)
			},
			"surveyWhileRecvWaits": func(t *rapid.T) {
				// A Recv is waiting for responses to the current survey when the same context starts
				// a new one: the old survey is abandoned, so the waiting Recv ends (without a response)
				// and a response to the old survey that arrives afterwards goes nowhere.
				ci, c := pick("ctx")
				if c.closed || c.cur == 0 || len(c.queue) > 0 {
					t.Skip("needs a survey in progress with nothing queued")
				}
				if err := c.c.SetOption(mangos.OptionRecvDeadline, 3*time.Second); err != nil {
					t.Fatalf("harness: %v", err)
				}
				type rr struct {
					b   []byte
					err error
				}
				ch := make(chan rr, 1)
				before := fixture.CountGoroutines("protocol/surveyor.(*context).RecvMsg")
				go func() { b, err := c.c.Recv(); ch <- rr{b, err} }()
				// wait until the Recv is really waiting inside the library (else, after 1 s, go on:
				// the late-start case is told apart below)
				fixture.WaitGoroutines(before+1, time.Second, "protocol/surveyor.(*context).RecvMsg")
				oldID := c.cur
				logf("recvAsync(ctx%d)", ci)
				doSurvey(ci, c)
				if c.cur == oldID {
					return // the survey failed; already reported
				}
				wire := make([]byte, 4, 32)
				binary.BigEndian.PutUint32(wire, oldID)
				wire = append(wire, []byte("LATE-FOR-ABANDONED")...)
				pi := rapid.IntRange(0, len(pipes)-1).Draw(t, "pipe")
				res := pipes[pi].Inject(wire, 3*time.Second)
				logf("respond(pipe%d,abandoned,%08x)=%d", pi, oldID, res)
				select {
				case r := <-ch:
					logf("  waiting recv(ctx%d)=(%q,%s)", ci, r.b, errName(r.err))
					if r.err == nil {
						fail("abandoned-survey-delivered", "a Recv that was waiting on ctx %d when a new survey replaced survey %08x returned %q", ci, oldID, r.b)
					}
				case <-time.After(time.Second):
					// Either the Recv was never ended, or (scheduling) it only started after the new
					// survey and is rightly waiting for responses to that one: a response to the new
					// survey tells the two apart.
					w2 := make([]byte, 4, 32)
					binary.BigEndian.PutUint32(w2, c.cur)
					w2 = append(w2, []byte("FOR-THE-NEW-SURVEY")...)
					_ = pipes[pi].Inject(w2, 3*time.Second)
					select {
					case r := <-ch:
						if r.err != nil || string(r.b) != "FOR-THE-NEW-SURVEY" {
							fail("abandoned-recv-not-ended", "a Recv that was waiting on ctx %d when a new survey replaced survey %08x was still blocked 1s later and then returned (%q,%v)", ci, oldID, r.b, r.err)
						} else {
							stats.Class("recv_started_after_the_new_survey")
						}
					case <-time.After(2 * time.Second):
						fail("abandoned-recv-not-ended", "a Recv that was waiting on ctx %d when a new survey replaced survey %08x was still blocked 1s later, and a response to the new survey did not reach it either", ci, oldID)
						<-ch
					}
				}
				stats.Class("survey_replaced_under_waiting_recv")
				stale++
				canon += "W"
			},
			"respond": func(t *rapid.T) {
				pi := rapid.IntRange(0, len(pipes)-1).Draw(t, "pipe")
				kind := rapid.SampledFrom([]string{"current", "current", "current", "previous", "nobit", "short", "random"}).Draw(t, "kind")
				ci, c := pick("forctx")
				serial++
				payload := []byte(fmt.Sprintf("RESP%d:%s:for-ctx%d", serial, kind, ci))
				var id uint32
				ok := true
				switch kind {
				case "current":
					ok = c.cur != 0
					id = c.cur
				case "previous":
					ok = len(c.old) > 0
					if ok {
						id = c.old[rapid.IntRange(0, len(c.old)-1).Draw(t, "old")]
					}
				case "nobit":
					ok = c.cur != 0
					id = c.cur & 0x7fffffff
				case "random":
					id = rapid.Uint32().Draw(t, "rid")
				}
				var wire []byte
				if kind == "short" {
					wire = make([]byte, rapid.IntRange(0, 3).Draw(t, "n"))
					var b [4]byte
					binary.BigEndian.PutUint32(b[:], c.cur)
					copy(wire, b[:])
				} else {
					if !ok {
						kind = "random"
						id = rapid.Uint32().Draw(t, "rid2")
					}
					wire = make([]byte, 4, 4+len(payload))
					binary.BigEndian.PutUint32(wire, id)
					wire = append(wire, payload...)
				}
				res := pipes[pi].Inject(wire, 3*time.Second)
				logf("respond(pipe%d,%s,%08x,%q)=%d", pi, kind, id, payload, res)
				if res != vt.InjProcessed {
					fail("receiver-stalled", "pipe %d receiver did not process a response (result %d)", pi, res)
					return
				}
				matched := false
				if kind != "short" {
					for _, o := range ctxs {
						if !o.closed && o.cur != 0 && o.cur == id {
							if len(o.queue) < 100 {
								o.queue = append(o.queue, payload)
							}
							matched = true
						}
					}
				}
				if !matched {
					for _, o := range ctxs {
						if !o.closed && o.cur != 0 {
							stale++
							break
						}
					}
				}
				canon += "r" + kind[:1]
			},
			"recv": func(t *rapid.T) {
				ci, c := pick("ctx")
				block := !c.closed && c.cur != 0 && len(c.queue) == 0
				d := 3 * time.Second
				if block {
					d = 30 * time.Millisecond
				}
				if !c.closed {
					if err := c.c.SetOption(mangos.OptionRecvDeadline, d); err != nil {
						t.Fatalf("harness: %v", err)
					}
				}
				start := time.Now()
				b, err := c.c.Recv()
				el := time.Since(start)
				logf("recv(ctx%d)=(%q,%s)", ci, b, errName(err))
				canon += "R"
				switch {
				case c.closed:
					// a closed context has no survey in progress either: both errors satisfy the statement
					if err != mangos.ErrClosed && err != mangos.ErrProtoState {
						fail("recv-closed", "Recv on closed ctx %d returned (%q,%v), want ErrClosed or ErrProtoState", ci, b, err)
					}
				case c.cur == 0:
					if err == nil {
						fail("delivered-without-survey", "Recv on ctx %d with no survey in progress returned %q", ci, b)
					} else if err != mangos.ErrProtoState {
						fail("recv-nostate-error", "Recv on ctx %d with no survey in progress returned %v, want ErrProtoState", ci, err)
					} else if el > 2*time.Second {
						fail("recv-nostate-slow", "Recv with no survey took %v", el)
					}
				case len(c.queue) > 0:
					if err != nil {
						fail("response-lost", "Recv on ctx %d returned %v although response %q to its current survey had arrived", ci, err, c.queue[0])
					} else if !bytes.Equal(b, c.queue[0]) {
						fail("wrong-response", "Recv on ctx %d returned %q, want %q (responses to the current survey %s in arrival order)", ci, b, c.queue[0], c.tag)
					}
					c.queue = c.queue[1:]
					canon += "+"
				default:
					if err == nil {
						fail("wrong-delivery", "Recv on ctx %d returned %q although no valid response to survey %s (id %08x) was pending", ci, b, c.tag, c.cur)
					} else if err != mangos.ErrRecvTimeout {
						fail("recv-timeout-error", "Recv on ctx %d returned %v, want ErrRecvTimeout", ci, err)
					} else if el < d {
						fail("timeout-early", "Recv timed out after %v < %v", el, d)
					}
				}
			},
			"openCtx": func(t *rapid.T) {
				if len(ctxs) >= 3 {
					t.Skip("enough")
				}
				c, err := sock.OpenContext()
				if err != nil {
					fail("opencontext", "OpenContext: %v", err)
					return
				}
				if err := c.SetOption(mangos.OptionSurveyTime, surveyTime); err != nil {
					t.Fatalf("harness: %v", err)
				}
				ctxs = append(ctxs, &mctx{c: c})
				logf("openCtx")
				canon += "O"
			},
			"closeCtx": func(t *rapid.T) {
				ci, c := pick("ctx")
				if c.isSock || c.closed {
					t.Skip("n/a")
				}
				if err := c.c.Close(); err != nil {
					fail("ctx-close", "close ctx %d: %v", ci, err)
				}
				c.closed = true
				if c.cur != 0 {
					c.old = append(c.old, c.cur)
				}
				c.cur = 0
				logf("closeCtx(%d)", ci)
				canon += "C"
			},
			"dropPipe": func(t *rapid.T) {
				if len(pipes) < 2 {
					t.Skip("keep one")
				}
				pi := rapid.IntRange(0, len(pipes)-1).Draw(t, "pipe")
				n0 := ev.Detached()
				_ = pipes[pi].Close()
				if !ev.WaitDetached(n0+1, 3*time.Second) {
					fail("no-detach", "dropped pipe not detached")
				}
				pipes = append(pipes[:pi], pipes[pi+1:]...)
				logf("dropPipe(%d)", pi)
				canon += "D"
			},
			"addPipe": func(t *rapid.T) {
				if len(pipes) >= 3 {
					t.Skip("enough")
				}
				addPipe()
				logf("addPipe")
				canon += "P"
			},
		}
		doSurvey = func(ci int, c *mctx) {
			c.n++
			tag := fmt.Sprintf("SURVEY-%d-%d", ci, c.n)
			counts := make([]int, len(pipes))
			for i, p := range pipes {
				counts[i] = p.SentCount()
			}
			err := c.c.Send([]byte(tag))
			logf("survey(ctx%d,%s)=%s", ci, tag, errName(err))
			canon += "S"
			if c.closed {
				if err != mangos.ErrClosed {
					fail("send-closed", "Send on closed ctx %d: %v, want ErrClosed", ci, err)
				}
				return
			}
			if err != nil {
				fail("send-error", "survey on ctx %d failed: %v", ci, err)
				return
			}
			var id uint32
			for i, p := range pipes {
				if !p.WaitSent(counts[i]+1, 3*time.Second) {
					fail("survey-not-broadcast", "survey %s did not reach pipe %d (of %d connected) within 3s", tag, i, len(pipes))
					return
				}
				log := p.SentLog()
				d := log[counts[i]].Data
				if len(d) < 4 || string(d[4:]) != tag {
					fail("survey-bytes", "pipe %d got %x, want id||%q", i, d, tag)
					return
				}
				x := binary.BigEndian.Uint32(d)
				if i == 0 {
					id = x
				} else if x != id {
					fail("survey-id-differs", "survey %s went out with different ids %08x / %08x", tag, id, x)
				}
				if len(log) > counts[i]+1 {
					fail("survey-duplicated", "pipe %d got %d messages for one survey", i, len(log)-counts[i])
				}
			}
			if id&0x80000000 == 0 {
				fail("survey-id-bit", "survey id %08x lacks the top bit", id)
			}
			for oi, o := range ctxs {
				if o != c && o.cur == id {
					fail("id-collision", "ctx %d and %d share survey id %08x", ci, oi, id)
				}
			}
			if c.cur != 0 {
				c.old = append(c.old, c.cur)
			}
			c.cur, c.tag, c.queue = id, tag, nil
			multi[ci] = true
		}
		acts["survey2"] = acts["survey"]
		acts["respond2"] = acts["respond"]
		acts["respond3"] = acts["respond"]
		acts["respond4"] = acts["respond"]
		acts["recv2"] = acts["recv"]
		acts["recv3"] = acts["recv"]
		t.Repeat(acts)

		stats.Eval()
		nm := len(multi)
		if stale > 0 {
			stats.Class("stale_or_foreign_response")
		}
		if nm >= 2 {
			stats.Class("multi_context")
		}
		if stale > 0 || nm >= 2 {
			stats.NonTrivial(canon)
		}
		stats.Sample(map[string]interface{}{"trace": trace})
	})
}

// TestC07Expiry: real, short survey times.
func TestC07Expiry(t *testing.T) {
	stats.ScaledChecks(10, 5, func() { rapid.Check(t, expiryProp) })
}

func expiryProp(t *rapid.T) {
	{
		S := time.Duration(rapid.SampledFrom([]int{150, 200, 300}).Draw(t, "S")) * time.Millisecond
		scenario := rapid.SampledFrom([]string{"recv-after-expiry", "blocked-across-expiry", "late-response", "early-response", "new-survey-after-expiry", "zero-means-infinite"}).Draw(t, "scenario")
		useCtx := rapid.Bool().Draw(t, "ctx")
		restart := rapid.Bool().Draw(t, "restartsPendingSurvey")
		sock, err := surveyor.NewSocket()
		if err != nil {
			t.Fatalf("harness: %v", err)
		}
		defer sock.Close()
		ep, err := vt.Attach(sock)
		if err != nil {
			t.Fatalf("harness: %v", err)
		}
		defer ep.Forget()
		p, ok := ep.ConnectWait(5 * time.Second)
		if !ok {
			t.Fatalf("harness: no pipe")
		}
		// A context takes its survey time either from its own option or,
		// when it sets none, from the socket it was opened on (OpenContext
		// copies the socket's current settings).
		inherit := useCtx && rapid.Bool().Draw(t, "inheritsSurveyTime")
		if scenario == "zero-means-infinite" {
			S = 0
		}
		var c mangos.Context = sock
		if inherit {
			if err := sock.SetOption(mangos.OptionSurveyTime, S); err != nil {
				t.Fatalf("harness: %v", err)
			}
		}
		if useCtx {
			if c, err = sock.OpenContext(); err != nil {
				t.Fatalf("harness: %v", err)
			}
		}
		if inherit {
			stats.Class("ctx_inherits_survey_time")
		} else if err := c.SetOption(mangos.OptionSurveyTime, S); err != nil {
			t.Fatalf("harness: %v", err)
		}
		doc := map[string]interface{}{"test": "TestC07Expiry", "S_ms": S.Milliseconds(), "scenario": scenario, "ctx": useCtx, "inherit": inherit, "restart": restart, "rseed": os.Getenv("VERIF_RSEED")}
		fail := func(key, f string, a ...interface{}) {
			stats.Fail(t, "C07:expiry:"+key, doc, "S=%v %s: %s", S, scenario, fmt.Sprintf(f, a...))
		}
		// optionally the survey under test replaces one that is still pending
		base := 0
		if restart {
			if err := c.Send([]byte("Q0")); err != nil {
				fail("send", "Send: %v", err)
				return
			}
			if !p.WaitSent(1, 3*time.Second) {
				fail("not-sent", "survey not transmitted")
				return
			}
			base = 1
		}
		t0 := time.Now()
		if err := c.Send([]byte("Q")); err != nil {
			fail("send", "Send: %v", err)
			return
		}
		if !p.WaitSent(base+1, 3*time.Second) {
			fail("not-sent", "survey not transmitted")
			return
		}
		id := p.SentLog()[base].Data[:4]
		resp := func(tag string) []byte { return append(append([]byte{}, id...), tag...) }
		switch scenario {
		case "zero-means-infinite":
			// documented: zero survey time = no expiry.  A response injected 150 ms later is delivered.
			time.Sleep(150 * time.Millisecond)
			p.Inject(resp("patient"), 3*time.Second)
			_ = c.SetOption(mangos.OptionRecvDeadline, 2*time.Second)
			b, err := c.Recv()
			if err != nil || string(b) != "patient" {
				fail("zero-survey-time", "with survey time 0 (documented: infinite) a response 150 ms after the survey was not delivered: (%q,%v)", b, err)
			}
		case "early-response":
			r := p.Inject(resp("early"), 3*time.Second)
			injDone := time.Since(t0)
			_ = c.SetOption(mangos.OptionRecvDeadline, 2*time.Second)
			b, err := c.Recv()
			if injDone < S/2 && r == vt.InjProcessed {
				if err != nil || string(b) != "early" {
					fail("early-lost", "response injected %v after Send (survey time %v) was not delivered: (%q,%v)", injDone, S, b, err)
				}
			} else {
				stats.Class("early_response_too_late_to_assert")
			}
		case "recv-after-expiry", "late-response", "new-survey-after-expiry":
			time.Sleep(time.Until(t0.Add(S + 300*time.Millisecond)))
			if scenario == "late-response" {
				p.Inject(resp("late"), 3*time.Second)
			}
			if scenario == "new-survey-after-expiry" {
				if err := c.Send([]byte("Q2")); err != nil {
					fail("send2", "second survey: %v", err)
					return
				}
				if !p.WaitSent(base+2, 3*time.Second) {
					fail("not-sent", "second survey not transmitted")
					return
				}
				id2 := p.SentLog()[base+1].Data[:4]
				// response to the expired survey must not be delivered; one to the new survey must be
				p.Inject(resp("to-expired"), 3*time.Second)
				p.Inject(append(append([]byte{}, id2...), "fresh"...), 3*time.Second)
				_ = c.SetOption(mangos.OptionRecvDeadline, 2*time.Second)
				b, err := c.Recv()
				if err != nil || string(b) != "fresh" {
					fail("after-expiry-new-survey", "Recv returned (%q,%v), want the response to the new survey", b, err)
				}
				break
			}
			_ = c.SetOption(mangos.OptionRecvDeadline, 2*time.Second)
			start := time.Now()
			b, err := c.Recv()
			el := time.Since(start)
			if err == nil {
				fail("delivered-after-expiry", "Recv %v after the survey (time %v) returned %q", time.Since(t0), S, b)
			} else if err != mangos.ErrProtoState {
				fail("blocks-after-expiry", "Recv after expiry returned %v after %v, want a prompt ErrProtoState", err, el)
			} else if el > time.Second {
				fail("slow-after-expiry", "Recv after expiry took %v", el)
			}
		case "blocked-across-expiry":
			_ = c.SetOption(mangos.OptionRecvDeadline, time.Duration(0))
			type res struct {
				b   []byte
				err error
			}
			ch := make(chan res, 1)
			go func() { b, err := c.Recv(); ch <- res{b, err} }()
			select {
			case r := <-ch:
				el := time.Since(t0)
				if r.err != mangos.ErrProtoState {
					fail("blocked-wrong-result", "Recv blocked across expiry returned (%q,%v), want ErrProtoState", r.b, r.err)
				} else if el < S {
					fail("expired-early", "survey expired after %v, before its survey time %v", el, S)
				}
			case <-time.After(S + 3*time.Second):
				fail("blocked-forever", "Recv still blocked %v after Send although the survey time is %v", time.Since(t0), S)
			}
		}
		stats.Eval()
		stats.Class("expiry:" + scenario)
		if restart {
			stats.Class("expiry_of_restarted_survey")
		}
		stats.NonTrivial(fmt.Sprintf("E|%s|%d|%v|%v", scenario, S.Milliseconds(), useCtx, restart))
		stats.Sample(doc)
	}
}
