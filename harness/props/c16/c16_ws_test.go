// C16 over WebSocket — hostile ws/wss peers on both sides of the socket under test.
//
// Listener side: raw clients that never send an HTTP request, send garbage instead of one, offer the
// wrong or no subprotocol, or complete the upgrade and then send frames announcing more than
// MAX-RCV-SIZE (in one frame or as fragments that only together exceed it), lengths with the top bit
// set, truncated frames, frames that violate RFC 6455 (unmasked client frame, reserved bits, a
// continuation without a start, control frames) or bodies malformed for the pattern.
// Dialer side: the socket dials a scripted server (wire.WSAccept) that does the same to it.
// Oracle: the process survives, the control peer attaches promptly and its exchange is delivered
// exactly (nothing else is) before, during and after, its connection is never dropped, and a peer
// that announced an out-of-limit message is disconnected within 3 s although the announced bytes
// never arrive.
package c16

import (
	"bytes"
	"compress/flate"
	"crypto/tls"
	"encoding/binary"
	"fmt"
	"net"
	"os"
	"strings"
	"testing"
	"time"

	"go.nanomsg.org/mangos/v3"
	"go.nanomsg.org/mangos/v3/verifharness/fixture"
	"go.nanomsg.org/mangos/v3/verifharness/stats"
	"go.nanomsg.org/mangos/v3/verifharness/wire"
	"pgregory.net/rapid"
)

// rawFrameHead returns an RFC 6455 frame header announcing n payload bytes (64-bit form when
// wide), masked with a zero key when the writer is a client, so that payload bytes go out as is.
func rawFrameHead(b0 byte, n uint64, client, wide bool) []byte {
	var mbit byte
	if client {
		mbit = 0x80
	}
	h := []byte{b0}
	switch {
	case !wide && n <= 125:
		h = append(h, mbit|byte(n))
	case !wide && n <= 0xffff:
		h = append(h, mbit|126, byte(n>>8), byte(n))
	default:
		var l [8]byte
		binary.BigEndian.PutUint64(l[:], n)
		h = append(append(h, mbit|127), l[:]...)
	}
	if client {
		h = append(h, 0, 0, 0, 0)
	}
	return h
}

// wsAttack plays one script on an upgraded connection.  It reports whether the script announced
// an out-of-limit message (the connection must then be dropped).
func wsAttack(c net.Conn, client bool, kind string, arg int64, L int, mal []byte) (mustDrop bool) {
	w := func(b ...[]byte) {
		for _, x := range b {
			_, _ = c.Write(x)
		}
	}
	fill := func(n int, ch byte) []byte {
		b := make([]byte, n)
		for i := range b {
			b[i] = ch
		}
		return b
	}
	switch kind {
	case "oversize":
		n := uint64(L) + 1 + uint64(arg)
		have := 64
		if uint64(have) > n {
			have = int(n)
		}
		w(rawFrameHead(0x82, n, client, false), fill(have, 'A'))
		return true
	case "oversize-fragmented":
		// two fragments, each within the limit, together above it
		half := L/2 + 1 + int(arg)
		if half > L {
			half = L
		}
		w(rawFrameHead(0x02, uint64(half), client, false), fill(half, 'F'))
		w(rawFrameHead(0x80, uint64(half), client, false), fill(half-1, 'G')) // last byte withheld: only the announcement exceeds
		return true
	case "huge":
		w(rawFrameHead(0x82, uint64(1)<<(30+uint(arg)*4)-1, client, true), fill(64, 'H'))
		return true
	case "msb-length":
		w(rawFrameHead(0x82, uint64(1)<<63|uint64(arg), client, true), fill(16, 'N'))
		return true
	case "truncated-frame":
		w(rawFrameHead(0x82, 40, client, false), fill(int(arg), 'T'))
		_ = c.Close()
	case "wrong-masking":
		w(rawFrameHead(0x82, 5, !client, false), []byte("hello"))
	case "reserved-bits":
		w(rawFrameHead(0xf2, 5, client, false), []byte("rsvd!"))
	case "continuation-only":
		w(rawFrameHead(0x80, 4, client, false), []byte("cont"))
	case "ping":
		w(rawFrameHead(0x89, uint64(arg), client, false), fill(int(arg), 'p'))
	case "pong":
		w(rawFrameHead(0x8a, uint64(arg), client, false), fill(int(arg), 'q'))
	case "long-control":
		w(rawFrameHead(0x89, 126+uint64(arg), client, false), fill(126+int(arg), 'c'))
	case "close-frame":
		w(rawFrameHead(0x88, 2, client, false), []byte{0x03, 0xe8})
	case "malformed-body", "malformed-text":
		b := mal
		if b == nil {
			return false // every body is a valid message for this pattern: nothing hostile to send
		}
		op := byte(0x82)
		if kind == "malformed-text" {
			op = 0x81
		}
		w(rawFrameHead(op, uint64(len(b)), client, false), b)
	}
	return false
}

// droppedWithin reads c until an error; true if the error is not a time-out (the other side hung up).
func droppedWithin(c net.Conn, d time.Duration) bool {
	_ = c.SetReadDeadline(time.Now().Add(d))
	buf := make([]byte, 512)
	for {
		if _, err := c.Read(buf); err != nil {
			ne, isNet := err.(net.Error)
			return !(isNet && ne.Timeout())
		}
	}
}

var wsFrameKinds = []string{"oversize", "oversize-fragmented", "huge", "msb-length", "truncated-frame", "wrong-masking", "reserved-bits",
	"continuation-only", "ping", "pong", "long-control", "close-frame", "malformed-body", "malformed-text"}

func TestC16HostileWS(t *testing.T) {
	stats.ScaledChecks(6, 4, func() {
		rapid.Check(t, func(t *rapid.T) {
			p := fixture.Protos[rapid.IntRange(0, len(fixture.Protos)-1).Draw(t, "ctor")]
			tr := rapid.SampledFrom([]string{"ws", "ws", "wss"}).Draw(t, "transport")
			role := rapid.SampledFrom([]string{"listener", "listener", "dialer"}).Draw(t, "role")
			L := rapid.SampledFrom([]int{64, 1000, 1 << 20, 0}).Draw(t, "L")
			nh := rapid.IntRange(1, 4).Draw(t, "hostile")
			if role == "dialer" {
				nh = rapid.IntRange(1, 2).Draw(t, "hostileServers")
			}
			exclusive := p.Name == "pair" || p.Name == "xpair" || p.Name == "pair1" || p.Name == "xpair1"
			balancer := p.Name == "req" || p.Name == "xreq" || p.Name == "push" || p.Name == "xpush"
			kinds := append([]string{"silent-tcp", "garbage-http", "wrong-subprotocol", "no-subprotocol", "deflate-bomb"}, wsFrameKinds...)
			if !exclusive && !balancer {
				kinds = append(kinds, "silent-upgraded")
			}
			scripts := make([]hostileScript, nh)
			mals := make([][]byte, nh) // bodies malformed for the pattern, drawn here (not on a server goroutine)
			for i := range scripts {
				k := rapid.SampledFrom(kinds).Draw(t, "script")
				a := int64(rapid.IntRange(0, 7).Draw(t, "arg"))
				switch {
				case k == "deflate-bomb" && role == "dialer":
					k = "oversize"
					if L == 0 {
						k = "msb-length"
					}
				case L == 0 && (k == "oversize" || k == "huge" || k == "oversize-fragmented" || k == "deflate-bomb"):
					k = "msb-length" // without a limit only an invalid length is out of bounds
				case L > 1000 && k == "oversize-fragmented":
					k = "oversize"
				}
				scripts[i] = hostileScript{Kind: k, Arg: a}
				if k == "malformed-body" || k == "malformed-text" {
					mals[i] = malformedFor(p.Name, t)
				}
			}
			doc := map[string]interface{}{"test": "TestC16HostileWS", "ctor": p.Name, "transport": tr, "role": role, "limit": L, "scripts": scripts, "rseed": os.Getenv("VERIF_RSEED")}
			fail := func(k, f string, a ...interface{}) {
				stats.Fail(t, "C16:ws-"+k+":"+p.Name, doc, "%s %s over %s (limit %d, hostile %+v): %s", p.Name, role, tr, L, scripts, fmt.Sprintf(f, a...))
			}
			S := fixture.New(p.Name)
			defer func() {
				if !fixture.Within(5*time.Second, func() { _ = S.Close() }) {
					fail("close-hangs", "Close of the attacked socket does not return")
				}
			}()
			if err := S.SetOption(mangos.OptionMaxRecvSize, L); err != nil {
				t.Fatalf("harness: %v", err)
			}
			if p.Name == "sub" {
				_ = S.SetOption(mangos.OptionSubscribe, "")
			}
			if p.Name == "surveyor" {
				_ = S.SetOption(mangos.OptionSurveyTime, 10*time.Second)
			}
			sev := fixture.Hook(S)
			// the control peer always comes in through a listener of the attacked transport
			addr, _, err := fixture.Listen(S, tr)
			if err != nil {
				t.Fatalf("harness: %v", err)
			}
			hostport := strings.TrimSuffix(strings.SplitN(addr, "://", 2)[1], "/sp")
			var conns []net.Conn
			defer func() {
				for _, c := range conns {
					_ = c.Close()
				}
			}()
			openTCP := func() net.Conn {
				c, err := net.DialTimeout("tcp", hostport, 3*time.Second)
				if err != nil {
					t.Fatalf("harness: raw dial: %v", err)
				}
				conns = append(conns, c)
				return c
			}
			secure := func(c net.Conn) net.Conn {
				if tr != "wss" {
					return c
				}
				tc := tls.Client(c, fixture.TLSClient())
				_ = tc.SetDeadline(time.Now().Add(3 * time.Second))
				if err := tc.Handshake(); err != nil {
					t.Fatalf("harness: tls: %v", err)
				}
				_ = tc.SetDeadline(time.Time{})
				conns = append(conns, tc)
				return tc
			}
			if role == "listener" {
				for _, sc := range scripts {
					if sc.Kind == "silent-tcp" {
						c := openTCP()
						if sc.Arg%2 == 1 {
							secure(c) // on wss: silent after the TLS handshake
						}
					}
				}
			}
			P := fixture.New(p.PeerName)
			defer P.Close()
			if p.PeerName == "sub" {
				_ = P.SetOption(mangos.OptionSubscribe, "")
			}
			if p.PeerName == "surveyor" {
				_ = P.SetOption(mangos.OptionSurveyTime, 10*time.Second)
			}
			pev := fixture.Hook(P)
			t0 := time.Now()
			copts := fixture.DialOpts(tr)
			if copts == nil {
				copts = map[string]interface{}{}
			}
			copts[mangos.OptionDialAsynch] = true
			copts[mangos.OptionReconnectTime] = 5 * time.Millisecond
			copts[mangos.OptionMaxReconnectTime] = 5 * time.Millisecond
			if err := P.DialOptions(addr, copts); err != nil {
				fail("control-connect", "control peer cannot connect: %v", err)
				return
			}
			if !pev.WaitAttached(1, 3*time.Second) || !sev.WaitAttached(1, 3*time.Second) {
				fail("control-connect-delayed", "control peer not attached %v after dialing (silent peers present)", time.Since(t0))
				return
			}
			cx := &controlExchange{p: p, S: S, P: P, fail: fail}
			if !cx.run("before the attack") {
				return
			}
			selfSub := S.Info().SelfName + ".sp.nanomsg.org"
			for i, sc := range scripts {
				if sc.Kind == "silent-tcp" && role == "listener" {
					continue
				}
				stage := fmt.Sprintf("during the attack (%s #%d)", sc.Kind, i)
				if role == "listener" {
					a0, d0 := sev.Attached(), sev.Detached()
					c := secure(openTCP())
					_ = c.SetDeadline(time.Now().Add(4 * time.Second))
					host := hostport
					switch sc.Kind {
					case "garbage-http":
						_, _ = c.Write([]byte(rapid.SampledFrom([]string{"\x00SP\x00\x00\x10\x00\x00", "GET /sp HTTP/9.9\r\n\r\n", "POST /sp HTTP/1.1\r\nHost: x\r\nContent-Length: 99999999\r\n\r\nabc", "GET /sp HTTP/1.1\r\nHost: x\r\nUpgrade: websocket\r\nConnection: Upgrade\r\nSec-WebSocket-Version: 7\r\n\r\n", strings.Repeat("A", 70000)}).Draw(t, "garbage")))
					case "wrong-subprotocol", "no-subprotocol":
						var offer []string
						if sc.Kind == "wrong-subprotocol" {
							offer = []string{rapid.SampledFrom([]string{"x" + selfSub, "sp.nanomsg.org", S.Info().PeerName + "x.sp.nanomsg.org", strings.ToUpper(selfSub) + "."}).Draw(t, "offer")}
						}
						if wc, sel, err := wire.WSDial(c, host, "/sp", offer); err == nil {
							// the upgrade went through: then no SP conversation may follow from it
							_ = wc
							if sev.WaitAttached(a0+1, 300*time.Millisecond) && !exclusive {
								fail("wrong-subprotocol-attached", "a client offering %q (selected %q) was attached as a peer", offer, sel)
								return
							}
						}
					case "deflate-bomb":
						// the client offers permessage-deflate and sends a small compressed frame that
						// inflates to more than the limit: whether or not the listener takes the offer,
						// no message above the limit may come out of it and the offender must go
						req := "GET /sp HTTP/1.1\r\nHost: " + host + "\r\nUpgrade: websocket\r\nConnection: Upgrade\r\nSec-WebSocket-Key: dGhlIHNhbXBsZSBub25jZQ==\r\nSec-WebSocket-Version: 13\r\n" +
							"Sec-WebSocket-Protocol: " + selfSub + "\r\nSec-WebSocket-Extensions: permessage-deflate; server_no_context_takeover; client_no_context_takeover\r\n\r\n"
						_, _ = c.Write([]byte(req))
						head := make([]byte, 0, 1024)
						one := make([]byte, 1)
						for !bytes.HasSuffix(head, []byte("\r\n\r\n")) && len(head) < 4096 {
							if _, err := c.Read(one); err != nil {
								break
							}
							head = append(head, one[0])
						}
						if !bytes.Contains(head, []byte(" 101 ")) {
							if exclusive {
								break
							}
							fail("upgrade-refused", "a well-formed upgrade request offering permessage-deflate was refused: %q", head)
							return
						}
						if bytes.Contains(bytes.ToLower(head), []byte("permessage-deflate")) {
							stats.Class("ws-deflate-negotiated")
						}
						wasAttached := !exclusive && sev.WaitAttached(a0+1, 2*time.Second)
						n := 4*L + 4096 + int(sc.Arg)
						var zb bytes.Buffer
						fw, _ := flate.NewWriter(&zb, flate.BestCompression)
						_, _ = fw.Write(make([]byte, n))
						_ = fw.Flush()
						comp := zb.Bytes()
						comp = comp[:len(comp)-4] // RFC 7692: without the trailing 00 00 ff ff
						_, _ = c.Write(rawFrameHead(0xc2, uint64(len(comp)), true, false))
						_, _ = c.Write(comp)
						if !droppedWithin(c, 3*time.Second) {
							fail("offender-not-dropped:deflate-bomb", "a client sent a %d-byte compressed frame that inflates to %d bytes (limit %d) and is still connected 3s later", len(comp), n, L)
							return
						}
						if wasAttached {
							sev.WaitDetached(d0+1, time.Second)
						}
					default:
						wc, _, err := wire.WSDial(c, host, "/sp", []string{selfSub})
						if err != nil {
							if exclusive {
								break // the single slot is taken: refusing is fine
							}
							fail("upgrade-refused", "a well-formed upgrade request was refused: %v", err)
							return
						}
						_ = wc
						wasAttached := !exclusive && sev.WaitAttached(a0+1, 2*time.Second)
						if sc.Kind == "silent-upgraded" {
							break
						}
						mustDrop := wsAttack(c, true, sc.Kind, sc.Arg, L, mals[i])
						if mustDrop {
							if !droppedWithin(c, 3*time.Second) {
								fail("offender-not-dropped:"+sc.Kind, "a client that announced a %s message is still connected 3s later", sc.Kind)
								return
							}
							if wasAttached {
								sev.WaitDetached(d0+1, time.Second)
							}
						} else if balancer && wasAttached {
							n0 := sev.Detached()
							_ = c.Close()
							sev.WaitDetached(n0+1, 3*time.Second)
						}
					}
				} else {
					// the socket under test dials a scripted server
					ln, err := net.Listen("tcp", "127.0.0.1:0")
					if err != nil {
						t.Fatalf("harness: %v", err)
					}
					type res struct {
						mustDrop, dropped, upgraded bool
					}
					done := make(chan res, 1)
					go func() {
						var r res
						defer func() { done <- r }()
						c, err := ln.Accept()
						_ = ln.Close() // later redials are refused at TCP level
						if err != nil {
							return
						}
						defer c.Close()
						_ = c.SetDeadline(time.Now().Add(4 * time.Second))
						if tr == "wss" {
							if sc.Kind == "silent-tcp" && sc.Arg%2 == 0 {
								time.Sleep(300 * time.Millisecond)
								return
							}
							tc := tls.Server(c, fixture.TLSServer())
							if err := tc.Handshake(); err != nil {
								return
							}
							c = tc
						}
						switch sc.Kind {
						case "silent-tcp":
							time.Sleep(300 * time.Millisecond)
							return
						case "garbage-http":
							_, _ = c.Write([]byte("HTTP/1.1 101 Switching\r\nUpgrade: websocket\r\n\r\n\x00\x01\x02"))
							return
						}
						_, _, err = wire.WSAccept(c, func(offered []string) (string, bool) {
							switch sc.Kind {
							case "wrong-subprotocol":
								return "x" + S.Info().PeerName + ".sp.nanomsg.org", true
							case "no-subprotocol":
								return "", true
							}
							if len(offered) > 0 {
								return offered[0], true
							}
							return "", true
						})
						if err != nil {
							return
						}
						r.upgraded = true
						if sc.Kind == "silent-upgraded" || sc.Kind == "wrong-subprotocol" || sc.Kind == "no-subprotocol" {
							time.Sleep(200 * time.Millisecond)
							return
						}
						time.Sleep(20 * time.Millisecond)
						r.mustDrop = wsAttack(c, false, sc.Kind, sc.Arg, L, mals[i])
						if r.mustDrop {
							r.dropped = droppedWithin(c, 3*time.Second)
						} else {
							time.Sleep(50 * time.Millisecond)
						}
					}()
					hopts := fixture.DialOpts(tr)
					if hopts == nil {
						hopts = map[string]interface{}{}
					}
					hopts[mangos.OptionDialAsynch] = true
					hopts[mangos.OptionReconnectTime] = 50 * time.Millisecond
					hopts[mangos.OptionMaxReconnectTime] = 50 * time.Millisecond
					hd, err := S.NewDialer(fmt.Sprintf("%s://%s/sp", tr, ln.Addr().String()), hopts)
					if err == nil {
						err = hd.Dial()
					}
					if err != nil {
						_ = ln.Close()
						t.Fatalf("harness: dialing the scripted server: %v", err)
					}
					var r res
					select {
					case r = <-done:
					case <-time.After(8 * time.Second):
						_ = ln.Close()
						t.Fatalf("harness: scripted server did not finish")
					}
					closed := fixture.Within(3*time.Second, func() { _ = hd.Close() })
					if !closed {
						fail("dialer-close-hangs", "closing the dialer that met a hostile server (%s) does not return", sc.Kind)
						return
					}
					if r.mustDrop && !r.dropped {
						fail("offender-not-dropped:"+sc.Kind, "the dialer kept the connection to a server that announced a %s message", sc.Kind)
						return
					}
					// every pipe but the control peer's must be gone before the exchange (work-distributing patterns)
					sev.WaitLive(1, 3*time.Second)
				}
				if !cx.run(stage) {
					return
				}
			}
			time.Sleep(10 * time.Millisecond)
			if !cx.run("after the attack") {
				return
			}
			if pev.Detached() > 0 {
				fail("control-detached", "the control peer's connection was dropped during the attack")
				return
			}
			stats.Eval()
			stats.Class("ws-role:" + role)
			stats.Class("ctor:" + p.Name)
			for _, sc := range scripts {
				stats.Class("ws-script:" + sc.Kind)
			}
			stats.NonTrivial(fmt.Sprintf("W|%s|%s|%s|%d|%+v", p.Name, tr, role, L, scripts))
			stats.Sample(doc)
		})
	})
}
