// C16 — a hostile or broken peer cannot crash, stall or pollute a socket.
//
// (A) byte strings played by a scripted net.Conn into the public stream-pipe API
//
//	(transport.NewConnPipe / NewConnPipeIPC + NewConnHandshaker): the pipe must
//	return exactly the messages an independent parser derives from the well-formed,
//	in-limit frames, then an error; an announced length above the limit (or negative)
//	must fail without a further read and without allocating the announced amount;
//	total size == limit is delivered.  (Also a native fuzz target.)
//
// (B) real tcp/ipc/ws listeners of every constructor with one well-behaved control
//
//	peer and 1-4 hostile raw peers (garbage or truncated handshakes, silence, and -
//	after a valid handshake - oversize, negative, truncated frames and bodies that
//	are malformed for the pattern): the application receives only what the control
//	peer sent, the control exchange keeps working during and after, silent peers
//	do not delay the control peer's connect, only the offender is detached.
//
// (C) every constructor's receive path over the virtual transport: generated short
//
//	bodies (0-12 bytes) and structured garbage; nothing is delivered beyond what the
//	per-pattern parse model allows, the process survives, a control message passes.
package c16

import (
	"bytes"
	"crypto/tls"
	"encoding/binary"
	"errors"
	"fmt"
	"io"
	"net"
	"os"
	"runtime"
	"strings"
	"sync"
	"testing"
	"time"

	"go.nanomsg.org/mangos/v3"
	"go.nanomsg.org/mangos/v3/transport"
	"go.nanomsg.org/mangos/v3/verifharness/fixture"
	"go.nanomsg.org/mangos/v3/verifharness/stats"
	"go.nanomsg.org/mangos/v3/verifharness/vt"
	"go.nanomsg.org/mangos/v3/verifharness/wire"
	"pgregory.net/rapid"
)

func TestMain(m *testing.M) {
	stats.Init("C16")
	stats.Rule("(A) streams = handshake (valid | one of 8 deviations | truncated) + 0-6 frames each valid (len 0..L, L drawn from {1,7,8,64,1000,1MiB} or 0 = unlimited, where only negative lengths are hostile) or hostile (announced length L+1, 2L, 2^26..2^62, negative; truncated prefix/body; IPC prefix byte), tcp and ipc framing; (B) constructor x {tcp,ipc,ws} x 1-4 hostile raw peers with drawn scripts next to a control peer; (C) 24 constructors x 1-30 generated bodies of 0-12 bytes plus structured garbage over vt. Also: limit 0 (only negative lengths hostile); limit changed on socket or listener after Listen; chunked reads; tls+tcp hostile peers. Non-trivial: the input is not a valid handshake+frame sequence; distinct by (layer, defect classes, length classes). Round 5: (D) hostile WebSocket clients against ws/wss listeners and a scripted hostile ws/wss server against dialers: 19 scripts incl. over-limit announcements (one frame / fragments / top-bit length), RFC 6455 violations, control frames, permessage-deflate bomb")
	stats.Assume("with MaxRecvSize=0 (documented: no limit, trusted peers only) huge positive lengths are not sent (honouring them is the documented behaviour), negative ones are; the IPC prefix byte value of incoming frames is not asserted")
	rc := m.Run()
	stats.Flush()
	fixture.Cleanup()
	os.Exit(rc)
}

// ---------------------------------------------------------------------------
// (A) scripted conn

type scriptConn struct {
	mu     sync.Mutex
	data   []byte
	off    int
	reads  int
	closed bool
	wrote  bytes.Buffer
	chunk  int // > 0: a Read returns at most this many bytes (a stream may arrive in any pieces)
}

func (c *scriptConn) Read(b []byte) (int, error) {
	c.mu.Lock()
	defer c.mu.Unlock()
	c.reads++
	if c.closed {
		return 0, io.ErrClosedPipe
	}
	if c.off >= len(c.data) {
		return 0, io.EOF
	}
	if c.chunk > 0 && len(b) > c.chunk {
		b = b[:c.chunk]
	}
	n := copy(b, c.data[c.off:])
	c.off += n
	return n, nil
}
func (c *scriptConn) Write(b []byte) (int, error) {
	c.mu.Lock()
	defer c.mu.Unlock()
	if c.closed {
		return 0, io.ErrClosedPipe
	}
	c.wrote.Write(b)
	return len(b), nil
}
func (c *scriptConn) Close() error                     { c.mu.Lock(); c.closed = true; c.mu.Unlock(); return nil }
func (c *scriptConn) LocalAddr() net.Addr              { return &net.TCPAddr{IP: net.IPv4(127, 0, 0, 1), Port: 1} }
func (c *scriptConn) RemoteAddr() net.Addr             { return &net.TCPAddr{IP: net.IPv4(127, 0, 0, 1), Port: 2} }
func (c *scriptConn) SetDeadline(time.Time) error      { return nil }
func (c *scriptConn) SetReadDeadline(time.Time) error  { return nil }
func (c *scriptConn) SetWriteDeadline(time.Time) error { return nil }
func (c *scriptConn) offset() int                      { c.mu.Lock(); defer c.mu.Unlock(); return c.off }

type frameSpec struct {
	Kind    string `json:"kind"` // ok | oversize | negative | trunc-prefix | trunc-body | at-limit
	Len     int64  `json:"len"`
	Have    int    `json:"have"` // bytes of body actually present
	IPCByte byte   `json:"ipc_byte"`
}

type streamCase struct {
	Test   string      `json:"test"`
	IPC    bool        `json:"ipc"`
	L      int         `json:"limit"`
	HS     string      `json:"handshake"`
	HSPos  int         `json:"hs_pos"`
	HSVal  byte        `json:"hs_val"`
	Frames []frameSpec `json:"frames"`
	Key    uint64      `json:"key"`
	Chunk  int         `json:"read_chunk"`
}

const selfProto, peerProto = mangos.ProtoPair, mangos.ProtoPair

// build renders the stream and the model's expectation.
func (sc *streamCase) build() (stream []byte, hsOK bool, want [][]byte, failAt int, failNoRead bool) {
	hdr := wire.Header(peerProto)
	h := hdr[:]
	hsOK = true
	switch sc.HS {
	case "deviate":
		h = append([]byte{}, h...)
		if h[sc.HSPos] == sc.HSVal {
			sc.HSVal ^= 0x5a
		}
		h[sc.HSPos] = sc.HSVal
		hsOK = false
	case "truncated":
		h = h[:sc.HSPos%8]
		hsOK = false
	case "otherproto":
		o := wire.Header(mangos.ProtoReq)
		h = o[:]
		hsOK = false
	}
	stream = append(stream, h...)
	failAt = -1
	if !hsOK {
		return
	}
	for i, f := range sc.Frames {
		if sc.IPC {
			stream = append(stream, f.IPCByte)
		}
		var p [8]byte
		binary.BigEndian.PutUint64(p[:], uint64(f.Len))
		switch f.Kind {
		case "trunc-prefix":
			stream = append(stream, p[:f.Have%8]...)
			failAt = i
			return
		}
		stream = append(stream, p[:]...)
		switch f.Kind {
		case "ok", "at-limit":
			body := fixture.Payload(sc.Key+uint64(i), int(f.Len))
			stream = append(stream, body...)
			want = append(want, body)
		case "oversize", "negative":
			// some following bytes exist; they must not be read
			stream = append(stream, fixture.Payload(sc.Key+99, 32)...)
			failAt = i
			failNoRead = true
			return
		case "trunc-body":
			stream = append(stream, fixture.Payload(sc.Key+uint64(i), f.Have)...)
			failAt = i
			return
		}
	}
	return
}

func genStream(t *rapid.T) *streamCase {
	sc := &streamCase{Test: "TestC16Stream"}
	sc.IPC = rapid.Bool().Draw(t, "ipc")
	sc.L = rapid.SampledFrom([]int{1, 7, 8, 64, 1000, 1 << 20, 0}).Draw(t, "L") // 0: no limit; only negative lengths are hostile then
	sc.Key = rapid.Uint64().Draw(t, "key")
	sc.Chunk = rapid.SampledFrom([]int{0, 0, 1, 2, 3, 5, 7, 8, 9, 64}).Draw(t, "readChunk")
	sc.HS = rapid.SampledFrom([]string{"ok", "ok", "ok", "ok", "deviate", "truncated", "otherproto"}).Draw(t, "hs")
	sc.HSPos = rapid.IntRange(0, 7).Draw(t, "hspos")
	sc.HSVal = rapid.Byte().Draw(t, "hsval")
	n := rapid.IntRange(0, 6).Draw(t, "nframes")
	for i := 0; i < n; i++ {
		f := frameSpec{IPCByte: 1}
		f.Kind = rapid.SampledFrom([]string{"ok", "ok", "ok", "at-limit", "oversize", "negative", "trunc-prefix", "trunc-body"}).Draw(t, "kind")
		if sc.L == 0 && (f.Kind == "at-limit" || f.Kind == "oversize") {
			f.Kind = "ok" // without a limit every non-negative length is acceptable (and a huge one is the application's risk)
		}
		switch f.Kind {
		case "ok":
			max := sc.L
			if max > 5000 || max == 0 {
				max = 5000
			}
			f.Len = int64(rapid.IntRange(0, max).Draw(t, "len"))
		case "at-limit":
			f.Len = int64(sc.L)
		case "oversize":
			f.Len = rapid.SampledFrom([]int64{int64(sc.L) + 1, int64(sc.L) + 2, 2 * int64(sc.L), 1<<20 + 1, 1 << 26, 1 << 31, 1 << 40, 1<<62 - 1, 1<<63 - 1}).Draw(t, "olen")
			if f.Len <= int64(sc.L) {
				f.Len = int64(sc.L) + 1
			}
		case "negative":
			f.Len = rapid.SampledFrom([]int64{-1, -2, -1 << 31, -1 << 63}).Draw(t, "nlen")
		case "trunc-prefix":
			f.Have = rapid.IntRange(0, 7).Draw(t, "have")
			f.Len = 5
		case "trunc-body":
			f.Len = int64(rapid.IntRange(1, 64).Draw(t, "tlen"))
			if sc.L > 0 && f.Len > int64(sc.L) {
				f.Len = int64(sc.L)
			}
			f.Have = rapid.IntRange(0, int(f.Len)-1).Draw(t, "thave")
		}
		sc.Frames = append(sc.Frames, f)
	}
	return sc
}

// runStream plays the stream and compares; returns (key, message) of a violation or "".
func runStream(sc *streamCase) (string, string) {
	stream, hsOK, want, failAt, failNoRead := sc.build()
	conn := &scriptConn{data: stream, chunk: sc.Chunk}
	info := transport.ProtocolInfo{Self: selfProto, Peer: peerProto, SelfName: "pair", PeerName: "pair"}
	var p transport.ConnPipe
	if sc.IPC {
		p = transport.NewConnPipeIPC(conn, info)
	} else {
		p = transport.NewConnPipe(conn, info)
	}
	p.SetOption(mangos.OptionMaxRecvSize, sc.L)
	hs := transport.NewConnHandshaker()
	defer hs.Close()
	hs.Start(p)
	type hres struct {
		p   transport.Pipe
		err error
	}
	ch := make(chan hres, 1)
	go func() { pp, err := hs.Wait(); ch <- hres{pp, err} }()
	var r hres
	select {
	case r = <-ch:
	case <-time.After(3 * time.Second):
		return "handshake-hang", "handshake over a finite byte stream did not finish within 3s"
	}
	sent := wire.Header(selfProto)
	conn.mu.Lock()
	w := append([]byte(nil), conn.wrote.Bytes()...)
	conn.mu.Unlock()
	if len(w) < 8 || !bytes.Equal(w[:8], sent[:]) {
		return "handshake-bytes", fmt.Sprintf("pipe wrote %x, want its own header %x first", w, sent)
	}
	if !hsOK {
		if r.err == nil {
			return "accepted-bad-handshake", fmt.Sprintf("handshake %q (%x) was accepted", sc.HS, stream)
		}
		return "", ""
	}
	if r.err != nil {
		return "rejected-good-handshake", fmt.Sprintf("well-formed handshake rejected: %v", r.err)
	}
	pipe := r.p
	defer pipe.Close()
	// offsets of frame starts, to check "no further read"
	for i := 0; ; i++ {
		var ms runtime.MemStats
		hostileBig := failAt == i && failNoRead && (sc.Frames[i].Len >= 1<<26 || sc.Frames[i].Len < 0)
		if hostileBig {
			runtime.ReadMemStats(&ms)
		}
		before := conn.offset()
		var m *mangos.Message
		var err error
		done := make(chan struct{})
		go func() { m, err = pipe.Recv(); close(done) }()
		select {
		case <-done:
		case <-time.After(3 * time.Second):
			return "recv-hang", fmt.Sprintf("Recv %d over a finite byte stream did not return within 3s", i)
		}
		if i < len(want) {
			if err != nil {
				return "valid-frame-rejected", fmt.Sprintf("frame %d (well-formed, %d bytes, limit %d) was not delivered: %v", i, len(want[i]), sc.L, err)
			}
			got := append(append([]byte{}, m.Header...), m.Body...)
			m.Free()
			if !bytes.Equal(got, want[i]) {
				return "frame-altered", fmt.Sprintf("frame %d delivered %d bytes, want %d bytes (content differs)", i, len(got), len(want[i]))
			}
			continue
		}
		// past the valid prefix: must be an error
		if err == nil {
			got := len(m.Body)
			m.Free()
			if failAt >= 0 {
				return "delivered-from-malformed:" + sc.Frames[failAt].Kind, fmt.Sprintf("Recv %d returned a %d-byte message from a %s frame (announced %d, limit %d)", i, got, sc.Frames[failAt].Kind, sc.Frames[failAt].Len, sc.L)
			}
			return "delivered-after-eof", fmt.Sprintf("Recv %d returned a %d-byte message after the stream had ended", i, got)
		}
		if failAt == i && failNoRead {
			prefix := 8
			if sc.IPC {
				prefix = 9
			}
			if conn.offset() != before+prefix {
				return "read-beyond-announced-length", fmt.Sprintf("after a %s length %d (limit %d) the pipe consumed %d bytes beyond the length prefix instead of failing at once", sc.Frames[i].Kind, sc.Frames[i].Len, sc.L, conn.offset()-before-prefix)
			}
			if hostileBig {
				var ms2 runtime.MemStats
				runtime.ReadMemStats(&ms2)
				if d := ms2.TotalAlloc - ms.TotalAlloc; d > 32<<20 {
					return "allocated-announced-amount", fmt.Sprintf("handling an announced length of %d allocated %d bytes", sc.Frames[i].Len, d)
				}
			}
		}
		break
	}
	return "", ""
}

func TestC16Stream(t *testing.T) {
	rapid.Check(t, func(t *rapid.T) {
		sc := genStream(t)
		key, msg := runStream(sc)
		if key != "" {
			stats.Fail(t, "C16:stream-"+key, sc, "ipc=%v limit=%d handshake=%s frames=%+v: %s", sc.IPC, sc.L, sc.HS, sc.Frames, msg)
		}
		stats.Eval()
		hostile := sc.HS != "ok"
		canon := fmt.Sprintf("A|%v|%d|%s|%d|", sc.IPC, sc.L, sc.HS, sc.Chunk)
		if sc.Chunk > 0 && sc.Chunk < 8 {
			stats.Class("prefix_split_over_reads")
		}
		for _, f := range sc.Frames {
			if f.Kind != "ok" {
				hostile = true
			}
			stats.Class("frame:" + f.Kind)
			canon += f.Kind[:2] + fmt.Sprint(classOf(f.Len)) + ","
		}
		stats.Class("handshake:" + sc.HS)
		if hostile {
			stats.NonTrivial(canon)
		}
		stats.Sample(sc)
	})
}

func classOf(n int64) int {
	switch {
	case n < 0:
		return -1
	case n == 0:
		return 0
	case n < 64:
		return 1
	case n < 4096:
		return 2
	case n <= 1<<20:
		return 3
	}
	return 4
}

// FuzzStream: arbitrary bytes as the peer's stream; the model is the independent parser.
func FuzzStream(f *testing.F) {
	hdr := wire.Header(peerProto)
	valid := append([]byte{}, hdr[:]...)
	var fr bytes.Buffer
	_ = wire.WriteFrame(&fr, []byte("hello"), false)
	f.Add(append(append([]byte{}, valid...), fr.Bytes()...), false, uint8(3))
	f.Add(append(append([]byte{}, valid...), 0xff, 0xff, 0xff, 0xff, 0xff, 0xff, 0xff, 0xff), false, uint8(2))
	f.Add(append(append([]byte{}, valid...), 0x7f, 0xff, 0xff, 0xff, 0xff, 0xff, 0xff, 0xff, 1, 2, 3), false, uint8(4))
	f.Add(append(append([]byte{}, valid...), 1, 0, 0, 0, 0, 0, 0, 0, 3, 'a', 'b', 'c'), true, uint8(1))
	f.Add(valid[:5], false, uint8(0))
	f.Add([]byte("\x00SP\x00\x00\x10\x00\x000\x00\x00\x00\x00\x00\x00\x00\x03000"), true, uint8(1)) // IPC prefix byte != 1
	f.Add([]byte{0, 'S', 'P', 1, 0, 0x10, 0, 0}, false, uint8(0))
	f.Add(append(append([]byte{}, valid...), 0, 0, 0, 0, 0, 0x10, 0, 1), false, uint8(5))
	f.Fuzz(func(t *testing.T, data []byte, ipc bool, lsel uint8) {
		L := []int{1, 7, 8, 64, 1000, 1 << 20}[int(lsel)%6]
		conn := &scriptConn{data: data, chunk: int(lsel>>4) % 10}
		info := transport.ProtocolInfo{Self: selfProto, Peer: peerProto}
		var p transport.ConnPipe
		if ipc {
			p = transport.NewConnPipeIPC(conn, info)
		} else {
			p = transport.NewConnPipe(conn, info)
		}
		p.SetOption(mangos.OptionMaxRecvSize, L)
		hs := transport.NewConnHandshaker()
		defer hs.Close()
		hs.Start(p)
		pp, err := hs.Wait()
		_, hok := wire.ParseHeader(data[:min(8, len(data))])
		proto, _ := wire.ParseHeader(data[:min(8, len(data))])
		hok = hok && len(data) >= 8 && proto == peerProto
		if (err == nil) != hok {
			t.Fatalf("handshake accepted=%v, independent parser says %v (%x)", err == nil, hok, data[:min(8, len(data))])
		}
		if err != nil {
			return
		}
		defer pp.Close()
		r := bytes.NewReader(data[8:])
		for i := 0; i < 64; i++ {
			want, werr := wire.ReadFrame(r, ipc, L)
			m, err := pp.Recv()
			if werr != nil {
				if err == nil {
					// the IPC prefix byte value is not asserted (assumption): re-parse leniently
					if ipc && errors.Is(werr, wire.ErrBadPrefix) {
						m.Free()
						return
					}
					t.Fatalf("frame %d: pipe delivered %d bytes, independent parser says %v", i, len(m.Body), werr)
				}
				return
			}
			if err != nil {
				t.Fatalf("frame %d: pipe failed with %v, independent parser delivers %d bytes (limit %d)", i, err, len(want), L)
			}
			if !bytes.Equal(m.Body, want) {
				t.Fatalf("frame %d: content differs", i)
			}
			m.Free()
		}
	})
}

// ---------------------------------------------------------------------------
// (C) per-pattern parse model over vt

// parseModel says whether a wire body is delivered to the application of a socket built by ctor,
// and with which application-visible body.
func parseModel(ctor string, b []byte) (bool, []byte) {
	switch ctor {
	case "pair", "xpair", "pull", "xpull", "xsub", "bus", "xbus", "sub":
		return true, b
	case "pair1", "xpair1":
		if len(b) < 4 || b[0] != 0 || b[1] != 0 || b[2] != 0 || int(b[3]) > 8 || b[3] == 255 {
			return false, nil
		}
		return true, b[4:]
	case "star", "xstar":
		if len(b) < 4 || b[0] != 0 || b[1] != 0 || b[2] != 0 || int(b[3]) >= 8 {
			return false, nil
		}
		return true, b[4:]
	case "rep", "xrep", "respondent", "xrespondent":
		rest := b
		for hops := 1; ; hops++ {
			if hops > 8 || len(rest) < 4 {
				return false, nil
			}
			w := rest[:4]
			rest = rest[4:]
			if w[0]&0x80 != 0 {
				return true, rest
			}
		}
	case "xreq", "xsurveyor":
		if len(b) < 4 {
			return false, nil
		}
		return true, b[4:]
	}
	// req, surveyor without an outstanding request/survey; pub, xpub, push, xpush: nothing is delivered
	return false, nil
}

func TestC16ProtocolBodies(t *testing.T) {
	rapid.Check(t, func(t *rapid.T) {
		p := fixture.Protos[rapid.IntRange(0, len(fixture.Protos)-1).Draw(t, "ctor")]
		n := rapid.IntRange(1, 30).Draw(t, "n")
		bodies := make([][]byte, n)
		for i := range bodies {
			switch rapid.IntRange(0, 3).Draw(t, "shape") {
			case 0:
				bodies[i] = rapid.SliceOfN(rapid.Byte(), 0, 12).Draw(t, "raw")
			case 1: // routing-word shaped
				k := rapid.IntRange(0, 10).Draw(t, "words")
				for w := 0; w < k; w++ {
					x := rapid.Uint32().Draw(t, "w")
					if rapid.IntRange(0, 3).Draw(t, "top") == 0 {
						x |= 0x80000000
					} else {
						x &= 0x7fffffff
					}
					bodies[i] = append(bodies[i], byte(x>>24), byte(x>>16), byte(x>>8), byte(x))
				}
				bodies[i] = append(bodies[i], rapid.SliceOfN(rapid.Byte(), 0, 3).Draw(t, "tail")...)
			case 2: // hop-count shaped
				bodies[i] = []byte{0, 0, 0, rapid.Byte().Draw(t, "hops")}
				if rapid.IntRange(0, 2).Draw(t, "dirty") == 0 {
					dv := rapid.SampledFrom([]byte{1, 2, 0x7f, 0x80, 0xff}).Draw(t, "dvb")
					if rapid.Bool().Draw(t, "dvr") {
						dv = rapid.Byte().Draw(t, "dv")
					}
					bodies[i][rapid.IntRange(0, 2).Draw(t, "pos")] = dv
				}
				bodies[i] = append(bodies[i], rapid.SliceOfN(rapid.Byte(), 0, 5).Draw(t, "tail2")...)
			case 3:
				bodies[i] = make([]byte, rapid.IntRange(0, 3).Draw(t, "short"))
			}
		}
		doc := map[string]interface{}{"test": "TestC16ProtocolBodies", "ctor": p.Name, "bodies": fmt.Sprintf("%x", bodies), "rseed": os.Getenv("VERIF_RSEED")}
		fail := func(k, f string, a ...interface{}) {
			stats.Fail(t, "C16:body-"+k+":"+p.Name, doc, "%s: %s", p.Name, fmt.Sprintf(f, a...))
		}
		S := fixture.New(p.Name)
		defer S.Close()
		if p.Name == "sub" {
			_ = S.SetOption(mangos.OptionSubscribe, "")
		}
		ev := fixture.Hook(S)
		ep, err := vt.Attach(S)
		if err != nil {
			t.Fatalf("harness: %v", err)
		}
		defer ep.Forget()
		hp := ep.Connect()
		if !ev.WaitAttached(1, 5*time.Second) {
			t.Fatalf("harness: attach")
		}
		// expected deliveries, in order
		var expect [][]byte
		for _, b := range bodies {
			if ok, app := parseModel(p.Name, b); ok && p.CanRecv {
				expect = append(expect, app)
			}
		}
		fed := make(chan bool, 1)
		go func() {
			for _, b := range bodies {
				if hp.Handoff(b, 5*time.Second) == vt.InjNotTaken {
					fed <- false
					return
				}
			}
			fed <- true
		}()
		if p.CanRecv {
			_ = S.SetOption(mangos.OptionRecvDeadline, 3*time.Second)
			for i, want := range expect {
				got, err := S.Recv()
				if err != nil {
					fail("well-formed-lost", "delivery %d of %d expected by the parse model did not arrive: %v", i, len(expect), err)
					return
				}
				if !bytes.Equal(got, want) {
					fail("polluted", "application received %x; the parse model expects %x next (bodies %x)", got, want, bodies)
					return
				}
				if p.Name == "rep" || p.Name == "respondent" {
					_ = S.Send([]byte("r"))
				}
			}
		}
		select {
		case ok := <-fed:
			if !ok {
				fail("receiver-dead", "the pipe's receiver stopped reading while the %d bodies were fed (pipe closed=%v)", n, hp.IsClosed())
				return
			}
		case <-time.After(10 * time.Second):
			fail("receiver-dead", "the pipe's receiver did not consume the %d bodies within 10s", n)
			return
		}
		// control: a well-formed message still passes and nothing else is queued before it
		var ctl, ctlApp []byte
		switch p.Name {
		case "pair1", "xpair1", "star", "xstar":
			ctl = append([]byte{0, 0, 0, 0}, "control"...)
		case "rep", "xrep", "respondent", "xrespondent", "xreq", "xsurveyor":
			ctl = append([]byte{0x80, 0, 0, 9}, "control"...)
		default:
			ctl = []byte("control")
		}
		_, ctlApp = parseModel(p.Name, ctl)
		if p.CanRecv && p.Name != "req" && p.Name != "surveyor" {
			if hp.Handoff(ctl, 5*time.Second) == vt.InjNotTaken {
				fail("receiver-dead", "after %d hostile bodies the pipe's receiver no longer reads (pipe closed=%v)", n, hp.IsClosed())
				return
			}
			got, err := S.Recv()
			if err != nil || !bytes.Equal(got, ctlApp) {
				fail("control-lost", "after the hostile bodies the control message came out as (%x,%v), want %x", got, err, ctlApp)
				return
			}
		} else {
			// sockets that deliver nothing: the receiver must still be consuming
			if hp.Handoff(ctl, 5*time.Second) == vt.InjNotTaken {
				fail("receiver-dead", "after %d hostile bodies the pipe's receiver no longer reads (pipe closed=%v)", n, hp.IsClosed())
				return
			}
			if p.CanRecv {
				_ = S.SetOption(mangos.OptionRecvDeadline, 20*time.Millisecond)
				if got, err := S.Recv(); err == nil {
					fail("polluted", "%s without an outstanding request delivered %x", p.Name, got)
				}
			}
		}
		stats.Eval()
		stats.Class("ctor:" + p.Name)
		stats.NonTrivial(fmt.Sprintf("C|%s|%x", p.Name, bodies))
		stats.Sample(doc)
	})
}

// ---------------------------------------------------------------------------
// (B) real listeners with hostile raw peers next to a control peer

type hostileScript struct {
	Kind string `json:"kind"`
	Arg  int64  `json:"arg"`
}

// dialRaw opens a raw connection to a listener; for tls+tcp either below TLS (plain=true: the
// peer has not even started its TLS handshake) or as a TLS client that has completed it.
func dialRaw(addr string, plain bool) (net.Conn, error) {
	switch {
	case strings.HasPrefix(addr, "tls+tcp://"):
		hp := strings.TrimPrefix(addr, "tls+tcp://")
		c, err := net.DialTimeout("tcp", hp, 3*time.Second)
		if err != nil || plain {
			return c, err
		}
		tc := tls.Client(c, fixture.TLSClient())
		_ = tc.SetDeadline(time.Now().Add(3 * time.Second))
		if err := tc.Handshake(); err != nil {
			_ = c.Close()
			return nil, err
		}
		_ = tc.SetDeadline(time.Time{})
		return tc, nil
	case strings.HasPrefix(addr, "tcp://"):
		return net.DialTimeout("tcp", strings.TrimPrefix(addr, "tcp://"), 3*time.Second)
	case strings.HasPrefix(addr, "ipc://"):
		return net.DialTimeout("unix", strings.TrimPrefix(addr, "ipc://"), 3*time.Second)
	}
	return nil, fmt.Errorf("no raw dial for %s", addr)
}

// malformedFor returns a body that is malformed for the receiving constructor (nil if every body is valid).
func malformedFor(ctor string, t *rapid.T) []byte {
	switch ctor {
	case "rep", "xrep", "respondent", "xrespondent":
		return rapid.SampledFrom([][]byte{{}, {1, 2, 3}, {0, 0, 0, 1, 0, 0, 0, 2}, bytes.Repeat([]byte{0, 0, 0, 1}, 12)}).Draw(t, "mal")
	case "req", "surveyor":
		return rapid.SampledFrom([][]byte{{}, {1, 2}, {0x80, 1, 2, 3, 'x'}, {0, 0, 0, 1, 'y'}}).Draw(t, "mal")
	case "xreq", "xsurveyor":
		return rapid.SampledFrom([][]byte{{}, {1}, {1, 2, 3}}).Draw(t, "mal")
	case "pair1", "xpair1":
		return rapid.SampledFrom([][]byte{{}, {0, 0}, {1, 0, 0, 0, 'x'}, {0, 0, 0, 200, 'x'}, {0, 0, 0, 255}}).Draw(t, "mal")
	case "star", "xstar":
		return rapid.SampledFrom([][]byte{{}, {0, 0, 0}, {0, 1, 0, 0, 'x'}, {0, 0, 0, 8, 'x'}, {0, 0, 0, 255, 'x'}}).Draw(t, "mal")
	}
	return nil
}

// controlExchange is the well-behaved conversation between the socket under test and its control
// peer: one message (and, on the request/reply patterns, its answer) must arrive exactly.
type controlExchange struct {
	p    fixture.Proto
	S, P mangos.Socket
	seq  int
	fail func(k, f string, a ...interface{})
}

func (x *controlExchange) run(stage string) bool {
	p, S, P, fail := x.p, x.S, x.P, x.fail
	x.seq++
	tag := []byte(fmt.Sprintf("control-%d", x.seq))
	for _, s := range []mangos.Socket{S, P} {
		_ = s.SetOption(mangos.OptionRecvDeadline, 3*time.Second)
		_ = s.SetOption(mangos.OptionSendDeadline, 3*time.Second)
	}
	mkmsg := func(name string, body []byte) *mangos.Message {
		m := mangos.NewMessage(len(body))
		m.Body = append(m.Body, body...)
		switch name {
		case "xreq", "xsurveyor":
			m.Header = append(m.Header, 0x80, 0, 0, byte(x.seq))
		case "xpair1", "xstar":
			m.Header = append(m.Header, 0, 0, 0, 0)
		}
		return m
	}
	recvExact := func(s mangos.Socket, who string, want []byte) (*mangos.Message, bool) {
		m, err := s.RecvMsg()
		if err != nil {
			fail("control-broken", "%s: %s did not receive the control message: %v", stage, who, err)
			return nil, false
		}
		if !bytes.Equal(m.Body, want) {
			fail("polluted", "%s: %s received %x instead of the control message %q: a hostile peer's bytes reached the application", stage, who, m.Body, want)
			return nil, false
		}
		return m, true
	}
	// direction peer -> S when S can receive a first message, else S -> peer
	switch {
	case p.Name == "req" || p.Name == "xreq" || p.Name == "surveyor" || p.Name == "xsurveyor":
		// S asks, P answers
		if err := S.SendMsg(mkmsg(p.Name, tag)); err != nil {
			fail("control-broken", "%s: Send: %v", stage, err)
			return false
		}
		m, ok := recvExact(P, "control peer", tag)
		if !ok {
			return false
		}
		r := mkmsg("", []byte("re:"+string(tag)))
		r.Header = append(r.Header, m.Header...)
		m.Free()
		if err := P.SendMsg(r); err != nil {
			fail("control-broken", "%s: peer reply: %v", stage, err)
			return false
		}
		if m, ok = recvExact(S, "socket under test", []byte("re:"+string(tag))); !ok {
			return false
		}
		m.Free()
	case p.CanRecv:
		if err := P.SendMsg(mkmsg(p.PeerName, tag)); err != nil {
			fail("control-broken", "%s: control peer Send: %v", stage, err)
			return false
		}
		m, ok := recvExact(S, "socket under test", tag)
		if !ok {
			return false
		}
		if p.Name == "rep" || p.Name == "xrep" || p.Name == "respondent" || p.Name == "xrespondent" {
			r := mkmsg("", []byte("re:"+string(tag)))
			r.Header = append(r.Header, m.Header...)
			if err := S.SendMsg(r); err != nil {
				fail("control-broken", "%s: reply: %v", stage, err)
				return false
			}
			m2, ok := recvExact(P, "control peer", []byte("re:"+string(tag)))
			if !ok {
				return false
			}
			m2.Free()
		}
		m.Free()
	default: // pub, push: S sends
		if err := S.SendMsg(mkmsg(p.Name, tag)); err != nil {
			fail("control-broken", "%s: Send: %v", stage, err)
			return false
		}
		m, ok := recvExact(P, "control peer", tag)
		if !ok {
			return false
		}
		m.Free()
	}
	return true
}

func TestC16HostilePeers(t *testing.T) {
	stats.ScaledChecks(3, 5, func() {
		rapid.Check(t, func(t *rapid.T) {
			p := fixture.Protos[rapid.IntRange(0, len(fixture.Protos)-1).Draw(t, "ctor")]
			tr := rapid.SampledFrom([]string{"tcp", "tcp", "ipc", "tls+tcp"}).Draw(t, "transport")
			L := rapid.SampledFrom([]int{64, 1000, 1 << 20, 0}).Draw(t, "L") // 0: unlimited
			nh := rapid.IntRange(1, 4).Draw(t, "hostile")
			scripts := make([]hostileScript, nh)
			for i := range scripts {
				scripts[i].Kind = rapid.SampledFrom([]string{"silent", "garbage-handshake", "truncated-handshake", "oversize", "negative", "truncated-frame", "malformed-body", "huge"}).Draw(t, "script")
				scripts[i].Arg = int64(rapid.IntRange(0, 7).Draw(t, "arg"))
				if L == 0 && (scripts[i].Kind == "oversize" || scripts[i].Kind == "huge") {
					scripts[i].Kind = "negative" // without a limit only a negative length is out of bounds
				}
			}
			doc := map[string]interface{}{"test": "TestC16HostilePeers", "ctor": p.Name, "transport": tr, "limit": L, "scripts": scripts, "rseed": os.Getenv("VERIF_RSEED")}
			fail := func(k, f string, a ...interface{}) {
				stats.Fail(t, "C16:peers-"+k+":"+p.Name, doc, "%s over %s (limit %d, hostile %+v): %s", p.Name, tr, L, scripts, fmt.Sprintf(f, a...))
			}
			S := fixture.New(p.Name)
			defer S.Close()
			// the limit is configured before listening, or changed (on the socket or on the
			// listener) once the listener is up: it governs the connections made afterwards
			limitWhen := rapid.SampledFrom([]string{"before", "before", "after-socket", "after-listener"}).Draw(t, "limitSet")
			doc["limit_set"] = limitWhen
			first := L
			if limitWhen != "before" {
				first = map[bool]int{true: 0, false: 1 << 20}[L != 0 && rapid.Bool().Draw(t, "wasUnlimited")]
			}
			if err := S.SetOption(mangos.OptionMaxRecvSize, first); err != nil {
				t.Fatalf("harness: %v", err)
			}
			if p.Name == "sub" {
				_ = S.SetOption(mangos.OptionSubscribe, "")
			}
			if p.Name == "surveyor" {
				_ = S.SetOption(mangos.OptionSurveyTime, 10*time.Second)
			}
			sev := fixture.Hook(S)
			addr, lst, err := fixture.Listen(S, tr)
			if err != nil {
				t.Fatalf("harness: %v", err)
			}
			switch limitWhen {
			case "after-socket":
				err = S.SetOption(mangos.OptionMaxRecvSize, L)
			case "after-listener":
				err = lst.SetOption(mangos.OptionMaxRecvSize, L)
			}
			if err != nil {
				fail("limit-change-refused", "changing MAX-RCV-SIZE to %d after Listen (%s): %v", L, limitWhen, err)
				return
			}
			if limitWhen != "before" {
				stats.Class("limit_changed_after_listen")
			}
			// hostile peers that stay silent connect first
			var conns []net.Conn
			defer func() {
				for _, c := range conns {
					_ = c.Close()
				}
			}()
			open := func(plain bool) net.Conn {
				c, err := dialRaw(addr, plain)
				if err != nil {
					t.Fatalf("harness: raw dial: %v", err)
				}
				conns = append(conns, c)
				return c
			}
			for _, sc := range scripts {
				if sc.Kind == "silent" {
					// on TLS: silent below TLS (even arg) or silent after the TLS handshake (odd arg)
					open(sc.Arg%2 == 0)
				}
			}
			// control peer: must get in promptly in spite of the silent ones
			P := fixture.New(p.PeerName)
			defer P.Close()
			if p.PeerName == "sub" {
				_ = P.SetOption(mangos.OptionSubscribe, "")
			}
			if p.PeerName == "surveyor" {
				_ = P.SetOption(mangos.OptionSurveyTime, 10*time.Second)
			}
			pev := fixture.Hook(P)
			t0 := time.Now()
			// asynchronous dial: a listener stalled by a silent peer must show up as a delayed
			// attach, not as a harness goroutine stuck in Dial
			copts := fixture.DialOpts(tr)
			if copts == nil {
				copts = map[string]interface{}{}
			}
			copts[mangos.OptionDialAsynch] = true
			copts[mangos.OptionReconnectTime] = 5 * time.Millisecond
			copts[mangos.OptionMaxReconnectTime] = 5 * time.Millisecond
			if err := P.DialOptions(addr, copts); err != nil {
				fail("control-connect", "control peer cannot connect: %v", err)
				return
			}
			if !pev.WaitAttached(1, 3*time.Second) || !sev.WaitAttached(1, 3*time.Second) {
				fail("control-connect-delayed", "control peer not attached %v after dialing (silent peers present)", time.Since(t0))
				return
			}
			cx := &controlExchange{p: p, S: S, P: P, fail: fail}
			exchange := cx.run
			if !exchange("before the attack") {
				return
			}
			detBefore := sev.Detached()
			// hostile peers act
			ipc := tr == "ipc"
			_ = ipc
			myHdr := wire.Header(p.Peer) // what a legitimate peer of S would send
			attached := 0
			for _, sc := range scripts {
				if sc.Kind == "silent" {
					continue
				}
				a0, d0 := sev.Attached(), sev.Detached()
				c := open(false)
				_ = c.SetDeadline(time.Now().Add(3 * time.Second))
				balancer := p.Name == "req" || p.Name == "xreq" || p.Name == "push" || p.Name == "xpush"
				wasAttached := false
				switch sc.Kind {
				case "garbage-handshake":
					h := myHdr
					h[sc.Arg%8] ^= 0xff
					_, _ = c.Write(h[:])
				case "truncated-handshake":
					_, _ = c.Write(myHdr[:sc.Arg%8])
					_ = c.Close()
				default:
					_, _ = c.Write(myHdr[:])
					var theirs [8]byte
					if _, err := io.ReadFull(c, theirs[:]); err != nil {
						continue // refused (e.g. PAIR already has its peer): fine
					}
					attached++
					// (a PAIR-family socket that already has its peer refuses the pipe: nothing to wait for)
					exclusive := p.Name == "pair" || p.Name == "xpair" || p.Name == "pair1" || p.Name == "xpair1"
					wasAttached = !exclusive && sev.WaitAttached(a0+1, time.Second)
					waitGone := func() {
						if wasAttached {
							sev.WaitDetached(d0+1, 3*time.Second)
						}
					}
					var pre []byte
					if ipc {
						pre = []byte{1}
					}
					lenb := func(n int64) []byte {
						var b [8]byte
						binary.BigEndian.PutUint64(b[:], uint64(n))
						return append(append([]byte{}, pre...), b[:]...)
					}
					switch sc.Kind {
					case "oversize":
						_, _ = c.Write(lenb(int64(L) + 1 + sc.Arg))
						_, _ = c.Write(bytes.Repeat([]byte{'A'}, 64))
					case "huge":
						_, _ = c.Write(lenb(int64(1)<<(30+uint(sc.Arg)*4) - 1))
						_, _ = c.Write(bytes.Repeat([]byte{'H'}, 64))
					case "negative":
						_, _ = c.Write(lenb(-1 - sc.Arg))
					case "truncated-frame":
						_, _ = c.Write(lenb(40))
						_, _ = c.Write(bytes.Repeat([]byte{'T'}, int(sc.Arg)))
						_ = c.Close()
						waitGone()
					case "malformed-body":
						b := malformedFor(p.Name, t)
						if b != nil {
							_, _ = c.Write(lenb(int64(len(b))))
							_, _ = c.Write(b)
						}
					}
				}
				switch sc.Kind {
				case "oversize", "huge", "negative":
					// the offender must be dropped at once, without its announced bytes being read
					_ = c.SetReadDeadline(time.Now().Add(3 * time.Second))
					buf := make([]byte, 256)
					dropped := false
					for {
						if _, err := c.Read(buf); err != nil {
							ne, isNet := err.(net.Error)
							dropped = !(isNet && ne.Timeout())
							break
						}
					}
					if !dropped {
						fail("offender-not-dropped:"+sc.Kind, "a peer that announced a %s frame is still connected 3s later", sc.Kind)
						return
					}
					if wasAttached {
						sev.WaitDetached(d0+1, time.Second)
					}
				case "malformed-body":
					if balancer {
						// these distribute work over all attached peers: take the (protocol-wise legitimate)
						// hostile peer away again so that the control exchange is meaningful
						n0 := sev.Detached()
						_ = c.Close()
						sev.WaitDetached(n0+1, 3*time.Second)
					}
				}
				if !exchange("during the attack (" + sc.Kind + ")") {
					return
				}
			}
			time.Sleep(20 * time.Millisecond)
			if !exchange("after the attack") {
				return
			}
			if pev.Detached() > 0 {
				fail("control-detached", "the control peer's connection was dropped during the attack")
				return
			}
			_ = detBefore
			if os.Getenv("VERIF_SLOW") != "" && time.Since(t0) > 400*time.Millisecond {
				fmt.Fprintf(os.Stderr, "SLOW %v %s %s %+v\n", time.Since(t0), p.Name, tr, scripts)
			}
			stats.Eval()
			stats.Class("ctor:" + p.Name)
			for _, sc := range scripts {
				stats.Class("script:" + sc.Kind)
			}
			stats.NonTrivial(fmt.Sprintf("B|%s|%s|%d|%+v", p.Name, tr, L, scripts))
			stats.Sample(doc)
		})
	})
}
