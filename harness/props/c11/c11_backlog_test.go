package c11

import (
	"fmt"
	"os"
	"sync"
	"sync/atomic"
	"testing"
	"time"

	"go.nanomsg.org/mangos/v3"
	"go.nanomsg.org/mangos/v3/verifharness/fixture"
	"go.nanomsg.org/mangos/v3/verifharness/stats"
	"pgregory.net/rapid"
)

// TestC11ReqBacklog: 4-16 REQ contexts share one or two connections to a REP socket whose 1-3
// worker contexts take longer to answer than the retry time, so re-transmissions queue up behind
// busy connections while replies arrive and contexts go on to their next request.  Every goroutine
// uses its own context (the sequential contract per context is C03's): each Recv must return the
// reply to the request that context sent last — never another context's, never an earlier one's —
// nothing may panic or dead-lock, and the race detector watches the library.
func TestC11ReqBacklog(t *testing.T) {
	stats.ScaledChecks(40, 3, func() {
		rapid.Check(t, func(t *rapid.T) {
			nctx := rapid.IntRange(4, 16).Draw(t, "contexts")
			nconn := rapid.IntRange(1, 2).Draw(t, "connections")
			workers := rapid.IntRange(1, 3).Draw(t, "workers")
			retryMs := rapid.IntRange(1, 3).Draw(t, "retryMs")
			serviceMs := rapid.IntRange(1, 4).Draw(t, "serviceMs")
			thinkUs := rapid.SampledFrom([]int{0, 200, 1500}).Draw(t, "thinkUs")
			tr := rapid.SampledFrom([]string{"inproc", "inproc", "tcp", "ipc"}).Draw(t, "transport")
			runMs := rapid.IntRange(150, 400).Draw(t, "runMs")
			doc := map[string]interface{}{"test": "TestC11ReqBacklog", "contexts": nctx, "connections": nconn, "workers": workers, "retry_ms": retryMs, "service_ms": serviceMs, "think_us": thinkUs, "transport": tr, "run_ms": runMs, "rseed": os.Getenv("VERIF_RSEED")}
			var failed int32
			fail := func(k, f string, a ...interface{}) {
				if atomic.CompareAndSwapInt32(&failed, 0, 1) {
					stats.Fail(t, "C11:req-backlog-"+k, doc, "%d REQ contexts over %d %s connection(s), retry %dms, %d REP workers taking %dms: %s", nctx, nconn, tr, retryMs, workers, serviceMs, fmt.Sprintf(f, a...))
				}
			}
			Q, R := fixture.New("req"), fixture.New("rep")
			_ = Q.SetOption(mangos.OptionRetryTime, time.Duration(retryMs)*time.Millisecond)
			for i := 0; i < nconn; i++ {
				if _, err := fixture.Connect(R, Q, tr); err != nil {
					_ = Q.Close()
					_ = R.Close()
					t.Skip("port busy")
				}
			}
			stop := make(chan struct{})
			var wg sync.WaitGroup
			for w := 0; w < workers; w++ {
				c, err := R.OpenContext()
				if err != nil {
					t.Fatalf("harness: %v", err)
				}
				_ = c.SetOption(mangos.OptionRecvDeadline, 50*time.Millisecond)
				_ = c.SetOption(mangos.OptionSendDeadline, time.Second)
				wg.Add(1)
				go func() {
					defer wg.Done()
					for {
						select {
						case <-stop:
							return
						default:
						}
						b, err := c.Recv()
						if err != nil {
							if err == mangos.ErrClosed {
								return
							}
							continue
						}
						time.Sleep(time.Duration(serviceMs) * time.Millisecond)
						_ = c.Send(append([]byte("re:"), b...))
					}
				}()
			}
			var answered int64
			for i := 0; i < nctx; i++ {
				c, err := Q.OpenContext()
				if err != nil {
					t.Fatalf("harness: %v", err)
				}
				_ = c.SetOption(mangos.OptionRecvDeadline, 2*time.Second)
				_ = c.SetOption(mangos.OptionSendDeadline, 2*time.Second)
				wg.Add(1)
				go func(i int) {
					defer wg.Done()
					for n := 0; ; n++ {
						select {
						case <-stop:
							return
						default:
						}
						tag := fmt.Sprintf("ctx%d-req%d", i, n)
						if err := c.Send([]byte(tag)); err != nil {
							if err != mangos.ErrClosed && err != mangos.ErrSendTimeout {
								fail("send", "Send on context %d: %v", i, err)
							}
							return
						}
						b, err := c.Recv()
						switch {
						case err == mangos.ErrClosed:
							return
						case err == mangos.ErrRecvTimeout:
							continue // overload: no verdict
						case err != nil:
							fail("recv", "Recv on context %d after Send(%q): %v", i, tag, err)
							return
						case string(b) != "re:"+tag:
							fail("wrong-reply", "context %d sent %q and its Recv returned %q", i, tag, b)
							return
						}
						atomic.AddInt64(&answered, 1)
						if thinkUs > 0 {
							time.Sleep(time.Duration(thinkUs) * time.Microsecond)
						}
					}
				}(i)
			}
			time.Sleep(time.Duration(runMs) * time.Millisecond)
			close(stop)
			if !fixture.Within(10*time.Second, func() { _ = Q.Close(); _ = R.Close() }) {
				fail("deadlock", "closing the two sockets did not return within 10s")
				return
			}
			if !fixture.Within(10*time.Second, wg.Wait) {
				fail("deadlock", "the contexts' goroutines have not all returned 10s after both sockets were closed")
				return
			}
			if atomic.LoadInt32(&failed) != 0 {
				return
			}
			stats.Eval()
			stats.Class("req_backlog")
			if atomic.LoadInt64(&answered) > int64(nctx) {
				stats.NonTrivial(fmt.Sprintf("RB|%d|%d|%d|%d|%d|%s", nctx, nconn, workers, retryMs, serviceMs, tr))
			}
			stats.Sample(doc)
		})
	})
}
