package c11

import (
	"fmt"
	"os"
	"sync"
	"testing"
	"time"

	"go.nanomsg.org/mangos/v3"
	"go.nanomsg.org/mangos/v3/verifharness/fixture"
	"go.nanomsg.org/mangos/v3/verifharness/stats"
	"pgregory.net/rapid"
)

// TestC11SameEndpointConcurrently: 2-4 goroutines make the same call on ONE dialer, listener, context or socket at
// the same instant.  Sequentially the second Dial/Listen on a started endpoint fails with
// ErrAddrInUse and the second Close with ErrClosed; concurrent calls must linearise to one of those
// orders: exactly one call succeeds, and a dialer ends up with exactly one connection.
func TestC11SameEndpointConcurrently(t *testing.T) {
	stats.ScaledChecks(8, 6, func() {
		rapid.Check(t, func(t *rapid.T) {
			pn := rapid.SampledFrom([]string{"bus", "pub", "req", "push", "star", "surveyor"}).Draw(t, "ctor")
			what := rapid.SampledFrom([]string{"dial", "dial", "listen", "close-dialer", "close-listener", "close-socket", "close-context"}).Draw(t, "call")
			tr := rapid.SampledFrom([]string{"inproc", "tcp", "ipc"}).Draw(t, "transport")
			g := rapid.IntRange(2, 4).Draw(t, "goroutines")
			rounds := rapid.IntRange(3, 12).Draw(t, "rounds")
			doc := map[string]interface{}{"test": "TestC11SameEndpointConcurrently", "ctor": pn, "call": what, "transport": tr, "goroutines": g, "rounds": rounds, "rseed": os.Getenv("VERIF_RSEED")}
			fail := func(k, f string, a ...interface{}) {
				stats.Fail(t, "C11:same-endpoint-"+k+":"+what, doc, "%d goroutines calling %s on one endpoint of a %s socket over %s: %s", g, what, pn, tr, fmt.Sprintf(f, a...))
			}
			p := fixture.ByName(pn)
			for r := 0; r < rounds; r++ {
				S, P := fixture.New(p.Name), fixture.New(p.PeerName)
				pev := fixture.Hook(P)
				cleanup := func() {
					fixture.Within(5*time.Second, func() { _ = S.Close() })
					fixture.Within(5*time.Second, func() { _ = P.Close() })
				}
				var calls []func() error
				wantLoser := mangos.ErrAddrInUse
				switch what {
				case "close-socket", "close-context":
					// with a blocked Recv on the object, so that Close has something to wake
					wantLoser = mangos.ErrClosed
					var on interface {
						Close() error
						Recv() ([]byte, error)
					} = S
					if what == "close-context" {
						c, err := S.OpenContext()
						if err != nil {
							on = S // the pattern has no contexts: the socket itself
						} else {
							on = c
						}
					}
					go func() { _, _ = on.Recv() }()
					for i := 0; i < g; i++ {
						calls = append(calls, on.Close)
					}
				case "dial", "close-dialer":
					addr, _, err := fixture.Listen(P, tr)
					if err != nil {
						cleanup()
						t.Skip("port busy")
					}
					d, err := S.NewDialer(addr, fixture.DialOpts(tr))
					if err != nil {
						cleanup()
						t.Fatalf("harness: %v", err)
					}
					if what == "dial" {
						for i := 0; i < g; i++ {
							calls = append(calls, d.Dial)
						}
					} else {
						if err := d.Dial(); err != nil {
							cleanup()
							t.Skip("dial failed")
						}
						wantLoser = mangos.ErrClosed
						for i := 0; i < g; i++ {
							calls = append(calls, d.Close)
						}
					}
				default:
					l, err := S.NewListener(fixture.Addr(tr), fixture.ListenOpts(tr))
					if err != nil {
						cleanup()
						t.Fatalf("harness: %v", err)
					}
					if what == "listen" {
						for i := 0; i < g; i++ {
							calls = append(calls, l.Listen)
						}
					} else {
						if err := l.Listen(); err != nil {
							cleanup()
							t.Skip("port busy")
						}
						wantLoser = mangos.ErrClosed
						for i := 0; i < g; i++ {
							calls = append(calls, l.Close)
						}
					}
				}
				errs := make([]error, len(calls))
				start := make(chan struct{})
				var wg sync.WaitGroup
				for i, c := range calls {
					wg.Add(1)
					go func(i int, c func() error) {
						defer wg.Done()
						<-start
						errs[i] = c()
					}(i, c)
				}
				close(start)
				if !fixture.Within(10*time.Second, wg.Wait) {
					fail("deadlock", "the calls have not all returned after 10s")
					cleanup()
					return
				}
				won, other := 0, error(nil)
				for _, e := range errs {
					switch e {
					case nil:
						won++
					case wantLoser:
					default:
						other = e
					}
				}
				switch {
				case other != nil && what == "listen" && won == 1:
					// (a loser may also see the transport's own address-in-use error)
				case other != nil && won == 0:
					// the one real attempt failed for an outside reason (port taken): no verdict
					cleanup()
					continue
				case other != nil:
					fail("result", "results %v: a concurrent call returned %v, sequentially the possible results are nil once and %v for the others", errs, other, wantLoser)
					cleanup()
					return
				}
				if won != 1 {
					fail("result", "results %v: %d calls succeeded; in every sequential order exactly one does and the others return %v", errs, won, wantLoser)
					cleanup()
					return
				}
				if what == "dial" {
					pev.WaitAttached(1, 3*time.Second)
					time.Sleep(30 * time.Millisecond)
					if n := pev.Attached(); n != 1 {
						fail("connections", "one dialer, dialled from %d goroutines at once, made %d connections to its peer", g, n)
						cleanup()
						return
					}
				}
				cleanup()
			}
			stats.Eval()
			stats.Class("same_endpoint:" + what)
			stats.NonTrivial(fmt.Sprintf("SE|%s|%s|%s|%d", pn, what, tr, g))
			stats.Sample(doc)
		})
	})
}
