// C11 — sockets are safe for concurrent use.
//
// Random concurrent programs: a connected pair of every pattern (inproc / tcp / vt),
// 2-6 goroutines each running a generated list of public API calls (Send/Recv with
// short deadlines, SendMsg/RecvMsg, option get/set of every option the pattern
// knows, context open/use/close, extra Dial/Listen, Pipe.Close, Socket.Close).
// The binary is built with -race (GORACE halt_on_error=0 log_path=...).
// Oracle: no panic, no deadlock (all workers finish within 20 s), every result in
// the sequential contract's allowed set, and no race report whose two stacks both
// have their innermost non-runtime frame inside the library.
package c11

import (
	"bytes"
	"fmt"
	"net"
	"os"
	"path/filepath"
	"regexp"
	"runtime"
	"sort"
	"strings"
	"sync"
	"sync/atomic"
	"testing"
	"time"

	"go.nanomsg.org/mangos/v3"
	"go.nanomsg.org/mangos/v3/verifharness/fixture"
	"go.nanomsg.org/mangos/v3/verifharness/stats"
	"pgregory.net/rapid"
)

var harnessFailed int32
var realViolation int32

func TestMain(m *testing.M) {
	stats.Init("C11")
	stats.Rule("random concurrent programs: constructor pair (all 24 constructors with their natural peer) over {inproc,tcp,ipc}; 2-6 goroutines x 5-40 ops from {Send, Recv, SendMsg, RecvMsg, SetOption/GetOption of every option the pattern supports with valid values, OpenContext+ops+Close, NewDialer/NewListener+Dial/Listen+Close, Pipe.Close, Socket.Close at a drawn position}; GOMAXPROCS drawn from {2,4,16}; race detector on. Also: optional silent raw connection throughout; (B) parked dials on 2-4 held listeners released in a drawn order. Non-trivial: >=2 goroutines touch the same socket and at least one mutates (option set, close, context open/close); distinct by the program text. Round 5: the same call (Dial, Listen, Close) on one dialer/listener/context/socket from 2-4 goroutines at one instant: exactly one succeeds")
	stats.Assume("the race detector only sees executed interleavings: schedules are sampled, not enumerated; race reports are attributed to the program that was running when they appeared")
	rc := m.Run()
	stats.Flush()
	fixture.Cleanup()
	// The race detector makes `go test` fail whenever it reported anything, including listed
	// known findings and races inside the harness; decide by what the oracle recorded instead.
	if rc != 0 && atomic.LoadInt32(&harnessFailed) == 0 && atomic.LoadInt32(&realViolation) == 0 {
		rc = 0
	}
	os.Exit(rc)
}

// ---------------------------------------------------------------------------
// race log parsing

var accessRe = regexp.MustCompile(`^(Read|Write|Previous read|Previous write|Atomic read|Atomic write|Previous atomic read|Previous atomic write) at 0x[0-9a-f]+ by (goroutine \d+|main goroutine):`)

func isRuntimeFrame(fn string) bool {
	for _, p := range []string{"runtime.", "sync.", "sync/atomic.", "internal/", "reflect.", "syscall.", "time."} {
		if strings.HasPrefix(fn, p) {
			return true
		}
	}
	return false
}

func isLibFrame(fn string) bool {
	return strings.HasPrefix(fn, "go.nanomsg.org/mangos/v3") && !strings.Contains(fn, "/verifharness")
}

type raceReport struct {
	text   string
	frames [2]string
	sites  [2]string
}

func parseRaces(log string) []raceReport {
	var out []raceReport
	for _, blk := range strings.Split(log, "==================") {
		if !strings.Contains(blk, "DATA RACE") {
			continue
		}
		lines := strings.Split(blk, "\n")
		var tops, sites []string
		for i := 0; i < len(lines); i++ {
			if !accessRe.MatchString(strings.TrimSpace(lines[i])) {
				continue
			}
			top, site := "", ""
			for j := i + 1; j+1 < len(lines); j += 2 {
				fn := strings.TrimSpace(lines[j])
				if fn == "" {
					break
				}
				if k := strings.LastIndex(fn, "("); k > 0 {
					fn = fn[:k]
				}
				if !isRuntimeFrame(fn) {
					top = fn
					site = strings.TrimSpace(lines[j+1])
					if k := strings.Index(site, " +0x"); k > 0 {
						site = site[:k]
					}
					break
				}
			}
			tops = append(tops, top)
			sites = append(sites, site)
		}
		if len(tops) >= 2 {
			out = append(out, raceReport{text: strings.TrimSpace(blk), frames: [2]string{tops[0], tops[1]}, sites: [2]string{sites[0], sites[1]}})
		}
	}
	return out
}

func raceKey(r raceReport) string {
	a, b := strings.TrimPrefix(r.frames[0], "go.nanomsg.org/mangos/v3/"), strings.TrimPrefix(r.frames[1], "go.nanomsg.org/mangos/v3/")
	fs := []string{a, b}
	sort.Strings(fs)
	return "C11:race:" + fs[0] + "~" + fs[1]
}

var (
	raceOff  int64
	raceOnce sync.Once
	racePath string
)

// newRaces returns the race reports written since the last call.
func newRaces() []raceReport {
	raceOnce.Do(func() {
		gr := os.Getenv("GORACE")
		for _, f := range strings.Fields(gr) {
			if strings.HasPrefix(f, "log_path=") {
				racePath = strings.TrimPrefix(f, "log_path=") + "." + fmt.Sprint(os.Getpid())
			}
		}
	})
	if racePath == "" {
		return nil
	}
	b, err := os.ReadFile(racePath)
	if err != nil || int64(len(b)) <= raceOff {
		return nil
	}
	chunk := string(b[raceOff:])
	// only consume complete reports
	end := strings.LastIndex(chunk, "==================")
	if end < 0 {
		return nil
	}
	end += len("==================")
	raceOff += int64(end)
	return parseRaces(chunk[:end])
}

// ---------------------------------------------------------------------------
// program generation

type op struct {
	Kind string `json:"k"`
	Name string `json:"n,omitempty"`
	Val  string `json:"v,omitempty"`
	Ctx  int    `json:"c,omitempty"`
}

type program struct {
	Test     string `json:"test"`
	Ctor     string `json:"ctor"`
	Tr       string `json:"transport"`
	Procs    int    `json:"gomaxprocs"`
	Workers  [][]op `json:"workers"`
	PeerBusy bool   `json:"peer_busy"`
	Silent   bool   `json:"silent_peer"` // a raw connection that never speaks stays connected throughout
	RSeed    string `json:"rseed"`
}

type optSpec struct {
	name string
	vals []interface{}
}

func dur(ms ...int) []interface{} {
	var out []interface{}
	for _, m := range ms {
		out = append(out, time.Duration(m)*time.Millisecond)
	}
	return out
}

// optionsFor lists options (with valid values) that are worth toggling concurrently.
func optionsFor(ctor string) []optSpec {
	common := []optSpec{
		{mangos.OptionMaxRecvSize, []interface{}{0, 1024, 1 << 20}},
		{mangos.OptionReconnectTime, dur(1, 5, 50)},
		{mangos.OptionMaxReconnectTime, dur(0, 50, 200)},
		{mangos.OptionDialAsynch, []interface{}{true, false}},
	}
	rd := optSpec{mangos.OptionRecvDeadline, dur(1, 3, 10)}
	sd := optSpec{mangos.OptionSendDeadline, dur(1, 3, 10)}
	be := optSpec{mangos.OptionBestEffort, []interface{}{true, false}}
	rq := optSpec{mangos.OptionReadQLen, []interface{}{1, 2, 16, 128}}
	wq := optSpec{mangos.OptionWriteQLen, []interface{}{1, 2, 16, 128}}
	ttl := optSpec{mangos.OptionTTL, []interface{}{1, 2, 8, 255}}
	var o []optSpec
	switch ctor {
	case "pair", "xpair":
		o = []optSpec{rd, sd, be, rq, wq}
	case "pair1", "xpair1":
		o = []optSpec{rd, sd, be, rq, wq, ttl}
	case "pub", "xpub":
		o = []optSpec{wq}
	case "sub":
		o = []optSpec{rd, rq, {mangos.OptionSubscribe, []interface{}{"", "a"}}, {mangos.OptionUnsubscribe, []interface{}{"a"}}}
	case "xsub":
		o = []optSpec{rd, rq}
	case "req":
		o = []optSpec{rd, sd, be, {mangos.OptionRetryTime, dur(0, 2, 20)}, {mangos.OptionFailNoPeers, []interface{}{true, false}}}
	case "xreq":
		o = []optSpec{rd, sd, be, rq, wq}
	case "rep":
		o = []optSpec{rd, sd, be, wq, ttl}
	case "xrep", "xrespondent":
		o = []optSpec{rd, sd, be, rq, wq, ttl}
	case "push", "xpush":
		o = []optSpec{sd, be, wq, {mangos.OptionFailNoPeers, []interface{}{true, false}}}
	case "pull", "xpull":
		o = []optSpec{rd, rq}
	case "surveyor":
		o = []optSpec{rd, rq, wq, {mangos.OptionSurveyTime, dur(2, 20, 100)}}
	case "xsurveyor", "bus", "xbus":
		o = []optSpec{rd, rq, wq}
	case "respondent":
		o = []optSpec{rd, sd, be, rq, wq, ttl}
	case "star", "xstar":
		o = []optSpec{rd, rq, wq, ttl}
	}
	return append(o, common...)
}

func genProgram(t *rapid.T) program {
	p := fixture.Protos[rapid.IntRange(0, len(fixture.Protos)-1).Draw(t, "ctor")]
	pr := program{Test: "TestC11", Ctor: p.Name, RSeed: os.Getenv("VERIF_RSEED")}
	pr.Tr = rapid.SampledFrom([]string{"inproc", "inproc", "tcp", "ipc", "tls+tcp", "ws"}).Draw(t, "transport")
	pr.Procs = rapid.SampledFrom([]int{2, 4, 16}).Draw(t, "procs")
	pr.PeerBusy = rapid.Bool().Draw(t, "peerBusy")
	pr.Silent = pr.Tr != "inproc" && rapid.IntRange(0, 3).Draw(t, "silentPeer") == 0
	opts := optionsFor(p.Name)
	nw := rapid.IntRange(2, 6).Draw(t, "workers")
	closer := rapid.IntRange(-1, nw-1).Draw(t, "closer") // which worker closes the socket (-1: nobody)
	for w := 0; w < nw; w++ {
		n := rapid.IntRange(5, 40).Draw(t, "nops")
		var ops []op
		for i := 0; i < n; i++ {
			kinds := []string{"send", "recv", "sendmsg", "recvmsg", "setopt", "setopt", "getopt", "getopt"}
			if p.Contexts {
				kinds = append(kinds, "ctxopen", "ctxsend", "ctxrecv", "ctxclose", "ctxsetopt")
			}
			kinds = append(kinds, "listen", "dial", "pipeclose", "epclose", "epopt", "epopt", "info", "newpeer", "newpeer")
			k := rapid.SampledFrom(kinds).Draw(t, "kind")
			o := op{Kind: k}
			switch k {
			case "setopt", "ctxsetopt":
				sp := opts[rapid.IntRange(0, len(opts)-1).Draw(t, "opt")]
				o.Name = sp.name
				o.Val = fmt.Sprintf("%d", rapid.IntRange(0, len(sp.vals)-1).Draw(t, "val"))
			case "getopt":
				o.Name = opts[rapid.IntRange(0, len(opts)-1).Draw(t, "opt")].name
			}
			if strings.HasPrefix(k, "ctx") {
				o.Ctx = rapid.IntRange(0, 2).Draw(t, "ctx")
			}
			ops = append(ops, o)
		}
		if w == closer {
			pos := rapid.IntRange(0, len(ops)).Draw(t, "closeAt")
			ops = append(ops[:pos], append([]op{{Kind: "close"}}, ops[pos:]...)...)
		}
		pr.Workers = append(pr.Workers, ops)
	}
	return pr
}

var okErrs = map[error]bool{
	nil: true, mangos.ErrClosed: true, mangos.ErrRecvTimeout: true, mangos.ErrSendTimeout: true, mangos.ErrProtoState: true,
	mangos.ErrProtoOp: true, mangos.ErrNoPeers: true, mangos.ErrCanceled: true, mangos.ErrBadOption: true, mangos.ErrBadValue: true,
	mangos.ErrAddrInUse: true, mangos.ErrConnRefused: true, mangos.ErrBadProperty: true,
}

func allowed(kind string, err error) bool {
	if okErrs[err] {
		switch kind {
		case "setopt", "getopt", "ctxsetopt":
			return err == nil || err == mangos.ErrBadOption || err == mangos.ErrBadValue || err == mangos.ErrClosed
		}
		return true
	}
	// transport level errors of Dial/Listen (refused, in use) come from the OS
	if kind == "dial" || kind == "listen" {
		return true
	}
	return false
}

type result struct {
	panicked string
	badKind  string
	badErr   error
}

func rawHeader(name string) []byte {
	switch name {
	case "xreq", "xsurveyor":
		return []byte{0x80, 0, 0, 1}
	case "xpair1", "xstar":
		return []byte{0, 0, 0, 0}
	case "xrep", "xrespondent":
		return []byte{0, 0, 0, 1, 0x80, 0, 0, 1}
	}
	return nil
}

func runProgram(pr program) (res result, hung bool, stacks string, herr error) {
	old := runtime.GOMAXPROCS(pr.Procs)
	defer runtime.GOMAXPROCS(old)
	p := fixture.ByName(pr.Ctor)
	S, P := fixture.New(p.Name), fixture.New(p.PeerName)
	closeBoth := true // on the early (harness error) returns; the normal path closes under a watchdog
	defer func() {
		if closeBoth {
			_ = S.Close()
			_ = P.Close()
		}
	}()
	for _, s := range []mangos.Socket{S, P} {
		_ = s.SetOption(mangos.OptionRecvDeadline, 3*time.Millisecond)
		_ = s.SetOption(mangos.OptionSendDeadline, 3*time.Millisecond)
	}
	if p.PeerName == "sub" {
		_ = P.SetOption(mangos.OptionSubscribe, "")
	}
	// the Attaching callback takes a moment, so accept loops are busy now and then
	ev := fixture.HookWith(S, func(e mangos.PipeEvent, _ mangos.Pipe) {
		if e == mangos.PipeEventAttaching {
			time.Sleep(300 * time.Microsecond)
		}
	})
	addr, _, err := fixture.Listen(S, pr.Tr)
	if err != nil {
		return res, false, "", err
	}
	if _, err := fixture.Dial(P, addr); err != nil {
		return res, false, "", err
	}
	if !ev.WaitAttached(1, 5*time.Second) {
		return res, false, "", fmt.Errorf("attach timeout")
	}
	if pr.Silent {
		// somebody connects and never says a word: its handshake stays pending while
		// everything else goes on, and must not get in anybody's way
		network, a := "tcp", addr[strings.Index(addr, "://")+3:]
		if pr.Tr == "ipc" {
			network = "unix"
		} else if i := strings.Index(a, "/"); i >= 0 {
			a = a[:i]
		}
		if c, err := net.DialTimeout(network, a, 2*time.Second); err == nil {
			defer c.Close()
		}
	}
	// two more listening addresses on the in-process transport: concurrent dialers to different
	// addresses share that transport's global state
	extra := []string{addr}
	for i := 0; i < 2; i++ {
		a := fixture.Addr("inproc")
		if err := S.Listen(a); err == nil {
			extra = append(extra, a)
		}
	}
	opts := map[string]optSpec{}
	for _, o := range optionsFor(p.Name) {
		opts[o.name] = o
	}
	stop := make(chan struct{})
	var pwg sync.WaitGroup
	if pr.PeerBusy {
		// the peer talks and listens so that data flows through the socket under test
		pwg.Add(1)
		go func() {
			defer pwg.Done()
			for i := 0; ; i++ {
				select {
				case <-stop:
					return
				default:
				}
				if fixture.ByName(p.PeerName).CanSend {
					m := mangos.NewMessage(8)
					m.Body = append(m.Body, 'p', byte(i))
					if h := rawHeader(p.PeerName); h != nil {
						m.Header = append(m.Header, h...)
					}
					if P.SendMsg(m) != nil {
						m.Free()
					}
				}
				if fixture.ByName(p.PeerName).CanRecv {
					if m, err := P.RecvMsg(); err == nil {
						m.Free()
					}
				}
			}
		}()
	}
	var mu sync.Mutex
	var ctxs [3]mangos.Context
	var eps []interface{ Close() error }
	record := func(kind string, err error) {
		if !allowed(kind, err) {
			mu.Lock()
			if res.badKind == "" {
				res.badKind, res.badErr = kind, err
			}
			mu.Unlock()
		}
	}
	var wg sync.WaitGroup
	for wi, ops := range pr.Workers {
		wg.Add(1)
		go func(wi int, ops []op) {
			defer wg.Done()
			defer func() {
				if r := recover(); r != nil {
					mu.Lock()
					if res.panicked == "" {
						buf := make([]byte, 1<<14)
						res.panicked = fmt.Sprintf("%v\n%s", r, buf[:runtime.Stack(buf, false)])
					}
					mu.Unlock()
				}
			}()
			for i, o := range ops {
				switch o.Kind {
				case "send":
					record(o.Kind, S.Send([]byte{byte(wi), byte(i)}))
				case "recv":
					_, err := S.Recv()
					record(o.Kind, err)
				case "sendmsg":
					m := mangos.NewMessage(8)
					m.Body = append(m.Body, byte(wi), byte(i))
					if h := rawHeader(p.Name); h != nil {
						m.Header = append(m.Header, h...)
					}
					err := S.SendMsg(m)
					if err != nil {
						m.Free()
					}
					record(o.Kind, err)
				case "recvmsg":
					m, err := S.RecvMsg()
					if err == nil {
						m.Free()
					}
					record(o.Kind, err)
				case "setopt":
					sp := opts[o.Name]
					var vi int
					fmt.Sscanf(o.Val, "%d", &vi)
					record(o.Kind, S.SetOption(o.Name, sp.vals[vi]))
				case "getopt":
					_, err := S.GetOption(o.Name)
					record(o.Kind, err)
				case "info":
					_ = S.Info()
				case "ctxopen":
					c, err := S.OpenContext()
					record(o.Kind, err)
					if err == nil {
						_ = c.SetOption(mangos.OptionRecvDeadline, 3*time.Millisecond)
						_ = c.SetOption(mangos.OptionSendDeadline, 3*time.Millisecond)
						mu.Lock()
						oldc := ctxs[o.Ctx]
						ctxs[o.Ctx] = c
						mu.Unlock()
						if oldc != nil {
							_ = oldc.Close()
						}
					}
				case "ctxsend", "ctxrecv", "ctxclose", "ctxsetopt":
					mu.Lock()
					c := ctxs[o.Ctx]
					mu.Unlock()
					if c == nil {
						continue
					}
					switch o.Kind {
					case "ctxsend":
						record(o.Kind, c.Send([]byte{byte(wi), byte(i)}))
					case "ctxrecv":
						_, err := c.Recv()
						record(o.Kind, err)
					case "ctxclose":
						record(o.Kind, c.Close())
					case "ctxsetopt":
						sp := opts[o.Name]
						var vi int
						fmt.Sscanf(o.Val, "%d", &vi)
						err := c.SetOption(o.Name, sp.vals[vi])
						if err != mangos.ErrBadOption {
							record(o.Kind, err)
						}
					}
				case "epopt":
					mu.Lock()
					var e interface{ Close() error }
					if len(eps) > 0 {
						e = eps[(wi+i)%len(eps)]
					}
					mu.Unlock()
					if oo, ok := e.(interface {
						SetOption(string, interface{}) error
						GetOption(string) (interface{}, error)
					}); ok {
						switch i % 6 {
						case 0:
							_ = oo.SetOption(mangos.OptionMaxRecvSize, 1000+i)
						case 1:
							_, _ = oo.GetOption(mangos.OptionMaxRecvSize)
						case 2:
							_ = oo.SetOption(mangos.OptionNoDelay, i%2 == 0)
						case 3:
							_ = oo.SetOption(mangos.OptionKeepAliveTime, time.Duration(i)*time.Second)
							_, _ = oo.GetOption(mangos.OptionKeepAlive)
						case 4:
							_ = oo.SetOption(mangos.OptionTLSConfig, fixture.TLSClient())
							_, _ = oo.GetOption(mangos.OptionTLSConfig)
						case 5:
							_ = oo.SetOption(mangos.OptionReconnectTime, time.Duration(1+i%5)*time.Millisecond)
							_, _ = oo.GetOption(mangos.OptionReconnectTime)
						}
					}
				case "listen":
					if i%2 == 0 {
						// an endpoint of the case's own transport (its option code differs per transport)
						l, err := S.NewListener(fixture.Addr(pr.Tr), fixture.ListenOpts(pr.Tr))
						record(o.Kind, err)
						if err == nil {
							_ = l.Listen()
							mu.Lock()
							eps = append(eps, l)
							mu.Unlock()
						}
						continue
					}
					l, err := S.NewListener(fixture.Addr("inproc"), nil)
					record(o.Kind, err)
					if err == nil {
						record(o.Kind, l.Listen())
						mu.Lock()
						eps = append(eps, l)
						mu.Unlock()
					}
				case "dial":
					daddr := fixture.Addr("inproc")
					dopts := map[string]interface{}{mangos.OptionDialAsynch: true, mangos.OptionReconnectTime: 2 * time.Millisecond}
					if i%2 == 0 {
						daddr = fixture.Addr(pr.Tr)
						for k, v := range fixture.DialOpts(pr.Tr) {
							dopts[k] = v
						}
					}
					d, err := S.NewDialer(daddr, dopts)
					record(o.Kind, err)
					if err == nil {
						record(o.Kind, d.Dial())
						mu.Lock()
						eps = append(eps, d)
						mu.Unlock()
					}
				case "epclose":
					mu.Lock()
					var e interface{ Close() error }
					if len(eps) > 0 {
						e = eps[len(eps)-1]
						eps = eps[:len(eps)-1]
					}
					mu.Unlock()
					if e != nil {
						record(o.Kind, e.Close())
					}
				case "pipeclose":
					pl := ev.PipeList()
					if len(pl) > 0 {
						pp := pl[(wi+i)%len(pl)]
						_ = pp.ID()
						_ = pp.Address()
						_, _ = pp.GetOption(mangos.OptionLocalAddr)
						if i%3 == 0 {
							record(o.Kind, pp.Close())
						}
					}
				case "newpeer":
					// another peer connects while options change: AddPipe runs concurrently
					// two peers dial two different addresses of the socket at the same moment
					var dwg sync.WaitGroup
					for k := 0; k < 2; k++ {
						np := fixture.New(p.PeerName)
						mu.Lock()
						eps = append(eps, np)
						mu.Unlock()
						dwg.Add(1)
						go func(np mangos.Socket, a string) {
							defer dwg.Done()
							if strings.HasPrefix(a, "inproc://") {
								_, _ = fixture.Dial(np, a)
								return
							}
							// Over a real network the dial is asynchronous: once the socket under test has
							// been closed its port may be taken by an unrelated process that accepts and
							// stays silent, and a synchronous Dial is documented to wait in that case.
							o := fixture.DialOpts(fixture.TransportOf(a))
							if o == nil {
								o = map[string]interface{}{}
							}
							o[mangos.OptionDialAsynch] = true
							_ = np.DialOptions(a, o)
						}(np, extra[(wi+i+k)%len(extra)])
					}
					dwg.Wait()
				case "close":
					record(o.Kind, S.Close())
				}
			}
		}(wi, ops)
	}
	done := make(chan struct{})
	go func() { wg.Wait(); close(done) }()
	select {
	case <-done:
	case <-time.After(20 * time.Second):
		hung = true
		stacks = stats.Stacks()
	}
	close(stop)
	closeBoth = false
	cleanup := func() {
		_ = S.Close()
		_ = P.Close()
		mu.Lock()
		for _, e := range eps {
			_ = e.Close()
		}
		mu.Unlock()
	}
	if hung {
		// a dead-locked socket may never close: do not let it wedge the report
		go cleanup()
	} else if !fixture.Within(20*time.Second, cleanup) {
		// every worker returned, but Close itself never does
		hung = true
		stacks = stats.Stacks()
	} else {
		pwg.Wait()
	}
	return res, hung, stacks, nil
}

func TestC11(t *testing.T) {
	rapid.Check(t, func(t *rapid.T) {
		pr := genProgram(t)
		_ = newRaces() // attribute earlier stragglers to nobody
		res, hung, stacks, herr := runProgram(pr)
		if herr != nil {
			if strings.Contains(herr.Error(), "in use") {
				t.Skip("port busy")
			}
			atomic.StoreInt32(&harnessFailed, 1)
			t.Fatalf("harness: %v", herr)
		}
		fail := func(key string, doc interface{}, f string, a ...interface{}) {
			what := fmt.Sprintf(f, a...)
			if stats.Violate(key, what, doc) {
				atomic.StoreInt32(&realViolation, 1)
				if os.Getenv("VERIF_COLLECT") == "" { // collect mode: keep searching behind the first finding
					t.Fatalf("VIOLATION %s: %s", key, what)
				}
			}
		}
		if hung {
			fail("C11:deadlock:"+pr.Ctor, map[string]interface{}{"program": pr, "stacks": stacks}, "%s over %s: worker goroutines (or the final Close) still running after 20 s although every call is bounded by 3 ms deadlines (deadlock); goroutine dump saved in the replay file", pr.Ctor, pr.Tr)
		}
		if res.panicked != "" {
			fail("C11:panic:"+pr.Ctor, pr, "%s over %s: a public API call panicked: %s", pr.Ctor, pr.Tr, res.panicked)
		}
		if res.badKind != "" {
			fail("C11:result:"+pr.Ctor+":"+res.badKind, pr, "%s over %s: %s returned %v, which its sequential contract does not allow", pr.Ctor, pr.Tr, res.badKind, res.badErr)
		}
		time.Sleep(time.Millisecond)
		for _, r := range newRaces() {
			if !isLibFrame(r.frames[0]) || !isLibFrame(r.frames[1]) {
				stats.Class("race_with_harness_frame_ignored")
				continue
			}
			key := raceKey(r)
			doc := map[string]interface{}{"test": "TestC11", "program": pr, "report": r.text}
			// keep the full report next to the replay for humans
			if d := os.Getenv("VERIF_REPLAYS"); d != "" {
				_ = os.MkdirAll(d, 0o755)
				name := strings.NewReplacer("/", "_", "*", "", "(", "", ")", "", "~", "__", ":", "_").Replace(key)
				_ = os.WriteFile(filepath.Join(d, name+".race.txt"), []byte(r.text), 0o644)
			}
			fail(key, doc, "unsynchronised conflicting accesses inside the library: %s (%s) and %s (%s), while running %s over %s", r.frames[0], r.sites[0], r.frames[1], r.sites[1], pr.Ctor, pr.Tr)
		}
		stats.Eval()
		stats.Class("ctor:" + pr.Ctor)
		if pr.Silent {
			stats.Class("silent_peer_connected")
		}
		mut := false
		var canon bytes.Buffer
		for _, w := range pr.Workers {
			for _, o := range w {
				switch o.Kind {
				case "setopt", "close", "ctxopen", "ctxclose", "ctxsetopt", "pipeclose", "epclose", "listen", "dial":
					mut = true
				}
				canon.WriteString(o.Kind[:2] + o.Name + o.Val + ",")
			}
			canon.WriteString("|")
		}
		if len(pr.Workers) >= 2 && mut {
			stats.NonTrivial(pr.Ctor + pr.Tr + canon.String())
		}
		stats.Sample(map[string]interface{}{"ctor": pr.Ctor, "transport": pr.Tr, "workers": len(pr.Workers), "first_worker": pr.Workers[0]})
	})
}

// TestC11ParkedDials: several sockets listen on different addresses of one transport; their accept
// loops are held inside Attaching callbacks while dialers for each address queue up; the loops are
// then released in a drawn order.  Every Dial must return once its own listener accepts again —
// concurrent dialers must not steal each other's wake-ups.
func TestC11ParkedDials(t *testing.T) {
	stats.ScaledChecks(8, 6, func() {
		rapid.Check(t, func(t *rapid.T) {
			tr := rapid.SampledFrom([]string{"inproc", "inproc", "inproc", "tcp", "ipc"}).Draw(t, "transport")
			nl := rapid.IntRange(2, 4).Draw(t, "listeners")
			perAddr := rapid.IntRange(1, 3).Draw(t, "dialersPerAddress")
			order := rapid.Permutation(seq(nl)).Draw(t, "releaseOrder")
			parkOrder := rapid.Permutation(seq(nl*perAddr)).Draw(t, "parkOrder")
			doc := map[string]interface{}{"test": "TestC11ParkedDials", "transport": tr, "listeners": nl, "dialersPerAddress": perAddr, "releaseOrder": order, "parkOrder": parkOrder, "rseed": os.Getenv("VERIF_RSEED")}
			type lst struct {
				s    mangos.Socket
				addr string
				hold chan struct{}
				ev   *fixture.Events
			}
			var ls []*lst
			var all []mangos.Socket
			defer func() {
				for _, l := range ls {
					select {
					case <-l.hold:
					default:
						close(l.hold)
					}
				}
				for _, s := range all {
					_ = s.Close()
				}
			}()
			for i := 0; i < nl; i++ {
				l := &lst{s: fixture.New("bus"), hold: make(chan struct{})}
				all = append(all, l.s)
				hold := l.hold
				l.ev = fixture.HookWith(l.s, func(e mangos.PipeEvent, _ mangos.Pipe) {
					if e == mangos.PipeEventAttaching {
						<-hold
					}
				})
				a, _, err := fixture.Listen(l.s, tr)
				if err != nil {
					t.Skip("port busy")
				}
				l.addr = a
				ls = append(ls, l)
				// the first connection occupies the accept loop (its Attaching callback blocks)
				first := fixture.New("bus")
				all = append(all, first)
				go func() { _, _ = fixture.Dial(first, a) }()
			}
			time.Sleep(5 * time.Millisecond)
			// park the dialers
			type dres struct {
				li  int
				err error
			}
			results := make(chan dres, nl*perAddr)
			for _, k := range parkOrder {
				li := k % nl
				d := fixture.New("bus")
				all = append(all, d)
				go func(li int) {
					_, err := fixture.Dial(d, ls[li].addr)
					results <- dres{li, err}
				}(li)
				time.Sleep(2 * time.Millisecond)
			}
			// release the listeners one by one; after each release its own dialers must get through
			got := map[int]int{}
			for _, li := range order {
				close(ls[li].hold)
				deadline := time.After(5 * time.Second)
				for got[li] < perAddr {
					select {
					case r := <-results:
						got[r.li]++
					case <-deadline:
						atomic.StoreInt32(&realViolation, 1)
						stats.Fail(t, "C11:deadlock:parked-dial:"+tr, doc, "%d of %d Dial calls to a %s listener are still blocked 5 s after that listener resumed accepting (listeners %d, release order %v): concurrent dialers to different addresses interfere", perAddr-got[li], perAddr, tr, nl, order)
						return
					}
				}
			}
			stats.Eval()
			stats.Class("parked_dials:" + tr)
			stats.NonTrivial(fmt.Sprintf("P|%s|%d|%d|%v|%v", tr, nl, perAddr, order, parkOrder))
			stats.Sample(doc)
		})
	})
}

func seq(n int) []int {
	s := make([]int, n)
	for i := range s {
		s[i] = i
	}
	return s
}
