// C04 — REQ re-sends an unanswered request until a peer answers.
//
// Fault sequences against a REQ socket on virtual-transport pipes.  The oracle is
// a token simulation over the time-stamped transmission log: the Send grants one
// permission to transmit at T0; every transmission consumes a permission that was
// available no later than its own time and yields one R later; closing a pipe
// that carried (or may have swallowed) the request grants one immediately (R>0).
// A copy that finds no permission was sent "sooner than allowed"; a copy after
// the request ended needs a permission from before the end.
package c04

import (
	"bytes"
	"encoding/binary"
	"fmt"
	"os"
	"sort"
	"testing"
	"time"

	"go.nanomsg.org/mangos/v3"
	"go.nanomsg.org/mangos/v3/protocol/req"
	"go.nanomsg.org/mangos/v3/verifharness/fixture"
	"go.nanomsg.org/mangos/v3/verifharness/stats"
	"go.nanomsg.org/mangos/v3/verifharness/vt"
	"pgregory.net/rapid"
)

func TestMain(m *testing.M) {
	stats.Init("C04")
	stats.Rule("fault scripts of 1-6 events {wait-retry, close carrier, close other, add pipe, block pipe, release, answer, replace, close context} against a REQ socket with retry time R in {0,20,40,80ms}, 1-3 vt pipes, 1-2 contexts. Also: R = 10 s; second context with inherited or own retry time. Non-trivial: >=1 fault (close/block/silent retry) while the request is outstanding; distinct by (R, event sequence with outcomes)")
	stats.Assume("real time: lower bounds are exact (harness time-stamps before Send/Close, the transport stamps at transmission), upper bounds are 2-3 s 'did not hang' bounds")
	rc := m.Run()
	stats.Flush()
	os.Exit(rc)
}

type closeEv struct {
	at   time.Time
	pipe *vt.Pipe
}

type request struct {
	tag    string
	id     uint32
	t0     time.Time // before Send
	ended  time.Time // zero while outstanding
	endWhy string
	ctx    int
	first  []byte
}

type sim struct {
	t              *rapid.T
	R              time.Duration
	sock           mangos.Socket
	ep             *vt.Endpoint
	ev             *fixture.Events
	all            []*vt.Pipe // every pipe ever attached
	live           []*vt.Pipe
	closes         []closeEv
	maybeSwallowed map[*vt.Pipe]bool
	trace          []string
	faults         int
	canon          string
}

func (s *sim) logf(f string, a ...interface{}) { s.trace = append(s.trace, fmt.Sprintf(f, a...)) }

func (s *sim) doc() interface{} {
	return map[string]interface{}{"test": "TestC04", "R_ms": s.R.Milliseconds(), "trace": s.trace, "rseed": os.Getenv("VERIF_RSEED")}
}

func (s *sim) fail(key, f string, a ...interface{}) {
	stats.Fail(s.t, "C04:"+key, s.doc(), "R=%v: "+f+" — script: %v", append(append([]interface{}{s.R}, a...), s.trace)...)
}

func (s *sim) addPipe() *vt.Pipe {
	p, ok := s.ep.ConnectWait(5 * time.Second)
	if !ok {
		s.t.Fatalf("harness: pipe not attached")
	}
	s.all = append(s.all, p)
	s.live = append(s.live, p)
	return p
}

// copies returns all recorded transmissions of the request, in global order.
func (s *sim) copies(r *request) []vt.Sent {
	var out []vt.Sent
	for _, p := range s.all {
		for _, x := range p.SentLog() {
			if len(x.Data) >= 4 && string(x.Data[4:]) == r.tag {
				out = append(out, x)
			}
		}
	}
	sort.Slice(out, func(i, j int) bool { return out[i].Seq < out[j].Seq })
	return out
}

func (s *sim) waitCopies(r *request, n int, d time.Duration) bool {
	deadline := time.Now().Add(d)
	for {
		if len(s.copies(r)) >= n {
			return true
		}
		if time.Now().After(deadline) {
			return false
		}
		time.Sleep(300 * time.Microsecond)
	}
}

func (s *sim) closePipe(p *vt.Pipe) {
	before := s.ev.Detached()
	s.closes = append(s.closes, closeEv{time.Now(), p})
	if s.R > 0 && s.R <= time.Second {
		// With retry timers firing every few tens of milliseconds any connection may be holding a
		// copy that was handed to it but not yet recorded when it is closed (of any context's
		// request): the audit counts every close as a possible carrier loss.
		s.maybeSwallowed[p] = true
	}
	_ = p.Close()
	if !s.ev.WaitDetached(before+1, 3*time.Second) {
		s.fail("no-detach", "closed pipe %s not detached within 3s", p.Name)
	}
	for i, q := range s.live {
		if q == p {
			s.live = append(s.live[:i], s.live[i+1:]...)
			break
		}
	}
}

// audit runs the token simulation for one request.
func (s *sim) audit(r *request) {
	cs := s.copies(r)
	if len(cs) == 0 {
		return
	}
	for i, c := range cs {
		if !bytes.Equal(c.Data, cs[0].Data) {
			s.fail("copy-differs", "retransmission %d of %s differs from the first transmission: %x vs %x", i, r.tag, c.Data, cs[0].Data)
			return
		}
	}
	type ev struct {
		at    time.Time
		close bool
		pipe  *vt.Pipe
	}
	var evs []ev
	for _, c := range cs {
		evs = append(evs, ev{at: c.At, pipe: c.Pipe})
	}
	carried := map[*vt.Pipe]bool{}
	for _, c := range s.closes {
		if c.at.Before(r.t0) {
			continue // closed before this request existed: it cannot have held a copy of it
		}
		evs = append(evs, ev{at: c.at, close: true, pipe: c.pipe})
	}
	// closes sort before copies at equal time (lenient)
	sort.SliceStable(evs, func(i, j int) bool {
		if evs[i].at.Equal(evs[j].at) {
			return evs[i].close && !evs[j].close
		}
		return evs[i].at.Before(evs[j].at)
	})
	// The close time-stamp is taken before Close(), the copy time-stamp at transmission, so a
	// copy on a pipe is always stamped... not necessarily before that pipe's close stamp (a
	// transmission may race with the close); carried[] is therefore precomputed leniently.
	for _, c := range cs {
		carried[c.Pipe] = true
	}
	tokens := []time.Time{r.t0}
	n := 0
	for _, e := range evs {
		if e.close {
			if s.R > 0 && (carried[e.pipe] || s.maybeSwallowed[e.pipe]) {
				tokens = append(tokens, e.at)
			}
			continue
		}
		n++
		limit := e.at
		if !r.ended.IsZero() && r.ended.Before(limit) {
			limit = r.ended
		}
		best := -1
		for i, tk := range tokens {
			if !tk.After(limit) && (best < 0 || tk.Before(tokens[best])) {
				best = i
			}
		}
		if best < 0 {
			earliest := time.Duration(-1)
			for _, tk := range tokens {
				d := tk.Sub(r.t0)
				if earliest < 0 || d < earliest {
					earliest = d
				}
			}
			if !r.ended.IsZero() && e.at.After(r.ended) {
				s.fail("sent-after-end", "copy %d of %s transmitted at T0+%v although the request was %s at T0+%v (next permitted transmission would have been T0+%v)", n, r.tag, e.at.Sub(r.t0), r.endWhy, r.ended.Sub(r.t0), earliest)
			} else {
				s.fail("sent-too-soon", "copy %d of %s transmitted at T0+%v: no retry interval had elapsed and no carrying connection had closed (earliest permitted T0+%v)", n, r.tag, e.at.Sub(r.t0), earliest)
			}
			return
		}
		tk := tokens[best]
		tokens = append(tokens[:best], tokens[best+1:]...)
		if s.R > 0 {
			tokens = append(tokens, tk.Add(s.R))
		}
	}
}

func TestC04(t *testing.T) {
	rapid.Check(t, func(t *rapid.T) {
		// 10 s: the retry timer cannot mask a missing re-send after a connection loss
		R := time.Duration(rapid.SampledFrom([]int{0, 20, 20, 40, 80, 10000, 10000}).Draw(t, "R")) * time.Millisecond
		sock, err := req.NewSocket()
		if err != nil {
			t.Fatalf("harness: %v", err)
		}
		defer sock.Close()
		s := &sim{t: t, R: R, sock: sock, maybeSwallowed: map[*vt.Pipe]bool{}}
		s.ev = fixture.Hook(sock)
		if s.ep, err = vt.Attach(sock); err != nil {
			t.Fatalf("harness: %v", err)
		}
		defer s.ep.Forget()
		if err := sock.SetOption(mangos.OptionRetryTime, R); err != nil {
			t.Fatalf("harness: %v", err)
		}
		_ = sock.SetOption(mangos.OptionSendDeadline, 3*time.Second)
		np := rapid.IntRange(1, 3).Draw(t, "npipes")
		for i := 0; i < np; i++ {
			s.addPipe()
		}
		nctx := rapid.IntRange(1, 2).Draw(t, "nctx")
		ctxs := []mangos.Context{sock}
		if nctx == 2 {
			// the second context either inherits the socket's retry
			// time or is opened on a socket with another one and
			// given its own
			own := rapid.Bool().Draw(t, "ctxOwnRetryTime")
			if own {
				_ = sock.SetOption(mangos.OptionRetryTime, time.Minute)
			}
			c, err := sock.OpenContext()
			if err != nil {
				t.Fatalf("harness: %v", err)
			}
			if own {
				stats.Class("ctx_own_retry_time")
				if err := c.SetOption(mangos.OptionRetryTime, R); err != nil {
					t.Fatalf("harness: %v", err)
				}
				if err := sock.SetOption(mangos.OptionRetryTime, R); err != nil {
					t.Fatalf("harness: %v", err)
				}
			}
			ctxs = append(ctxs, c)
		}
		var reqs []*request
		cur := make([]*request, nctx)
		type res struct {
			b   []byte
			err error
		}
		pend := make([]chan res, nctx)
		ctxClosed := make([]bool, nctx)
		seq := 0

		startRecv := func(ci int) {
			ch := make(chan res, 1)
			pend[ci] = ch
			c := ctxs[ci]
			before := fixture.CountGoroutines("protocol/req.(*context).RecvMsg", "sync.(*Cond).Wait")
			go func() { b, err := c.Recv(); ch <- res{b, err} }()
			fixture.WaitGoroutines(before+1, 2*time.Second, "protocol/req.(*context).RecvMsg", "sync.(*Cond).Wait")
		}
		expectRecv := func(ci int, wantErr error, want []byte, why string) {
			ch := pend[ci]
			pend[ci] = nil
			if ch == nil {
				return
			}
			select {
			case r := <-ch:
				if wantErr != nil {
					if r.err != wantErr {
						s.fail("recv-result", "ctx %d: pending Recv returned (%q,%v) after %s, want %v", ci, r.b, r.err, why, wantErr)
					}
				} else if r.err != nil || !bytes.Equal(r.b, want) {
					s.fail("recv-result", "ctx %d: pending Recv returned (%q,%v) after %s, want %q", ci, r.b, r.err, why, want)
				}
			case <-time.After(3 * time.Second):
				s.fail("recv-stuck", "ctx %d: pending Recv still blocked 3s after %s", ci, why)
			}
		}
		end := func(r *request, why string) {
			if r != nil && r.ended.IsZero() {
				r.ended = time.Now()
				r.endWhy = why
			}
		}
		send := func(ci int) {
			seq++
			r := &request{tag: fmt.Sprintf("REQ-%d-ctx%d-%s", seq, ci, string(fixture.Payload(uint64(seq), 3))), ctx: ci}
			old := cur[ci]
			r.t0 = time.Now()
			if err := ctxs[ci].Send([]byte(r.tag)); err != nil {
				s.fail("send-error", "Send: %v", err)
				return
			}
			end(old, "replaced by a new Send")
			if old != nil && pend[ci] != nil {
				expectRecv(ci, mangos.ErrCanceled, nil, "a new Send")
			}
			reqs = append(reqs, r)
			cur[ci] = r
			if len(s.live) > 0 {
				if !s.waitCopies(r, 1, 3*time.Second) {
					blocked := false
					for _, p := range s.live {
						if p.Blocked() > 0 {
							blocked = true
						}
					}
					if !blocked {
						s.fail("no-transmission", "request %s accepted by Send not transmitted within 3s with %d ready pipes", r.tag, len(s.live))
						return
					}
				}
			}
			if cs := s.copies(r); len(cs) > 0 {
				r.id = binary.BigEndian.Uint32(cs[0].Data[:4])
			}
			startRecv(ci)
			s.logf("send(ctx%d)", ci)
		}

		send(0)
		if nctx == 2 {
			send(1)
		}

		nev := rapid.IntRange(1, 6).Draw(t, "nev")
		for i := 0; i < nev; i++ {
			ci := rapid.IntRange(0, nctx-1).Draw(t, "ctx")
			if ctxClosed[ci] {
				ci = 0
			}
			r := cur[ci]
			evn := rapid.SampledFrom([]string{"wait", "wait", "closeCarrier", "closeCarrier", "closeOther", "addPipe", "block", "release", "answer", "replace", "closeCtx"}).Draw(t, "ev")
			switch evn {
			case "wait":
				if r == nil || !r.ended.IsZero() || R == 0 || R > time.Second {
					continue
				}
				n0 := len(s.copies(r))
				accepting := 0
				for _, p := range s.live {
					if p.Mode() == vt.ModeAccept && p.Blocked() == 0 {
						accepting++
					}
				}
				if accepting == 0 || n0 == 0 {
					continue
				}
				if !s.waitCopies(r, n0+1, R+2500*time.Millisecond) {
					s.fail("no-retry", "no retransmission of %s within R+2.5s although %d pipes were ready and no reply had arrived (%d copies so far)", r.tag, accepting, n0)
				}
				s.faults++
				s.canon += "w"
				s.logf("wait-retry(ctx%d)", ci)
			case "closeCarrier":
				if r == nil || !r.ended.IsZero() {
					continue
				}
				cs := s.copies(r)
				if len(cs) == 0 {
					continue
				}
				carrier := cs[len(cs)-1].Pipe
				if carrier.IsClosed() {
					continue
				}
				// is it really the carrier of the latest attempt?  A blocked pipe may hold a later one.
				latest := true
				for _, p := range s.live {
					if p != carrier && p.Blocked() > 0 {
						latest = false
					}
				}
				if !latest {
					continue // outcome depends on which attempt the library considers the last one
				}
				// every context whose latest transmission went over this pipe is affected
				type aff struct {
					ci int
					r  *request
					n0 int
				}
				var affected []aff
				for cj, rj := range cur {
					if rj == nil || !rj.ended.IsZero() {
						continue
					}
					cj2 := s.copies(rj)
					if len(cj2) > 0 && cj2[len(cj2)-1].Pipe == carrier {
						affected = append(affected, aff{cj, rj, len(cj2)})
					}
				}
				stuckBefore := 0
				for _, p := range s.live {
					if p != carrier {
						stuckBefore += p.Blocked()
					}
				}
				s.closePipe(carrier)
				s.faults++
				s.logf("closeCarrier(ctx%d,%s)", ci, carrier.Name)
				s.canon += "c"
				accepting := 0
				for _, p := range s.live {
					if p.Mode() == vt.ModeAccept && p.Blocked() == 0 {
						accepting++
					}
				}
				if !latest {
					continue
				}
				for _, a := range affected {
					if R == 0 {
						expectRecv(a.ci, mangos.ErrCanceled, nil, "the carrying connection closed with retries disabled")
						end(a.r, "cancelled (retries disabled, connection lost)")
					} else if accepting > 0 {
						if !s.waitCopies(a.r, a.n0+1, 2500*time.Millisecond) {
							// The library cannot know which idle connection will take data: if the copy was
							// handed to a peer that then exerted back-pressure it is on its way, not missing.
							stuckNow := 0
							for _, p := range s.live {
								stuckNow += p.Blocked()
							}
							if stuckNow > stuckBefore {
								stats.Class("resend_went_to_a_backpressuring_peer")
								continue
							}
							s.fail("no-resend-on-close", "request %s was not re-sent within 2.5s after its carrying connection closed (%d other pipes ready)", a.r.tag, accepting)
						}
					}
				}
			case "closeOther":
				if r == nil || len(s.live) < 2 {
					continue
				}
				var cs []vt.Sent
				for _, rj := range cur {
					if rj != nil {
						cs = append(cs, s.copies(rj)...)
					}
				}
				var cand *vt.Pipe
				for _, p := range s.live {
					used := s.maybeSwallowed[p]
					for _, c := range cs {
						if c.Pipe == p {
							used = true
						}
					}
					if !used && p.Blocked() == 0 {
						cand = p
					}
				}
				if cand == nil {
					continue
				}
				// other contexts' requests may have used it; that is accounted per request by carried[].
				// A retry timer may fire between the look at the log above and the close below and hand
				// its copy to this very pipe, where the close swallows it unrecorded: the library then
				// rightly re-sends at once.  The audit therefore treats this close as a possible carrier loss.
				s.maybeSwallowed[cand] = true
				s.closePipe(cand)
				s.logf("closeOther(%s)", cand.Name)
				s.canon += "o"
			case "addPipe":
				if len(s.live) >= 3 {
					continue
				}
				s.addPipe()
				s.logf("addPipe")
				s.canon += "a"
			case "block":
				if len(s.live) == 0 {
					continue
				}
				p := s.live[rapid.IntRange(0, len(s.live)-1).Draw(t, "bp")]
				p.SetMode(vt.ModeBlock, nil)
				s.maybeSwallowed[p] = true
				s.faults++
				s.logf("block(%s)", p.Name)
				s.canon += "b"
			case "release":
				for _, p := range s.live {
					p.SetMode(vt.ModeAccept, nil)
				}
				s.logf("release")
				s.canon += "l"
			case "answer":
				if r == nil || !r.ended.IsZero() || r.id == 0 || len(s.live) == 0 {
					continue
				}
				p := s.live[rapid.IntRange(0, len(s.live)-1).Draw(t, "ap")]
				payload := []byte("ANSWER-" + r.tag)
				wire := make([]byte, 4, 4+len(payload))
				binary.BigEndian.PutUint32(wire, r.id)
				wire = append(wire, payload...)
				if p.Inject(wire, 3*time.Second) != vt.InjProcessed {
					s.fail("receiver-stalled", "receiver of %s did not process the reply", p.Name)
					continue
				}
				end(r, "answered")
				expectRecv(ci, nil, payload, "the reply arrived on "+p.Name)
				s.logf("answer(ctx%d via %s)", ci, p.Name)
				s.canon += "A"
			case "replace":
				if r == nil {
					continue
				}
				for _, p := range s.live {
					p.SetMode(vt.ModeAccept, nil)
				}
				if len(s.live) == 0 {
					s.addPipe()
				}
				send(ci)
				s.canon += "r"
			case "closeCtx":
				if ci == 0 || r == nil || !r.ended.IsZero() {
					continue
				}
				_ = ctxs[ci].Close()
				ctxClosed[ci] = true
				end(r, "abandoned by closing its context")
				expectRecv(ci, mangos.ErrClosed, nil, "context close")
				s.logf("closeCtx(%d)", ci)
				s.canon += "x"
			}
		}
		// Let everything that is (wrongly or rightly) scheduled happen, then end all requests.
		for _, p := range s.live {
			p.SetMode(vt.ModeAccept, nil)
		}
		watch := 2*R + 30*time.Millisecond
		if watch > 200*time.Millisecond {
			watch = 200 * time.Millisecond
		}
		time.Sleep(watch)
		_ = sock.Close()
		for ci := range ctxs {
			end(cur[ci], "abandoned by closing the socket")
			if pend[ci] != nil {
				expectRecv(ci, mangos.ErrClosed, nil, "socket close")
			}
		}
		time.Sleep(watch)
		for _, r := range reqs {
			s.audit(r)
		}
		stats.Eval()
		stats.Class(fmt.Sprintf("R=%dms", R.Milliseconds()))
		if s.faults > 0 {
			stats.Class("with_fault")
			stats.NonTrivial(fmt.Sprintf("%d|%s", R.Milliseconds(), s.canon))
		}
		stats.Sample(map[string]interface{}{"R_ms": R.Milliseconds(), "script": s.trace})
	})
}
