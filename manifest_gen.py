#!/usr/bin/env python3
"""Generates MANIFEST.json from the table below (kept in one place so the manifest stays valid)."""
import json
from checks_config import PROPS

CHECKS = {
 "C01": dict(
   text="Round-trip oracle over generated size sequences on every one of the 96 transport x pattern x mode configurations; boundary-biased generated search, not a proof.",
   note="Assumes loopback TCP/unix sockets and Go's TLS/websocket stacks deliver bytes faithfully; sizes above 1 MiB and MaxRecvSize=0 are outside the domain.",
   technique="property-based testing (rapid), round-trip oracle, boundary-biased size generator"),
 "C03": dict(
   text="Model-based state-machine search: every Recv result of a real REQ socket (1-3 contexts, 1-3 connections) is compared with a reference model while the harness, acting as the REP peers on a scripted transport, injects current, stale, foreign, duplicate, bit-less, random and short replies. Generated histories, not exhaustive.",
   note="Trusts the vt barrier (receiver back in Recv) as the definition of 'reply arrived'; blocking predictions use a 40 ms deadline (lower bound exact). Histories are bounded (~30-100 steps, 3 contexts, 3 pipes).",
   technique="stateful property-based testing (rapid state machine) against a reference model over a virtual transport"),
 "C04": dict(
   text="Fault-sequence search: generated scripts of connection loss / silence / blocked pipes / answers / replacement against a REQ socket on a scripted transport; a token simulation over the time-stamped transmission log decides 'byte-identical', 'never sooner than the retry interval or a carrier close', 'one connection per (re)transmission' and 'never after answered/cancelled/closed'; bounded waits decide 're-sent after close / after the interval' and 'retries disabled cancels'.",
   note="Real time: lower bounds are exact (harness stamps before Send/Close, transport stamps at transmission); 'is re-sent' is checked within generous 2.5 s bounds, not as liveness. Scripts have <=6 events, <=3 pipes, <=2 contexts, R in {0,20,40,80} ms.",
   technique="property-based fault injection (rapid) with a history invariant (token simulation) over a virtual transport"),
 "C05": dict(
   text="Model-based state-machine search over rep/respondent (1-3 contexts) and xrep/xrespondent with 1-4 scripted connections: every reply must appear on exactly the requesting pipe with wire bytes routing-words||id||body; per-pipe transmission logs must equal the model after a sentinel round (nothing extra anywhere); replies to vanished pipes are discarded; Send without a request fails.",
   note="Which pending request a Recv obtains is checked with a validity predicate (oldest pending of some pipe). Routing depth 0..7 (default TTL 8). Histories bounded by rapid's step count.",
   technique="stateful property-based testing (rapid) against a reference model over a virtual transport, sentinel for absence"),
 "C09": dict(
   text="(A) Boundary search on the hop limit: a scripted peer injects messages that crossed k connections (k routing words / hop byte k-1) into each of the 8 TTL-enforcing receivers, each probe followed by an in-limit sentinel so that 'dropped' is decided without a timeout; delivered <=> k<=TTL (PAIR1 k<=TTL+1) is compared between cooked and raw. Quick: generated (TTL,k) with boundary bias; thorough adds the full enumeration TTL 1..255 x k in TTL-1..TTL+2 (exhaustive on that axis). (B) Real Device chains of 0..4 forwarders (req/rep, survey, pair1, pipeline; inproc, tcp) with 1-3 concurrent clients: payloads unchanged, replies return to the asking client, answered <=> crossed connections <= server TTL.",
   note="k=0 has no encoding (a received message crossed at least one connection). In (B) 'not answered' is decided by a 250 ms window (absence is genuine, so no false alarm; a wrongly delivered message arrives in microseconds). STAR/BUS chains are covered by C08.",
   technique="property-based testing (rapid) with sentinel-decided boundary probes over a virtual transport, plus exhaustive enumeration of the TTL axis in the thorough tier and generated device-chain topologies"),
 "C07": dict(
   text="Model-based state-machine search over a SURVEYOR socket (1-3 contexts, 1-3 scripted respondents): every survey must reach every connected pipe exactly once with one id; Recv results are compared with a model holding, per context, the current survey id and the arrival-ordered queue of valid responses (stale, foreign, bit-less, short and random responses must vanish); Recv without a survey must fail promptly with ErrProtoState. Real-time expiry scenarios (150-300 ms): early response delivered, Recv across/after expiry fails with ErrProtoState not before the survey time, late responses discarded, zero survey time never expires.",
   note="Expiry scenarios are real time: 'after expiry' = survey time + 300 ms; the lower bound (not before the survey time) is exact. RESPONDENT-side routing is decided by C05.",
   technique="stateful property-based testing (rapid) against a reference model over a virtual transport, plus timed expiry scenarios"),
 "C06": dict(
   text="(A) Model-based state-machine search on a SUB socket (1-3 contexts, queue 4) fed by scripted publishers over a 4-letter alphabet (empty / equal / prefix-related / non-UTF8 topics frequent): Recv must return exactly the model's oldest pending matching publication, time out iff none is pending, never deliver a message pruned by a completed Unsubscribe; Unsubscribe of an absent topic must fail. (B) Real PUB/XPUB x 1-4 SUB x 1-2 contexts over inproc/tcp/ipc: each context receives exactly the matching subsequence of each publisher's stream (END sentinels per publisher make absence decidable), once, in order, byte-identical, and a mutation of a received body is invisible to other contexts.",
   note="After a queue overflow the statement allows losses, so the model then only demands order-preserving delivery of candidates. Queue resizes are outside C06 (C19).",
   technique="stateful property-based testing (rapid) against a reference prefix-matcher/queue model over a virtual transport; generated fan-out topologies with sentinel messages"),
 "C02": dict(
   text="Generated concurrent workloads: pattern {pair,xpair,pair1,xpair1,push/pull,xpush/xpull} x accepted queue lengths {0,1,2,16,128} x 1-4 sender goroutines x 1-60 tagged messages x 1-4 PULL peers x {inproc,tcp,ipc}, optionally a peer closing mid-stream. Oracle over the received history: without faults multiset equality (nothing lost/duplicated/invented) and every Send completes; with faults subset and no duplicates; always per-sender, per-connection increasing sequence numbers. PAIR exclusivity: with 1-3 intruding asynchronous dialers the server never has two peers attached, the established conversation stays gap-free and intruder payloads never arrive; after the first peer leaves a waiting dialer is admitted and heard.",
   note="Goroutine interleavings are sampled by repetition (no schedule control). 'Nothing extra' after the last message is decided by a 150 ms quiet period. Known finding: push/xpush with WRITEQ-LEN=0 never completes Send (excluded from the generator while listed, reproduced by a dedicated probe each run).",
   technique="property-based testing (rapid) of concurrent workloads with a history invariant (exactly-once, per-connection order), fault injection by closing peers"),
 "C20": dict(
   text="macat driven in-process (stdout captured through the verif hook) against harness peers: printing in raw/ascii/quoted/msgpack/no formats for all 11 patterns is decoded by independent decoders and compared with the bytes that crossed the socket (one record per message); sending with --data/--file/--count/--interval is compared with what the peer receives (exact bytes, exact count, nothing more); Duration text parsing (bare integers = seconds, Go syntax, junk rejected); 21 kinds of conflicting/missing option combinations must be rejected with an error and no output while valid controls run.",
   note="In-process only (the macat/macat main wrapper's exit status is not exercised). --count on request/reply style sockets without an interval is left out (nanocat compatibility: sent once). Known finding: a lone '-' argument panics inside the third-party option parser.",
   technique="property-based testing (rapid) with independent decoders (round-trip / differential oracle) and generated option combinations"),
 "C13": dict(
   text="(A) Generated connection sequences (1-40, thorough up to 200 pipes) on the listener and dialer side of a socket built from a recording ProtocolBase wrapper around xbus/xpair/xrep, each connection with a drawn plan (close in Attaching, close in Attached, close later, peer drop, protocol refusal, leave until socket close) and traffic in between. Oracle over the event log: Attaching exactly once and first, Attached <=1, Detached exactly once iff Attached, refused/closed-in-Attaching pipes get neither and are closed, AddPipe/RemovePipe exactly once each for attached pipes (RemovePipe after AddPipe) and none accepted for the others, ids non-zero 31-bit, unique among live pipes, allocated on entry to Attaching/Detached callbacks (verif hook) and released with the socket's pipe list empty after close, and after every refusal the next connection on the same listener/dialer attaches. (B) On the 6 real transports, both sides: Pipe.Address/Dialer/Listener identity (including anonymous-port listeners), LOCAL/REMOTE-ADDR agreeing with the peer's view, IPC peer credentials = this process, TLS-STATE of a completed handshake, unknown option names rejected, also after a first connection was rejected in Attaching on either side.",
   note="Connections are made one at a time (the harness waits for each to settle), so Close racing with attach is sampled only through the hook-side plans; the statement's 'or is being reported' race is tolerated. Known finding: tls+tcp listener-side TLS-STATE is captured before the handshake.",
   technique="property-based testing (rapid) of generated connection/fault plans with an event-log invariant, a recording protocol wrapper, the virtual transport and the id-allocator verif hook"),
 "C14": dict(
   text="Fault-sequence search on a dialer whose transport is fully scripted: generated scripts of refusals, connections rejected in Attaching, connections dropped after 0/5/120 ms and lasting connections, for ReconnectTime in {5,10,20,50 ms}, MaxReconnectTime in {0,r,2r,8r,40r}, synchronous and asynchronous dialing, with Close of the dialer or the socket between attempts, during a hanging attempt or while connected. Oracle over the time-stamped attempt log: failed synchronous first dial returns the error and stops; otherwise attempts continue; every gap >= reconnect time and >= the grown delay after consecutive refusals (exact lower bounds); gaps bounded by the cap / 1.5^j growth; the delay returns to the initial value after a connection that lasted >= 100 ms; no attempt starts after Close returned. A real-socket variant restarts the listener 1-3 times (inproc/tcp/ipc) and requires traffic to resume with no action on the dialing side.",
   note="Real time. Lower bounds are exact; upper bounds carry 250 ms slack and, like the reset and no-attempt-after-Close checks, are reported only when they fail in 3 consecutive executions of the same generated case. Reconnection is checked within generous bounds (3-5 s), not as liveness.",
   technique="property-based fault injection (rapid) with a history invariant over the time-stamped dial log of a virtual transport"),
 "C15": dict(
   text="Conformance search against an independent codec (harness/wire: SP stream header and framing, IPC prefix, and an RFC 6455 client/server written without gorilla): for constructors of all 12 protocol numbers on tcp/ipc/tls+tcp, in both roles, mangos' first 8 bytes must equal the header of its own protocol; every single-byte deviation, swapped number, foreign protocol or truncated header from the peer must lead to no Attached event and a closed connection while the correct header attaches; generated messages (raw header 0-32 bytes, boundary-biased bodies to 70000 bytes) must appear on the wire as len64be(h+b)||h||b (IPC: 0x01 first) and frames written by the codec must be returned by RecvMsg unchanged; on ws/wss the dialer must offer exactly '<peer>.sp.nanomsg.org', the listener must accept iff its own name is offered, and each message must be one binary frame. Thorough adds a native fuzz target comparing accept/deliver decisions with the codec on arbitrary peer byte strings.",
   note="The constructor is drawn, not enumerated, per transport x role sub-test. Known finding: ws/wss dialers fragment messages above 4096 bytes. Hostile IPC prefix bytes and silent peers belong to C16.",
   technique="property-based testing (rapid) with a differential oracle: an independent implementation of the SP stream/WebSocket mappings as the peer; native go fuzzing in the thorough tier"),
 "C10": dict(
   text="Generated close scenarios: constructor (all 24) x transport (inproc, tcp, ipc, ws, tls+tcp, wss) x role x 0-2 contexts x activities in progress at Close (Recv blocked on the socket and on contexts, Sends blocked against a back-pressuring scripted peer or no peer with a write queue of 1, an asynchronous dialer redialling an absent listener, a raw peer stuck before the handshake on the listener and on the dialer side, the peer closing concurrently, Device forwarders running), optionally a context closed first. Oracle: the calls verified blocked return within 3 s with ErrClosed (or a queued message), Close returns within 3 s, every later call (Send, Recv, Dial, Listen, OpenContext, Close, option calls, context calls) returns within 3 s with a closed/unsupported error, the silent peer's connection is closed, and after all sockets are closed the goroutine census shows no library frame, the pipe-id allocator and the socket's pipe list (verif hook) are back to the baseline and the address can be bound again. A second property closes one context/dialer/listener/pipe and requires siblings to keep working.",
   note="Schedules are sampled: Close is issued ~40 ms after the activities started, the exact interleaving is not controlled. Timers are observed only through their effects. Known finding: the dialer-side silent-server handshake leak (excluded from generation while listed).",
   technique="property-based testing (rapid) of generated concurrent close scenarios with watchdog, goroutine-census and allocator oracles; scripted virtual transport and raw TCP/unix peers for faults"),
 "C12": dict(
   text="Fault enumeration x generated follow-ups: 19 scenarios each provoke one API error outcome (TLS listener without config / without certificate, address in use, Listen twice, refused synchronous dial, bad address, unknown scheme, garbage or truncated handshake from raw peers, pipes rejected by the Attaching hook on the listener and on the dialer side, protocol refusal, connections lost right after attach, receive/send timeout, no peers, protocol-state error, closed listener/dialer) on the transports that can produce it; then 3-8 generated calls on the same listener/dialer and its socket (option get/set with good and bad values, Address, Send/Recv with deadlines, sibling endpoints) each run under a 2 s watchdog; then the cause is corrected and the SAME object is retried (supply the TLS config, free the port, start the listener) and a message round trip proves the object works; after rejected or lost connections a fresh well-behaved peer must get through.",
   note="Reaches the error paths in this catalogue only; the statement's universal claim over every lock-to-return path would need static analysis, which is outside this technique and not used. Hangs are decided by a 2 s watchdog.",
   technique="property-based fault enumeration (rapid): provoked API errors followed by generated call sequences under a watchdog, with correct-and-retry and round-trip liveness oracles"),
 "C08": dict(
   text="Generated topologies (BUS full meshes and chains of 2-5 members, chains with raw BUS members forwarding through Device(s,s), STAR random trees of 2-6 cooked/raw members; inproc, tcp, ipc; one connection per pair, sending only after every planned link is Attached on both ends) with 0-20 tagged messages per member sent sequentially or concurrently. Oracle: the multiset each member receives equals a flood model (cooked BUS delivers to direct neighbours only and never forwards; a forwarding raw BUS passes a message to every peer except its arrival pipe; STAR delivers every message to every other member exactly once), nobody receives its own message, nothing is altered; a sentinel from every originator, travelling the same FIFO links, closes the observation so that 'nothing extra' needs no timeout.",
   note="Volumes stay below the queue lengths ('queue space permitting'); loop-free topologies only; interleavings of concurrent senders are sampled.",
   technique="property-based testing (rapid) over generated topologies with a reference flood model and sentinel-closed multiset comparison"),
 "C17": dict(
   text="A verif-tag ledger in message.go (double release, Clone/MakeUnique/Dup of a released message, write into a released pooled buffer, poison-on-release, NewMessage postcondition) runs behind generated workloads: (A) fan-out hold-and-mutate on PUB/XPUB->1-3 SUB sockets x 1-2 contexts, BUS, STAR, SURVEYOR->RESPONDENTs, PAIR, REQ/REP with 5 ms retransmissions, PAIR1 through a Device, over inproc/tcp/ipc/ws with pool-class boundary sizes: the application keeps received messages across further recycled traffic, mutates some of its own, and every held message must still equal its snapshot, be unreleased and poison-free; (B) for 12 sending constructors and outcomes timeout/closed/no-peers/best-effort/success a failed SendMsg must leave the message unreleased with its body intact and re-sendable, a successful one must deliver it; (C) NewMessage(sz) for generated and boundary sizes after dirty releases starts empty with capacity >= sz; (D) peers vanishing while large messages are written drive the transports' send error paths under the ledger.",
   note="The ledger sees Free/Clone/MakeUnique/Dup/NewMessage; a read of a released buffer is only visible as poison (0xDB) in data that reaches an application, a write only when the buffer is re-used from the pool. Interleavings are sampled.",
   technique="property-based testing (rapid) with an instrumented ownership ledger (build tag verif) and application-side snapshot oracles"),
 "C18": dict(
   text="Timed scenarios on a scripted transport for every (pattern or context kind, option) pair that the code supports: receive deadline on an empty queue (no peer, silent peer, peer leaving) must end with ErrRecvTimeout not before the deadline and within deadline+2 s, a queued message must be returned despite the deadline, no deadline must still be blocked after 150 ms and complete when a message is injected; send deadline against a full queue / back-pressuring peer likewise (message left intact and unreleased with the caller), room in the queue succeeds at once; best-effort sends return nil within 1 s in every queue/peer state and are delivered at most once; fail-no-peers returns ErrNoPeers at once without peers and when the last peer leaves during the wait, and does not fire while a peer is connected.",
   note="Real time: lower bounds are exact (Go timers never fire early on the monotonic clock), upper bounds are generous (deadline + 2 s, 'immediately' = 1 s), 'completes at once' is reported only when it fails in 3 consecutive executions of the same case. Built by a sub-agent to the harness conventions and reviewed; push/xpush with WRITEQ-LEN=0 is excluded (C02 finding).",
   technique="property-based testing (rapid) of timed scenarios over a virtual transport with exact lower-bound and generous upper-bound timing oracles"),
 "C19": dict(
   text="Uniform-contract search: a deterministic cross product of 106 objects (24 constructors fresh and connected, contexts, dialers and listeners of 6 transports before/after use, option maps, pipes) x 51 option names (all documented constants, ws and ipc specials, arbitrary strings) x 35 typed boundary values, each Set/Get guarded against panics and hangs and compared with an option table derived from the documentation and code (result class bad-option / bad-value / accepted, Go type, read-back of accepted values); generated Set/Get sequences against a model of last accepted values; inheritance of socket options by dialers, listeners, pipes and new contexts; metamorphic 'zero means no limit' effects for deadlines, retry and survey time; queue length n admits n messages; queue-length changes with full and idle queues must cause no Detached event and leave the connection delivering; unsupported operations (Recv on PUB/PUSH, Send on SUB/PULL, OpenContext on 19 constructors) return ErrProtoOp without side effect; Device over all 25x25 socket pairs returns ErrClosed/ErrBadProto/ErrNotRaw/nil per its contract and starts nothing on refusal.",
   note="Cells the documentation leaves open (negative retry/survey/reconnect/keep-alive durations, negative MAX-RCV-SIZE on transport endpoints, non-positive deadlines on rep/respondent, typed-nil TLS config) accept either outcome. Queue lengths above 65536 are not generated. Known findings: negative deadlines block although documented non-blocking; xbus disconnects and xstar stalls on a READQ-LEN change with a full queue. Built by a sub-agent to the harness conventions and reviewed.",
   technique="exhaustive enumeration of the option-name x value-type cross product plus property-based testing (rapid) of option sequences, inheritance, metamorphic effect checks and resize scenarios"),
}

ALL = ["C%02d" % i for i in range(1, 21)]
PENDING_REASON = "check not built yet in this round (planned: see DESIGN.md §3); not claimed until its harness exists"

def main():
    checks = []
    for pid in ALL:
        if pid not in CHECKS or pid not in PROPS:
            continue
        c = CHECKS[pid]
        checks.append({
            "property_id": pid,
            "quick_cmd": "./check %s --tier quick" % pid,
            "thorough_cmd": "./check %s --tier thorough" % pid,
            "evidence_file": "evidence/%s.json" % pid,
            "replay_cmd_template": "./check %s --replay {path}" % pid,
            "engine": "rapid-harness",
            "level_claimed": {"category": PROPS[pid]["level"], "text": c["text"], "design_ref": "DESIGN.md §3 " + pid},
            "level_note": c["note"],
            "technique": c["technique"],
        })
    claimed = [c["property_id"] for c in checks]
    m = {
        "version": 1,
        "setup_cmd": "./check --setup",
        "hooks": {
            "guard": "verif",
            "enable": "go test -tags verif: ./check builds each property's test binary from /repo's working tree (replace directive in harness/go.mod) with -tags verif",
            "baseline_off_cmd": "cd /repo && GOFLAGS=-mod=mod go test -json -vet=off -count=1 -timeout 25m ./...",
            "source_commits": json.load(open("/verif/hook_commits.json")) if __import__("os").path.exists("/verif/hook_commits.json") else [],
            "add_only": True,
        },
        "engines": [{
            "name": "rapid-harness", "path": "harness", "serves_properties": claimed,
            "kind_free_text": "pgregory.net/rapid v1.3.0 property-based tests (state-machine mode for histories), native go fuzz targets in the thorough tier, a scripted virtual transport (harness/vt), an independent SP/WebSocket codec (harness/wire); driver ./check shards runs over processes, merges evidence, applies known_findings.json",
        }],
        "checks": checks,
        "notes": "Exit 2 from a check means inconclusive (build/infra), never a violation. known_findings.json lists open findings (printed as KNOWN-FINDING) and fixed ones (suppress nothing).",
        "not_applicable": [{"property_id": p, "reason": PENDING_REASON} for p in ALL if p not in claimed],
    }
    json.dump(m, open("/verif/MANIFEST.json", "w"), indent=1)
    print("claimed:", claimed)

if __name__ == "__main__":
    main()
