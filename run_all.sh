#!/bin/bash
# Runs every registered check's quick (or $1) tier at VERIF_SEED and prints one line per property.
tier=${1:-quick}
cd /verif || exit 2
for p in C01 C02 C03 C04 C05 C06 C07 C08 C09 C10 C11 C12 C13 C14 C15 C16 C17 C18 C19 C20; do
	out=$(./check $p --tier $tier 2>&1)
	rc=$?
	echo "$p rc=$rc $(echo "$out" | grep "tier=" | cut -c1-160)"
	if [ $rc -ne 0 ]; then echo "$out" | grep -v "^KNOWN" | cut -c1-1200 | head -12; fi
done
