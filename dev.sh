#!/bin/bash
# Developer helper: ./dev.sh vet <pkg>...   |   ./dev.sh run <Cnn> [tier]   |   ./dev.sh clean
export GOFLAGS=-mod=mod GOPROXY=off GOSUMDB=off GOTOOLCHAIN=local
cd /verif || exit 2
case "$1" in
vet)
	shift
	cd harness && go vet -tags verif "$@"
	;;
run)
	prop=$2
	tier=${3:-quick}
	find replays -type f ! -name .gitkeep -delete
	(cd harness && go vet -tags verif ./props/$(echo "$prop" | tr A-Z a-z)) || exit 2
	/usr/bin/time -f "elapsed %es" ./check "$prop" --tier "$tier" | cut -c1-${CUT:-1800}
	;;
clean)
	find replays -type f ! -name .gitkeep -delete
	;;
*)
	echo "usage: $0 vet|run|clean"
	;;
esac
